//! dmx-facts: a rustc driver that dumps typed facts about the `datamatrix` crate as JSON.
//!
//! Used as RUSTC_WORKSPACE_WRAPPER under `cargo +nightly check --lib`.  For the crate
//! named by DMX_FACTS_CRATE (default `datamatrix`), non-test configuration, it writes one
//! JSON file (path in DMX_FACTS_OUT) with:
//!   thir   : typed syntax tree of every fn/assoc fn/closure body (patterns pre-evaluated)
//!   mir    : CFG of every body (optimized_mir at -Zmir-opt-level=0)
//!   consts : evaluated value of every const/static item
//!   adts   : enum/struct definitions
//! No function of the analysed crate is executed, except by rustc's own const evaluator
//! for `const` items (which is part of type checking the program).
#![feature(rustc_private)]
#![allow(rustc::internal)]

extern crate rustc_abi;
extern crate rustc_ast;
extern crate rustc_data_structures;
extern crate rustc_driver;
extern crate rustc_hir;
extern crate rustc_interface;
extern crate rustc_middle;
extern crate rustc_session;
extern crate rustc_span;

mod json;
mod mirdump;
mod thirdump;

use json::J;
use rustc_driver::Compilation;
use rustc_hir::def::DefKind;
use rustc_middle::ty::{self, TyCtxt};
use rustc_span::Span;

pub struct Cx<'tcx> {
    pub tcx: TyCtxt<'tcx>,
}

impl<'tcx> Cx<'tcx> {
    pub fn path(&self, did: rustc_hir::def_id::DefId) -> String {
        ty::print::with_no_trimmed_paths!(self.tcx.def_path_str(did))
    }
    pub fn ty_str(&self, t: ty::Ty<'tcx>) -> String {
        ty::print::with_no_trimmed_paths!(format!("{}", t))
    }
    pub fn span(&self, sp: Span) -> J {
        // Use the outermost call site for macro-expanded spans so positions are in src/.
        let exp = sp.from_expansion();
        let sm = self.tcx.sess.source_map();
        let lo = sm.lookup_char_pos(sp.lo());
        let hi = sm.lookup_char_pos(sp.hi());
        let file = format!("{}", lo.file.name.prefer_local_unconditionally());
        let mut o = J::obj(vec![
            ("file", J::s(file)),
            ("line", J::Int(lo.line as i128)),
            ("col", J::Int(lo.col.0 as i128 + 1)),
            ("eline", J::Int(hi.line as i128)),
            ("ecol", J::Int(hi.col.0 as i128 + 1)),
        ]);
        if exp {
            o.push("exp", J::Bool(true));
            let cs = sp.source_callsite();
            let clo = sm.lookup_char_pos(cs.lo());
            o.push("cfile", J::s(format!("{}", clo.file.name.prefer_local_unconditionally())));
            o.push("cline", J::Int(clo.line as i128));
            o.push("ccol", J::Int(clo.col.0 as i128 + 1));
            if let Some(m) = sp.macro_backtrace().last() {
                o.push("macro", J::s(format!("{}", m.kind.descr())));
            }
        }
        o
    }
    pub fn snippet(&self, sp: Span) -> String {
        let sp = if sp.from_expansion() { sp.source_callsite() } else { sp };
        let s = self.tcx.sess.source_map().span_to_snippet(sp).unwrap_or_default();
        let s: String = s.split_whitespace().collect::<Vec<_>>().join(" ");
        if s.len() > 160 {
            let mut e = 160;
            while !s.is_char_boundary(e) {
                e -= 1;
            }
            s[..e].to_string()
        } else {
            s
        }
    }

    /// ValTree -> JSON (leaf = integer, branch = array)
    pub fn valtree(&self, vt: ty::ValTree<'tcx>, t: ty::Ty<'tcx>) -> J {
        match **vt {
            ty::ValTreeKind::Leaf(i) => {
                if let ty::Int(_) = t.kind() {
                    J::Int(i.to_int(i.size()))
                } else {
                    J::Int(i.to_uint(i.size()) as i128)
                }
            }
            ty::ValTreeKind::Branch(cs) => {
                let mut v = vec![];
                for c in cs.iter() {
                    match c.kind() {
                        ty::ConstKind::Value(val) => v.push(self.valtree(val.valtree, val.ty)),
                        _ => v.push(J::s(format!("{:?}", c))),
                    }
                }
                J::Arr(v)
            }
        }
    }
}

struct Cb {
    out: String,
    thir: Vec<J>,
}

impl rustc_driver::Callbacks for Cb {
    fn after_expansion<'tcx>(
        &mut self,
        _compiler: &rustc_interface::interface::Compiler,
        tcx: TyCtxt<'tcx>,
    ) -> Compilation {
        let cx = Cx { tcx };
        for ldid in tcx.hir_body_owners() {
            let dk = tcx.def_kind(ldid);
            if !matches!(dk, DefKind::Fn | DefKind::AssocFn | DefKind::Closure) {
                continue;
            }
            if let Some(j) = thirdump::dump_body(&cx, ldid) {
                self.thir.push(j);
            }
        }
        Compilation::Continue
    }

    fn after_analysis<'tcx>(
        &mut self,
        _compiler: &rustc_interface::interface::Compiler,
        tcx: TyCtxt<'tcx>,
    ) -> Compilation {
        let cx = Cx { tcx };
        let mut mir = vec![];
        let mut consts = vec![];
        for ldid in tcx.hir_body_owners() {
            let dk = tcx.def_kind(ldid);
            match dk {
                DefKind::Fn | DefKind::AssocFn | DefKind::Closure => {
                    mir.push(mirdump::dump_body(&cx, ldid));
                }
                DefKind::Const { .. } | DefKind::AssocConst { .. } | DefKind::Static { .. } => {
                    if let Some(j) = mirdump::dump_const(&cx, ldid) {
                        consts.push(j);
                    }
                }
                _ => {}
            }
        }
        let adts = mirdump::dump_adts(&cx);
        let mut top = J::obj(vec![
            ("crate", J::s(tcx.crate_name(rustc_hir::def_id::LOCAL_CRATE).to_string())),
            ("rustc", J::s(option_env!("CFG_VERSION").unwrap_or("nightly"))),
        ]);
        top.push("thir", J::Arr(std::mem::take(&mut self.thir)));
        top.push("mir", J::Arr(mir));
        top.push("consts", J::Arr(consts));
        top.push("adts", adts);
        let mut s = String::new();
        top.write(&mut s);
        std::fs::write(&self.out, s).expect("cannot write facts");
        Compilation::Continue
    }
}

struct NoCb;
impl rustc_driver::Callbacks for NoCb {}

fn main() {
    let mut args: Vec<String> = std::env::args().collect();
    // RUSTC_WORKSPACE_WRAPPER passes the real rustc path as argv[1]
    if args.len() > 1 && !args[1].starts_with('-') {
        args.remove(1);
    }
    let mut crate_name = None;
    for i in 0..args.len() {
        if args[i] == "--crate-name" && i + 1 < args.len() {
            crate_name = Some(args[i + 1].clone());
        }
    }
    let want = std::env::var("DMX_FACTS_CRATE").unwrap_or_else(|_| "datamatrix".to_string());
    let is_test = args.iter().any(|a| a == "--test");
    let out = std::env::var("DMX_FACTS_OUT").ok();
    if crate_name.as_deref() == Some(want.as_str()) && !is_test {
        if let Some(out) = out {
            let mut cb = Cb { out, thir: vec![] };
            rustc_driver::run_compiler(&args, &mut cb);
            return;
        }
    }
    rustc_driver::run_compiler(&args, &mut NoCb);
}
