//! MIR CFG, evaluated constants and ADT definitions -> JSON.
use crate::json::J;
use crate::Cx;
use rustc_hir::def::DefKind;
use rustc_hir::def_id::{LocalDefId, LOCAL_CRATE};
use rustc_middle::mir::interpret::{GlobalId, Scalar};
use rustc_middle::mir::*;
use rustc_middle::ty::{self, Ty};

struct M<'a, 'tcx> {
    cx: &'a Cx<'tcx>,
    body: &'a Body<'tcx>,
    env: ty::TypingEnv<'tcx>,
}

pub fn dump_body<'tcx>(cx: &Cx<'tcx>, ldid: LocalDefId) -> J {
    let tcx = cx.tcx;
    let body = tcx.optimized_mir(ldid.to_def_id());
    let env = ty::TypingEnv::post_analysis(tcx, ldid.to_def_id());
    let m = M { cx, body, env };
    let mut locals = vec![];
    for (l, d) in body.local_decls.iter_enumerated() {
        locals.push(J::obj(vec![
            ("i", J::Int(l.as_u32() as i128)),
            ("ty", J::s(cx.ty_str(d.ty))),
            ("span", cx.span(d.source_info.span)),
        ]));
    }
    let mut dbg = vec![];
    for v in body.var_debug_info.iter() {
        let mut o = J::obj(vec![("name", J::s(v.name.to_string()))]);
        match &v.value {
            VarDebugInfoContents::Place(p) => o.push("place", m.place(p)),
            VarDebugInfoContents::Const(c) => o.push("const", m.constant(&c.const_)),
        }
        if let Some(a) = v.argument_index {
            o.push("arg", J::Int(a as i128));
        }
        dbg.push(o);
    }
    let mut blocks = vec![];
    for (_bb, data) in body.basic_blocks.iter_enumerated() {
        let mut stmts = vec![];
        for st in data.statements.iter() {
            match &st.kind {
                StatementKind::Assign(b) => {
                    let (pl, rv) = &**b;
                    stmts.push(J::obj(vec![
                        ("k", J::s("Assign")),
                        ("place", m.place(pl)),
                        ("rv", m.rvalue(rv)),
                        ("span", cx.span(st.source_info.span)),
                    ]));
                }
                StatementKind::SetDiscriminant { place, variant_index } => {
                    stmts.push(J::obj(vec![
                        ("k", J::s("SetDiscr")),
                        ("place", m.place(place)),
                        ("variant", J::Int(variant_index.as_u32() as i128)),
                        ("span", cx.span(st.source_info.span)),
                    ]));
                }
                StatementKind::Intrinsic(i) => {
                    stmts.push(J::obj(vec![
                        ("k", J::s("Intrinsic")),
                        ("dbg", J::s(format!("{:?}", i))),
                        ("span", cx.span(st.source_info.span)),
                    ]));
                }
                _ => {}
            }
        }
        let term = data.terminator();
        let mut t = m.terminator(term);
        t.push("span", cx.span(term.source_info.span));
        t.push("snippet", J::s(cx.snippet(term.source_info.span)));
        blocks.push(J::obj(vec![
            ("stmts", J::Arr(stmts)),
            ("term", t),
            ("cleanup", J::Bool(data.is_cleanup)),
        ]));
    }
    let mut vis = String::new();
    let dk = tcx.def_kind(ldid);
    if matches!(dk, DefKind::Fn | DefKind::AssocFn) {
        vis = format!("{:?}", tcx.visibility(ldid.to_def_id()));
    }
    J::obj(vec![
        ("def", J::s(cx.path(ldid.to_def_id()))),
        ("kind", J::s(format!("{:?}", dk))),
        ("vis", J::s(vis)),
        ("span", cx.span(tcx.def_span(ldid))),
        ("argc", J::Int(body.arg_count as i128)),
        ("locals", J::Arr(locals)),
        ("debug", J::Arr(dbg)),
        ("blocks", J::Arr(blocks)),
    ])
}

impl<'a, 'tcx> M<'a, 'tcx> {
    fn place(&self, p: &Place<'tcx>) -> J {
        let mut proj = vec![];
        let mut cur_ty = PlaceTy::from_ty(self.body.local_decls[p.local].ty);
        for elem in p.projection.iter() {
            match elem {
                ProjectionElem::Deref => proj.push(J::s("*")),
                ProjectionElem::Field(f, _) => {
                    let mut name = String::new();
                    let mut adtname = String::new();
                    if let ty::Adt(adt, _) = cur_ty.ty.kind() {
                        let vi = cur_ty.variant_index.unwrap_or(rustc_abi::FIRST_VARIANT);
                        if adt.variants().len() > vi.as_usize() {
                            if let Some(fd) = adt.variant(vi).fields.get(f) {
                                name = fd.name.to_string();
                            }
                        }
                        adtname = self.cx.path(adt.did());
                    }
                    proj.push(J::obj(vec![
                        ("f", J::Int(f.as_u32() as i128)),
                        ("name", J::s(name)),
                        ("adt", J::s(adtname)),
                    ]));
                }
                ProjectionElem::Index(l) => proj.push(J::obj(vec![("idx", J::Int(l.as_u32() as i128))])),
                ProjectionElem::ConstantIndex { offset, min_length, from_end } => proj.push(J::obj(vec![
                    ("cidx", J::Int(offset as i128)),
                    ("min", J::Int(min_length as i128)),
                    ("from_end", J::Bool(from_end)),
                ])),
                ProjectionElem::Subslice { from, to, from_end } => proj.push(J::obj(vec![
                    ("sub_from", J::Int(from as i128)),
                    ("sub_to", J::Int(to as i128)),
                    ("from_end", J::Bool(from_end)),
                ])),
                ProjectionElem::Downcast(name, v) => proj.push(J::obj(vec![
                    ("downcast", J::Int(v.as_u32() as i128)),
                    ("name", J::s(name.map(|s| s.to_string()).unwrap_or_default())),
                ])),
                ProjectionElem::OpaqueCast(_) => proj.push(J::s("opaque")),
                ProjectionElem::UnwrapUnsafeBinder(_) => proj.push(J::s("unwrap_binder")),
            }
            cur_ty = cur_ty.projection_ty(self.cx.tcx, elem);
        }
        J::obj(vec![("l", J::Int(p.local.as_u32() as i128)), ("p", J::Arr(proj))])
    }

    fn scalar(&self, s: Scalar, t: Ty<'tcx>, o: &mut J) {
        match s {
            Scalar::Int(i) => {
                if let ty::Int(_) = t.kind() {
                    o.push("int", J::Int(i.to_int(i.size())));
                } else {
                    o.push("int", J::Int(i.to_uint(i.size()) as i128));
                }
            }
            Scalar::Ptr(..) => {
                o.push("ptr", J::Bool(true));
            }
        }
    }

    fn constant(&self, c: &Const<'tcx>) -> J {
        let tcx = self.cx.tcx;
        let t = c.ty();
        let mut o = J::obj(vec![("ty", J::s(self.cx.ty_str(t)))]);
        if let ty::FnDef(did, args) = t.kind() {
            o.push("fn", J::s(self.cx.path(*did)));
            o.push("fn_args", J::s(ty::print::with_no_trimmed_paths!(format!("{:?}", args))));
            if let Ok(Some(inst)) = ty::Instance::try_resolve(tcx, self.env, *did, args) {
                o.push("resolved", J::s(self.cx.path(inst.def_id())));
            }
            return o;
        }
        match c {
            Const::Unevaluated(uv, _) => {
                o.push("def", J::s(self.cx.path(uv.def)));
                if let Some(p) = uv.promoted {
                    o.push("promoted", J::Int(p.as_u32() as i128));
                }
            }
            _ => {}
        }
        // Try to evaluate to a valtree (works for ints, bools, chars, arrays, slices, refs)
        let mut done = false;
        if let Const::Unevaluated(uv, _) = c {
            if uv.promoted.is_none() && uv.args.is_empty() {
                let inst = ty::Instance::mono(tcx, uv.def);
                let gid = GlobalId { instance: inst, promoted: None };
                let env = ty::TypingEnv::fully_monomorphized();
                if let Ok(vt) = tcx.eval_to_valtree(env.as_query_input(gid)) {
                    o.push("val", self.cx.valtree(vt, t));
                    done = true;
                }
            }
        }
        if !done {
            match c {
                Const::Val(v, _) => match v {
                    ConstValue::Scalar(s) => self.scalar(*s, t, &mut o),
                    ConstValue::ZeroSized => o.push("zst", J::Bool(true)),
                    ConstValue::Slice { .. } => {
                        if let Some(bytes) = v.try_get_slice_bytes_for_diagnostics(tcx) {
                            o.push("bytes", J::Arr(bytes.iter().map(|b| J::Int(*b as i128)).collect()));
                        }
                    }
                    ConstValue::Indirect { .. } => o.push("indirect", J::Bool(true)),
                },
                Const::Ty(_, ct) => {
                    if let ty::ConstKind::Value(v) = ct.kind() {
                        o.push("val", self.cx.valtree(v.valtree, v.ty));
                    } else {
                        o.push("dbg", J::s(format!("{:?}", ct)));
                    }
                }
                Const::Unevaluated(..) => {
                    if let Ok(v) = c.eval(tcx, self.env, rustc_span::DUMMY_SP) {
                        match v {
                            ConstValue::Scalar(s) => self.scalar(s, t, &mut o),
                            ConstValue::Slice { .. } => {
                                if let Some(bytes) = v.try_get_slice_bytes_for_diagnostics(tcx) {
                                    o.push("bytes", J::Arr(bytes.iter().map(|b| J::Int(*b as i128)).collect()));
                                }
                            }
                            _ => {}
                        }
                    }
                }
            }
        }
        o
    }

    fn operand(&self, op: &Operand<'tcx>) -> J {
        match op {
            Operand::Copy(p) => J::obj(vec![("copy", self.place(p))]),
            Operand::Move(p) => J::obj(vec![("move", self.place(p))]),
            Operand::Constant(c) => J::obj(vec![("const", self.constant(&c.const_))]),
            #[allow(unreachable_patterns)]
            other => J::obj(vec![("other", J::s(format!("{:?}", other)))]),
        }
    }

    fn rvalue(&self, rv: &Rvalue<'tcx>) -> J {
        match rv {
            Rvalue::Use(op, ..) => J::obj(vec![("k", J::s("Use")), ("op", self.operand(op))]),
            Rvalue::Repeat(op, n) => J::obj(vec![
                ("k", J::s("Repeat")),
                ("op", self.operand(op)),
                ("n", match n.try_to_target_usize(self.cx.tcx) {
                    Some(x) => J::Int(x as i128),
                    None => J::s(format!("{:?}", n)),
                }),
            ]),
            Rvalue::Ref(_, bk, p) => J::obj(vec![
                ("k", J::s("Ref")),
                ("mut", J::Bool(matches!(bk, BorrowKind::Mut { .. }))),
                ("place", self.place(p)),
            ]),
            Rvalue::RawPtr(_, p) => J::obj(vec![("k", J::s("RawPtr")), ("place", self.place(p))]),
            Rvalue::Cast(kind, op, t) => J::obj(vec![
                ("k", J::s("Cast")),
                ("cast", J::s(format!("{:?}", kind))),
                ("op", self.operand(op)),
                ("ty", J::s(self.cx.ty_str(*t))),
            ]),
            Rvalue::BinaryOp(op, ab) => J::obj(vec![
                ("k", J::s("BinaryOp")),
                ("op", J::s(format!("{:?}", op))),
                ("a", self.operand(&ab.0)),
                ("b", self.operand(&ab.1)),
            ]),
            Rvalue::UnaryOp(op, a) => J::obj(vec![
                ("k", J::s("UnaryOp")),
                ("op", J::s(format!("{:?}", op))),
                ("a", self.operand(a)),
            ]),
            Rvalue::Discriminant(p) => J::obj(vec![("k", J::s("Discriminant")), ("place", self.place(p))]),
            Rvalue::Aggregate(kind, ops) => {
                let mut o = J::obj(vec![("k", J::s("Aggregate"))]);
                match &**kind {
                    AggregateKind::Array(t) => {
                        o.push("agg", J::s("Array"));
                        o.push("ty", J::s(self.cx.ty_str(*t)));
                    }
                    AggregateKind::Tuple => o.push("agg", J::s("Tuple")),
                    AggregateKind::Adt(did, vi, ..) => {
                        o.push("agg", J::s("Adt"));
                        o.push("adt", J::s(self.cx.path(*did)));
                        let adt = self.cx.tcx.adt_def(*did);
                        let v = adt.variant(*vi);
                        o.push("variant", J::s(v.name.to_string()));
                        o.push("vidx", J::Int(vi.as_u32() as i128));
                        o.push("fields", J::Arr(v.fields.iter().map(|f| J::s(f.name.to_string())).collect()));
                    }
                    AggregateKind::Closure(did, _) => {
                        o.push("agg", J::s("Closure"));
                        o.push("def", J::s(self.cx.path(*did)));
                    }
                    other => o.push("agg", J::s(format!("{:?}", other))),
                }
                o.push("ops", J::Arr(ops.iter().map(|x| self.operand(x)).collect()));
                o
            }
            Rvalue::CopyForDeref(p) => J::obj(vec![("k", J::s("Use")), ("op", J::obj(vec![("copy", self.place(p))]))]),
            other => J::obj(vec![("k", J::s("Other")), ("dbg", J::s(format!("{:?}", other)))]),
        }
    }

    fn terminator(&self, t: &Terminator<'tcx>) -> J {
        let bb = |b: BasicBlock| J::Int(b.as_u32() as i128);
        match &t.kind {
            TerminatorKind::Goto { target } => J::obj(vec![("k", J::s("Goto")), ("target", bb(*target))]),
            TerminatorKind::SwitchInt { discr, targets } => {
                let mut tv = vec![];
                for (v, b) in targets.iter() {
                    tv.push(J::Arr(vec![J::Int(v as i128), bb(b)]));
                }
                J::obj(vec![
                    ("k", J::s("SwitchInt")),
                    ("discr", self.operand(discr)),
                    ("discr_ty", J::s(self.cx.ty_str(discr.ty(self.body, self.cx.tcx)))),
                    ("targets", J::Arr(tv)),
                    ("otherwise", bb(targets.otherwise())),
                ])
            }
            TerminatorKind::Return => J::obj(vec![("k", J::s("Return"))]),
            TerminatorKind::Unreachable => J::obj(vec![("k", J::s("Unreachable"))]),
            TerminatorKind::UnwindResume => J::obj(vec![("k", J::s("Resume"))]),
            TerminatorKind::UnwindTerminate(_) => J::obj(vec![("k", J::s("Terminate"))]),
            TerminatorKind::Drop { place, target, unwind, .. } => {
                let mut o = J::obj(vec![("k", J::s("Drop")), ("place", self.place(place)), ("target", bb(*target))]);
                if let UnwindAction::Cleanup(b) = unwind {
                    o.push("unwind", bb(*b));
                }
                o
            }
            TerminatorKind::Call { func, args, destination, target, unwind, fn_span, call_source } => {
                let mut o = J::obj(vec![("k", J::s("Call"))]);
                match func {
                    Operand::Constant(c) => {
                        let fc = self.constant(&c.const_);
                        if let J::Obj(kv) = &fc {
                            for (k, v) in kv {
                                match k.as_str() {
                                    "fn" => o.push("callee", v.clone()),
                                    "fn_args" => o.push("callee_args", v.clone()),
                                    "resolved" => o.push("resolved", v.clone()),
                                    _ => {}
                                }
                            }
                        }
                    }
                    other => o.push("func", self.operand(other)),
                }
                o.push("func_ty", J::s(self.cx.ty_str(func.ty(self.body, self.cx.tcx))));
                o.push("args", J::Arr(args.iter().map(|a| self.operand(&a.node)).collect()));
                o.push("dest", self.place(destination));
                if let Some(t) = target {
                    o.push("target", bb(*t));
                }
                if let UnwindAction::Cleanup(b) = unwind {
                    o.push("unwind", bb(*b));
                }
                o.push("fn_span", self.cx.span(*fn_span));
                o.push("source", J::s(format!("{:?}", call_source)));
                o
            }
            TerminatorKind::Assert { cond, expected, msg, target, unwind } => {
                let mut o = J::obj(vec![
                    ("k", J::s("Assert")),
                    ("cond", self.operand(cond)),
                    ("expected", J::Bool(*expected)),
                    ("target", bb(*target)),
                ]);
                let (kind, ops): (String, Vec<J>) = match &**msg {
                    AssertKind::BoundsCheck { len, index } => {
                        ("BoundsCheck".into(), vec![self.operand(len), self.operand(index)])
                    }
                    AssertKind::Overflow(op, a, b) => {
                        (format!("Overflow({:?})", op), vec![self.operand(a), self.operand(b)])
                    }
                    AssertKind::OverflowNeg(a) => ("OverflowNeg".into(), vec![self.operand(a)]),
                    AssertKind::DivisionByZero(a) => ("DivisionByZero".into(), vec![self.operand(a)]),
                    AssertKind::RemainderByZero(a) => ("RemainderByZero".into(), vec![self.operand(a)]),
                    other => (format!("{:?}", other).chars().take(60).collect(), vec![]),
                };
                o.push("msg", J::s(kind));
                o.push("ops", J::Arr(ops));
                if let UnwindAction::Cleanup(b) = unwind {
                    o.push("unwind", bb(*b));
                }
                o
            }
            TerminatorKind::FalseEdge { real_target, .. } => {
                J::obj(vec![("k", J::s("Goto")), ("target", bb(*real_target))])
            }
            TerminatorKind::FalseUnwind { real_target, .. } => {
                J::obj(vec![("k", J::s("Goto")), ("target", bb(*real_target))])
            }
            other => J::obj(vec![("k", J::s("Other")), ("dbg", J::s(format!("{:?}", other)))]),
        }
    }
}

pub fn dump_const<'tcx>(cx: &Cx<'tcx>, ldid: LocalDefId) -> Option<J> {
    let tcx = cx.tcx;
    let did = ldid.to_def_id();
    // skip generic contexts (associated consts of generic impls/traits)
    if tcx.generics_of(did).requires_monomorphization(tcx) {
        return None;
    }
    let t = tcx.type_of(did).instantiate_identity().skip_norm_wip();
    let mut o = J::obj(vec![
        ("def", J::s(cx.path(did))),
        ("kind", J::s(format!("{:?}", tcx.def_kind(ldid)))),
        ("ty", J::s(cx.ty_str(t))),
        ("span", cx.span(tcx.def_span(ldid))),
    ]);
    let inst = ty::Instance::mono(tcx, did);
    let gid = GlobalId { instance: inst, promoted: None };
    let env = ty::TypingEnv::fully_monomorphized();
    match tcx.eval_to_valtree(env.as_query_input(gid)) {
        Ok(vt) => o.push("val", cx.valtree(vt, t)),
        Err(e) => o.push("novaltree", J::s(format!("{:?}", e).chars().take(120).collect::<String>())),
    }
    Some(o)
}

pub fn dump_adts<'tcx>(cx: &Cx<'tcx>) -> J {
    let tcx = cx.tcx;
    let mut v = vec![];
    for ldid in tcx.hir_crate_items(()).definitions() {
        let dk = tcx.def_kind(ldid);
        if !matches!(dk, DefKind::Enum | DefKind::Struct) {
            continue;
        }
        let adt = tcx.adt_def(ldid.to_def_id());
        let mut variants = vec![];
        if adt.is_enum() {
            for (vi, d) in adt.discriminants(tcx) {
                let var = adt.variant(vi);
                variants.push(J::obj(vec![
                    ("name", J::s(var.name.to_string())),
                    ("idx", J::Int(vi.as_u32() as i128)),
                    ("discr", J::Int(d.val as i128)),
                    ("fields", J::Arr(var.fields.iter().map(|f| J::s(f.name.to_string())).collect())),
                ]));
            }
        } else {
            let var = adt.non_enum_variant();
            let mut fields = vec![];
            for f in var.fields.iter() {
                let ft = tcx.type_of(f.did).instantiate_identity().skip_norm_wip();
                fields.push(J::obj(vec![("name", J::s(f.name.to_string())), ("ty", J::s(cx.ty_str(ft)))]));
            }
            variants.push(J::obj(vec![("name", J::s(var.name.to_string())), ("idx", J::Int(0)), ("fieldtys", J::Arr(fields))]));
        }
        v.push(J::obj(vec![
            ("def", J::s(cx.path(ldid.to_def_id()))),
            ("kind", J::s(format!("{:?}", dk))),
            ("variants", J::Arr(variants)),
            ("span", cx.span(tcx.def_span(ldid))),
        ]));
    }
    let _ = LOCAL_CRATE;
    J::Arr(v)
}
