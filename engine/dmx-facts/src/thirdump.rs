//! THIR -> JSON.  Patterns arrive evaluated (ranges, constants); expressions keep
//! resolved callees and named constants.
use crate::json::J;
use crate::Cx;
use rustc_ast::LitKind;
use rustc_hir::def_id::LocalDefId;
use rustc_middle::thir::*;
use rustc_middle::ty::{self, Ty};

pub fn dump_body<'tcx>(cx: &Cx<'tcx>, ldid: LocalDefId) -> Option<J> {
    let tcx = cx.tcx;
    let (steal, root) = tcx.thir_body(ldid).ok()?;
    let thir = steal.borrow();
    let d = D { cx, thir: &thir, owner: ldid };
    let mut params = vec![];
    for p in thir.params.iter() {
        let mut o = J::obj(vec![("ty", J::s(cx.ty_str(p.ty)))]);
        if let Some(pat) = &p.pat {
            o.push("pat", d.pat(pat));
        }
        params.push(o);
    }
    let body = d.expr(root);
    Some(J::obj(vec![
        ("def", J::s(cx.path(ldid.to_def_id()))),
        ("kind", J::s(format!("{:?}", tcx.def_kind(ldid)))),
        ("span", cx.span(tcx.def_span(ldid))),
        ("params", J::Arr(params)),
        ("body", body),
    ]))
}

struct D<'a, 'tcx> {
    cx: &'a Cx<'tcx>,
    thir: &'a Thir<'tcx>,
    owner: LocalDefId,
}

impl<'a, 'tcx> D<'a, 'tcx> {
    fn node(&self, k: &str, e: &Expr<'tcx>) -> J {
        J::obj(vec![
            ("k", J::s(k)),
            ("ty", J::s(self.cx.ty_str(e.ty))),
            ("span", self.cx.span(e.span)),
        ])
    }

    fn var_name(&self, id: LocalVarId) -> J {
        let name = self.cx.tcx.hir_name(id.0);
        J::s(format!("{}#{}", name, id.0.local_id.as_u32()))
    }

    fn callee(&self, fty: Ty<'tcx>, o: &mut J) {
        if let ty::FnDef(did, args) = fty.kind() {
            o.push("callee", J::s(self.cx.path(*did)));
            o.push("callee_args", J::s(ty::print::with_no_trimmed_paths!(format!("{:?}", args))));
            let tcx = self.cx.tcx;
            let env = ty::TypingEnv::post_analysis(tcx, self.owner.to_def_id());
            if let Ok(args) = tcx.try_normalize_erasing_regions(env, rustc_middle::ty::Unnormalized::new_wip(*args)) {
                if let Ok(Some(inst)) = ty::Instance::try_resolve(tcx, env, *did, args) {
                    o.push("resolved", J::s(self.cx.path(inst.def_id())));
                }
            }
        }
    }

    pub fn expr(&self, id: ExprId) -> J {
        let e = &self.thir[id];
        match &e.kind {
            ExprKind::Scope { value, .. } => self.expr(*value),
            ExprKind::Use { source }
            | ExprKind::NeverToAny { source }
            | ExprKind::PlaceTypeAscription { source, .. }
            | ExprKind::ValueTypeAscription { source, .. } => self.expr(*source),
            ExprKind::If { cond, then, else_opt, .. } => {
                let mut o = self.node("If", e);
                o.push("cond", self.expr(*cond));
                o.push("then", self.expr(*then));
                if let Some(x) = else_opt {
                    o.push("else", self.expr(*x));
                }
                o
            }
            ExprKind::Call { fun, args, from_hir_call, .. } => {
                let mut o = self.node("Call", e);
                let f = &self.thir[*fun];
                self.callee(f.ty, &mut o);
                if !matches!(f.ty.kind(), ty::FnDef(..)) {
                    o.push("fun", self.expr(*fun));
                }
                o.push("hir_call", J::Bool(*from_hir_call));
                o.push("args", J::Arr(args.iter().map(|a| self.expr(*a)).collect()));
                o
            }
            ExprKind::Deref { arg } => {
                let mut o = self.node("Deref", e);
                o.push("arg", self.expr(*arg));
                o
            }
            ExprKind::Binary { op, lhs, rhs } => {
                let mut o = self.node("Binary", e);
                o.push("op", J::s(format!("{:?}", op)));
                o.push("lhs", self.expr(*lhs));
                o.push("rhs", self.expr(*rhs));
                o
            }
            ExprKind::LogicalOp { op, lhs, rhs } => {
                let mut o = self.node("Logical", e);
                o.push("op", J::s(format!("{:?}", op)));
                o.push("lhs", self.expr(*lhs));
                o.push("rhs", self.expr(*rhs));
                o
            }
            ExprKind::Unary { op, arg } => {
                let mut o = self.node("Unary", e);
                o.push("op", J::s(format!("{:?}", op)));
                o.push("arg", self.expr(*arg));
                o
            }
            ExprKind::Cast { source } => {
                let mut o = self.node("Cast", e);
                o.push("arg", self.expr(*source));
                o
            }
            ExprKind::PointerCoercion { source, cast, .. } => {
                let mut o = self.node("Coerce", e);
                o.push("cast", J::s(format!("{:?}", cast)));
                o.push("arg", self.expr(*source));
                o
            }
            ExprKind::Loop { body } => {
                let mut o = self.node("Loop", e);
                o.push("body", self.expr(*body));
                o
            }
            ExprKind::Let { expr, pat } => {
                let mut o = self.node("Let", e);
                o.push("pat", self.pat(pat));
                o.push("expr", self.expr(*expr));
                o
            }
            ExprKind::Match { scrutinee, arms, match_source } => {
                let mut o = self.node("Match", e);
                o.push("source", J::s(format!("{:?}", match_source)));
                o.push("scrut", self.expr(*scrutinee));
                let mut av = vec![];
                for a in arms.iter() {
                    let arm = &self.thir[*a];
                    let mut ao = J::obj(vec![("pat", self.pat(&arm.pattern))]);
                    if let Some(g) = arm.guard {
                        ao.push("guard", self.expr(g));
                    }
                    ao.push("body", self.expr(arm.body));
                    ao.push("span", self.cx.span(arm.span));
                    av.push(ao);
                }
                o.push("arms", J::Arr(av));
                o
            }
            ExprKind::Block { block } => {
                let b = &self.thir[*block];
                let mut o = self.node("Block", e);
                let mut sv = vec![];
                for s in b.stmts.iter() {
                    let st = &self.thir[*s];
                    match &st.kind {
                        StmtKind::Expr { expr, .. } => {
                            sv.push(J::obj(vec![("k", J::s("Expr")), ("expr", self.expr(*expr))]));
                        }
                        StmtKind::Let { pattern, initializer, else_block, span, .. } => {
                            let mut so = J::obj(vec![
                                ("k", J::s("Let")),
                                ("pat", self.pat(pattern)),
                                ("span", self.cx.span(*span)),
                            ]);
                            if let Some(i) = initializer {
                                so.push("init", self.expr(*i));
                            }
                            if let Some(eb) = else_block {
                                let ebk = &self.thir[*eb];
                                let mut ev = vec![];
                                for s2 in ebk.stmts.iter() {
                                    if let StmtKind::Expr { expr, .. } = &self.thir[*s2].kind {
                                        ev.push(self.expr(*expr));
                                    }
                                }
                                if let Some(x) = ebk.expr {
                                    ev.push(self.expr(x));
                                }
                                so.push("else", J::Arr(ev));
                            }
                            sv.push(so);
                        }
                    }
                }
                o.push("stmts", J::Arr(sv));
                if let Some(x) = b.expr {
                    o.push("expr", self.expr(x));
                }
                o
            }
            ExprKind::Assign { lhs, rhs } => {
                let mut o = self.node("Assign", e);
                o.push("lhs", self.expr(*lhs));
                o.push("rhs", self.expr(*rhs));
                o
            }
            ExprKind::AssignOp { op, lhs, rhs } => {
                let mut o = self.node("AssignOp", e);
                o.push("op", J::s(format!("{:?}", op)));
                o.push("lhs", self.expr(*lhs));
                o.push("rhs", self.expr(*rhs));
                o
            }
            ExprKind::Field { lhs, variant_index, name } => {
                let mut o = self.node("Field", e);
                let lt = self.thir[*lhs].ty;
                let mut fname = format!("{}", name.as_u32());
                if let ty::Adt(adt, _) = lt.kind() {
                    let v = adt.variant(*variant_index);
                    if let Some(f) = v.fields.get(*name) {
                        fname = f.name.to_string();
                    }
                    o.push("adt", J::s(self.cx.path(adt.did())));
                }
                o.push("field", J::s(fname));
                o.push("idx", J::Int(name.as_u32() as i128));
                o.push("lhs", self.expr(*lhs));
                o
            }
            ExprKind::Index { lhs, index } => {
                let mut o = self.node("Index", e);
                o.push("lhs", self.expr(*lhs));
                o.push("index", self.expr(*index));
                o
            }
            ExprKind::VarRef { id } => {
                let mut o = self.node("Var", e);
                o.push("name", self.var_name(*id));
                o
            }
            ExprKind::UpvarRef { var_hir_id, .. } => {
                let mut o = self.node("Upvar", e);
                o.push("name", self.var_name(*var_hir_id));
                o
            }
            ExprKind::Borrow { borrow_kind, arg } => {
                let mut o = self.node("Borrow", e);
                o.push("mut", J::Bool(matches!(borrow_kind, rustc_middle::mir::BorrowKind::Mut { .. })));
                o.push("arg", self.expr(*arg));
                o
            }
            ExprKind::RawBorrow { arg, .. } => {
                let mut o = self.node("RawBorrow", e);
                o.push("arg", self.expr(*arg));
                o
            }
            ExprKind::Break { value, .. } => {
                let mut o = self.node("Break", e);
                if let Some(v) = value {
                    o.push("value", self.expr(*v));
                }
                o
            }
            ExprKind::Continue { .. } => self.node("Continue", e),
            ExprKind::Return { value } => {
                let mut o = self.node("Return", e);
                if let Some(v) = value {
                    o.push("value", self.expr(*v));
                }
                o
            }
            ExprKind::Repeat { value, count } => {
                let mut o = self.node("Repeat", e);
                o.push("value", self.expr(*value));
                o.push("count", J::s(format!("{:?}", count)));
                if let Some(n) = count.try_to_target_usize(self.cx.tcx) {
                    o.push("n", J::Int(n as i128));
                }
                o
            }
            ExprKind::Array { fields } => {
                let mut o = self.node("Array", e);
                o.push("fields", J::Arr(fields.iter().map(|a| self.expr(*a)).collect()));
                o
            }
            ExprKind::Tuple { fields } => {
                let mut o = self.node("Tuple", e);
                o.push("fields", J::Arr(fields.iter().map(|a| self.expr(*a)).collect()));
                o
            }
            ExprKind::Adt(adt) => {
                let mut o = self.node("Adt", e);
                let v = adt.adt_def.variant(adt.variant_index);
                o.push("adt", J::s(self.cx.path(adt.adt_def.did())));
                o.push("variant", J::s(v.name.to_string()));
                o.push("vidx", J::Int(adt.variant_index.as_u32() as i128));
                let mut fv = vec![];
                for f in adt.fields.iter() {
                    let fname = v.fields.get(f.name).map(|x| x.name.to_string()).unwrap_or_default();
                    fv.push(J::obj(vec![
                        ("field", J::s(fname)),
                        ("idx", J::Int(f.name.as_u32() as i128)),
                        ("expr", self.expr(f.expr)),
                    ]));
                }
                o.push("fields", J::Arr(fv));
                match &adt.base {
                    AdtExprBase::Base(b) => o.push("base", self.expr(b.base)),
                    _ => {}
                }
                o
            }
            ExprKind::Closure(c) => {
                let mut o = self.node("Closure", e);
                o.push("def", J::s(self.cx.path(c.closure_id.to_def_id())));
                o.push("upvars", J::Arr(c.upvars.iter().map(|a| self.expr(*a)).collect()));
                o
            }
            ExprKind::Literal { lit, neg } => {
                let mut o = self.node("Lit", e);
                match &lit.node {
                    LitKind::Int(n, _) => {
                        let v = n.get() as i128;
                        o.push("int", J::Int(if *neg { -v } else { v }));
                    }
                    LitKind::Byte(b) => o.push("int", J::Int(*b as i128)),
                    LitKind::Char(c) => o.push("int", J::Int(*c as u32 as i128)),
                    LitKind::Bool(b) => o.push("bool", J::Bool(*b)),
                    LitKind::Str(s, _) => o.push("str", J::s(s.as_str())),
                    LitKind::ByteStr(bs, _) => {
                        o.push("bytes", J::Arr(bs.as_byte_str().iter().map(|b| J::Int(*b as i128)).collect()))
                    }
                    other => o.push("other", J::s(format!("{:?}", other))),
                }
                o
            }
            ExprKind::NonHirLiteral { lit, .. } => {
                let mut o = self.node("Lit", e);
                o.push("int", J::Int(lit.to_uint(lit.size()) as i128));
                o
            }
            ExprKind::ZstLiteral { .. } => {
                let mut o = self.node("Zst", e);
                if let ty::FnDef(did, _) = e.ty.kind() {
                    o.push("fn", J::s(self.cx.path(*did)));
                    self.callee(e.ty, &mut o);
                }
                o
            }
            ExprKind::NamedConst { def_id, args, .. } => {
                let mut o = self.node("NamedConst", e);
                o.push("def", J::s(self.cx.path(*def_id)));
                // evaluate when possible
                let tcx = self.cx.tcx;
                let env = ty::TypingEnv::post_analysis(tcx, self.owner.to_def_id());
                if let Ok(Some(inst)) = ty::Instance::try_resolve(tcx, env, *def_id, args) {
                    let gid = rustc_middle::mir::interpret::GlobalId { instance: inst, promoted: None };
                    let env2 = ty::TypingEnv::fully_monomorphized();
                    if !inst.args.iter().any(|a| format!("{:?}", a).contains("/#")) {
                        if let Ok(vt) = tcx.eval_to_valtree(env2.as_query_input(gid)) {
                            o.push("val", self.cx.valtree(vt, e.ty));
                        }
                    }
                }
                o
            }
            ExprKind::StaticRef { def_id, .. } => {
                let mut o = self.node("StaticRef", e);
                o.push("def", J::s(self.cx.path(*def_id)));
                o
            }
            ExprKind::ConstBlock { did, .. } => {
                let mut o = self.node("ConstBlock", e);
                o.push("def", J::s(self.cx.path(*did)));
                o
            }
            other => {
                let mut o = self.node("Opaque", e);
                let s = format!("{:?}", other);
                o.push("dbg", J::s(s.chars().take(80).collect::<String>()));
                o.push("snippet", J::s(self.cx.snippet(e.span)));
                o
            }
        }
    }

    pub fn pat(&self, p: &Pat<'tcx>) -> J {
        let mut o = J::obj(vec![]);
        match &p.kind {
            PatKind::Wild => o.push("k", J::s("Wild")),
            PatKind::Missing => o.push("k", J::s("Missing")),
            PatKind::Never => o.push("k", J::s("Never")),
            PatKind::Binding { var, subpattern, mode, .. } => {
                o.push("k", J::s("Bind"));
                o.push("name", self.var_name(*var));
                o.push("mode", J::s(format!("{:?}", mode)));
                if let Some(s) = subpattern {
                    o.push("sub", self.pat(s));
                }
            }
            PatKind::Variant { adt_def, variant_index, subpatterns, .. } => {
                o.push("k", J::s("Variant"));
                let v = adt_def.variant(*variant_index);
                o.push("adt", J::s(self.cx.path(adt_def.did())));
                o.push("variant", J::s(v.name.to_string()));
                o.push("vidx", J::Int(variant_index.as_u32() as i128));
                o.push("fields", self.fieldpats(subpatterns));
            }
            PatKind::Leaf { subpatterns } => {
                o.push("k", J::s("Leaf"));
                o.push("fields", self.fieldpats(subpatterns));
            }
            PatKind::Deref { subpattern, .. } => {
                o.push("k", J::s("Deref"));
                o.push("sub", self.pat(subpattern));
            }
            PatKind::DerefPattern { subpattern, .. } => {
                o.push("k", J::s("Deref"));
                o.push("sub", self.pat(subpattern));
            }
            PatKind::Constant { value } => {
                o.push("k", J::s("Const"));
                o.push("val", self.cx.valtree(value.valtree, value.ty));
            }
            PatKind::Range(r) => {
                o.push("k", J::s("Range"));
                let b = |x: &PatRangeBoundary<'tcx>| match x {
                    PatRangeBoundary::Finite(vt) => self.cx.valtree(*vt, r.ty),
                    PatRangeBoundary::NegInfinity => J::s("-inf"),
                    PatRangeBoundary::PosInfinity => J::s("+inf"),
                };
                o.push("lo", b(&r.lo));
                o.push("hi", b(&r.hi));
                o.push("incl", J::Bool(matches!(r.end, rustc_hir::RangeEnd::Included)));
            }
            PatKind::Slice { prefix, slice, suffix } | PatKind::Array { prefix, slice, suffix } => {
                o.push("k", J::s("Slice"));
                o.push("prefix", J::Arr(prefix.iter().map(|x| self.pat(x)).collect()));
                if let Some(s) = slice {
                    o.push("slice", self.pat(s));
                }
                o.push("suffix", J::Arr(suffix.iter().map(|x| self.pat(x)).collect()));
            }
            PatKind::Or { pats } => {
                o.push("k", J::s("Or"));
                o.push("pats", J::Arr(pats.iter().map(|x| self.pat(x)).collect()));
            }
            PatKind::Guard { subpattern, condition } => {
                o.push("k", J::s("Guard"));
                o.push("sub", self.pat(subpattern));
                o.push("cond", self.expr(*condition));
            }
            PatKind::Error(_) => o.push("k", J::s("Error")),
        }
        o.push("ty", J::s(self.cx.ty_str(p.ty)));
        o
    }

    fn fieldpats(&self, fps: &[FieldPat<'tcx>]) -> J {
        J::Arr(
            fps.iter()
                .map(|fp| J::obj(vec![("f", J::Int(fp.field.as_u32() as i128)), ("pat", self.pat(&fp.pattern))]))
                .collect(),
        )
    }
}
