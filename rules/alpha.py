"""Alpha-normalisation of the anchor functions: parameters (by position) and a few locals (by the shape of their
initialiser) get canonical names before any rule looks at the facts, so that renaming a parameter or a local is
invisible to the rules.  A local whose role cannot be recognised keeps its name (the rule that needs it then reports
"cannot decide", as before)."""
from . import thirlib as T


def _calls(e, suffix):
    return [x for x in T.sx_walk(e) if isinstance(x, tuple) and x and x[0] == "call" and x[1].endswith(suffix)]


def _is_var(x, n):
    return isinstance(x, tuple) and x[:2] == ("var", n)


def _mentions(e, n):
    return any(_is_var(x, n) for x in T.sx_walk(e))


def _self_field(x, f):
    return isinstance(x, tuple) and x[0] == "field" and x[2] == f and _is_var(x[1], "self")


def _lit(x, v):
    return x == ("lit", v)


def _mut(st):
    return T.is_mut_binding(st["pat"])


ALPHA = {
    "errorcode::decoding::syndrome_based::decode_gen": {
        "params": ["data", "error", "stride", "err_len", "inv_error_locs", "find_err_vals"],
        "locals": [
            ("syndromes", lambda e, st: _mut(st) and e[0] == "call" and e[1].endswith("vec::from_elem") and _is_var(e[2][1], "err_len")),
            ("codeword", lambda e, st: bool(_calls(e, "::nth")) and bool(_calls(e, "iter_mut"))),
        ]},
    "errorcode::decoding::syndrome_based::decode": {"params": ["codewords", "size"]},
    "errorcode::encode_error": {"params": ["data", "size"]},
    "errorcode::decoding::primitive_element_evaluation": {"params": ["c", "out"]},
    "encodation::GenericDataEncoder::add_padding": {
        "params": ["self", "size"],
        "locals": [
            ("size_left", lambda e, st: _mut(st) and e[0] == "bin" and e[1] == "Sub" and bool(_calls(e[2], "SymbolSize::num_data_codewords")) and bool(_calls(e[3], "::len"))),
        ]},
    "<encodation::GenericDataEncoder as encodation::EncodingContext>::maybe_switch_mode": {
        "params": ["self"],
        "locals": [
            ("chars_left", lambda e, st: e[0] == "call" and e[1].endswith("characters_left")),
        ]},
    "decodation::decode_base256": {"params": ["data", "out"], "post": lambda b: _range_end_role(b, "length")},
    "encodation::planner::shortest_path::remove_hopeless_cases": {
        "params": ["list"],
        "locals": [
            ("seen", lambda e, st: _mut(st) and e[0] == "repeat" and e[1] == ("lit", False)),
            ("pl", lambda e, st: e[0] == "call" and e[1].endswith("::index") and len(e[2]) == 2 and _is_var(e[2][0], "list") and e[2][1][0] == "bin" and e[2][1][1] == "Sub"),
        ]},
    "encodation::planner::shortest_path::optimize": {"params": ["data", "written", "mode", "symbol_list", "enabled_modes"]},
    "placement::IndexTraversal::run": {
        "params": ["self", "visit_fn"],
        "locals": [
            ("nrow", lambda e, st: e[0] == "cast" and _self_field(e[1], "height")),
            ("ncol", lambda e, st: e[0] == "cast" and _self_field(e[1], "width")),
            ("visited", lambda e, st: _mut(st) and e[0] == "call" and e[1].endswith("vec::from_elem") and _lit(e[2][0], False)),
            ("i", lambda e, st: _mut(st) and _lit(e, 4)),
            ("codeword_idx", lambda e, st: _mut(st) and _lit(e, 0) and st["pat"].get("ty") == "usize"),
            ("j", lambda e, st: _mut(st) and _lit(e, 0) and st["pat"].get("ty") == "isize"),
        ]},
    "encodation::base256::write_length": {
        "params": ["ctx", "start"],
        "locals": [
            ("data_written", lambda e, st: _mut(st) and e[0] == "bin" and e[1] == "Sub" and bool(_calls(e[2], "::len")) and _is_var(e[3], "start")),
            ("data_count", lambda e, st: e == ("bin", "Sub", e[2], ("lit", 1)) and _is_var(e[2], "data_written")),
        ]},
    "placement::MatrixMap::bitmap": {
        "params": ["self"],
        "locals": [
            ("h", lambda e, st: e[0] == "bin" and e[1] == "Add" and any(_self_field(x, "height") for x in T.sx_walk(e)) and any(_self_field(x, "extra_horizontal_alignments") for x in T.sx_walk(e))),
            ("w", lambda e, st: e[0] == "bin" and e[1] == "Add" and any(_self_field(x, "width") for x in T.sx_walk(e)) and any(_self_field(x, "extra_vertical_alignments") for x in T.sx_walk(e))),
            ("blk_h", lambda e, st: e[0] == "bin" and e[1] == "Div" and _mentions(e[2], "h")),
            ("blk_w", lambda e, st: e[0] == "bin" and e[1] == "Div" and _mentions(e[2], "w")),
        ]},
    "placement::MatrixMap::try_from_bits": {"params": ["bits", "width"]},
    "DataMatrix::decode": {"params": ["pixels", "width"]},
    "DataMatrixBuilder::encode_eci": {"params": ["self", "data", "eci"]},
    "data::encode_data_internal": {"params": ["data", "symbol_list", "eci", "enabled_modes", "use_macros", "fnc1_start"]},
    "encodation::planner::generic::GenericPlan::add_switches": {"params": ["self", "list", "rest_len", "as_start", "enabled_modes"]},
    "symbol_size::SymbolList::first_symbol_big_enough_for": {"params": ["self", "size_needed"]},
}


def _range_end_role(b, role):
    """the local that bounds the one `for _ in 0..X` loop of the body gets the name `role`"""
    hits = []
    for m in T.exprs(b["body"], "Match"):
        fl = T.for_loop_parts(m)
        if fl:
            it = T.strip(fl[0])
            if it.get("k") == "Adt" and str(it.get("adt", "")).endswith("ops::Range"):
                d = {f["field"]: T.strip(f["expr"]) for f in it["fields"]}
                if d.get("start", {}).get("k") == "Lit" and d["start"].get("int") == 0 and d.get("end", {}).get("k") in ("Var", "Upvar"):
                    hits.append(d["end"]["name"])
    if len(set(hits)) == 1 and hits[0].split("#")[0] != role:
        return {hits[0]: role + "#" + hits[0].split("#")[1]}
    return {}


def _lets(node):
    """Let statements of a body in source order (pre-order)"""
    if isinstance(node, dict):
        if node.get("k") == "Block":
            for st in node.get("stmts", []):
                if st.get("k") == "Let":
                    yield st
                for v in st.values():
                    yield from _lets(v)
            if "expr" in node:
                yield from _lets(node["expr"])
            return
        for v in node.values():
            yield from _lets(v)
    elif isinstance(node, list):
        for v in node:
            yield from _lets(v)


def _rename(node, mapping):
    if isinstance(node, dict):
        if node.get("k") in ("Var", "Upvar", "Bind") and node.get("name") in mapping:
            node["name"] = mapping[node["name"]]
        for v in node.values():
            _rename(v, mapping)
    elif isinstance(node, list):
        for v in node:
            _rename(v, mapping)


def _calls_all(b, suffixes):
    names = {T.canon(T.callee_of(c)).split("::")[-1] for c in T.calls(b["body"])}
    return all(x in names for x in suffixes)


# a reviewed private helper that was merely renamed is found again by its role: (module prefix, method names it must call)
ROLE_ALIASES = {
    "encodation::base256::write_length": ("encodation::base256::", ("replace", "insert", "symbol_size_left")),
    "encodation::c40::handle_end": ("encodation::c40::", ("backup", "set_ascii_until_end", "symbol_size_left")),
    "encodation::edifact::handle_end": ("encodation::edifact::", ("backup", "set_ascii_until_end", "symbol_size_left")),
}


def resolve_aliases(facts):
    found = {}
    for want, (prefix, must) in ROLE_ALIASES.items():
        if any(T.canon(n) == want for n in facts.thir):
            continue
        cands = [n for n, b in facts.thir.items() if T.canon(n).startswith(prefix) and "{closure" not in n and _calls_all(b, must)]
        if len(cands) == 1:
            facts.thir[want] = facts.thir[cands[0]]
            if cands[0] in facts.mir:
                facts.mir[want] = facts.mir[cands[0]]
            found[want] = cands[0]
    return found


def canonicalise(facts):
    facts.aliases = resolve_aliases(facts)
    by_canon = {}
    for name in facts.thir:
        by_canon.setdefault(T.canon(name), []).append(name)
    renamed = {}
    for cname, spec in ALPHA.items():
        for name in by_canon.get(cname, []):
            b = facts.thir[name]
            mapping = {}
            # positional names only when the signature still has the reviewed number of parameters (an inserted parameter
            # would shift every name); otherwise the source names are kept
            pspec = spec.get("params", []) if len(spec.get("params", [])) == len(b["params"]) else []
            for p, want in zip(b["params"], pspec):
                pat = p.get("pat") or {}
                if want and pat.get("k") == "Bind" and "#" in pat.get("name", ""):
                    old = pat["name"]
                    if old.split("#")[0] != want:
                        mapping[old] = want + "#" + old.split("#")[1]
            if mapping:
                _rename(b, mapping)
            done = set()
            for role, pred in spec.get("locals", []):
                for st in _lets(b["body"]):
                    pat = st.get("pat") or {}
                    if pat.get("k") != "Bind" or "sub" in pat or "init" not in st or "#" not in pat.get("name", ""):
                        continue
                    if pat["name"] in done:
                        continue
                    try:
                        e = T.sx(st["init"], {})
                        hit = pred(e, st)
                    except (IndexError, KeyError, TypeError):
                        hit = False
                    if hit:
                        old = pat["name"]
                        done.add(old)
                        if old.split("#")[0] != role:
                            m2 = {old: role + "#" + old.split("#")[1]}
                            mapping.update(m2)
                            _rename(b, m2)
                            done.add(m2[old])
                        break
            if spec.get("post"):
                m3 = spec["post"](b)
                if m3:
                    mapping.update(m3)
                    _rename(b, m3)
            if mapping:
                # closures of the function see the same variables as upvars
                for n2, b2 in facts.thir.items():
                    if n2.startswith(name + "::{closure"):
                        _rename(b2, mapping)
                short = {k.split("#")[0]: v.split("#")[0] for k, v in mapping.items()}
                for n2, m in facts.mir.items():
                    if n2 == name or n2.startswith(name + "::{closure"):
                        for d in m.get("debug", []):
                            if d.get("name") in short:
                                d["name"] = short[d["name"]]
                renamed[name] = short
    return renamed
