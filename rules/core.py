"""Obligations, contexts and the check runner shared by all property rule sets."""
import json
import os
import sys
import time

from . import facts as factsmod

VERIF = factsmod.VERIF
OUT = os.environ.get("DMX_OUT_DIR", VERIF)  # evidence/reports root (overridden when trying patches on scratch copies)


class AnchorMissing(Exception):
    def __init__(self, rule, anchor, why=""):
        super().__init__("%s: anchor %s missing %s" % (rule, anchor, why))
        self.rule = rule
        self.anchor = anchor
        self.why = why


class Ob:
    """one obligation (rule instance) and its verdict"""
    __slots__ = ("rule", "key", "ok", "what", "site", "detail", "undecided", "info")

    def __init__(self, rule, key, ok, what, site=None, detail=None, undecided=False, info=False):
        self.rule = rule
        self.key = "%s:%s" % (rule, key)
        self.ok = bool(ok)
        self.what = what
        self.site = site
        self.detail = detail
        self.undecided = undecided  # listed, not decided, never a violation
        self.info = info            # informational line only

    def as_json(self):
        d = {"rule": self.rule, "key": self.key, "ok": self.ok, "what": self.what}
        if self.site:
            d["site"] = self.site
        if self.detail is not None:
            d["detail"] = self.detail
        if self.undecided:
            d["undecided"] = True
        return d


class Ctx:
    def __init__(self, tier="quick", repo=None, seed=0):
        self.tier = tier
        self.repo = repo or factsmod.REPO
        self.seed = seed
        self._facts = {}
        self.notes = []

    def facts(self, config="debug"):
        if config not in self._facts:
            self._facts[config] = factsmod.load(self.repo, config)
        return self._facts[config]

    def note(self, s):
        self.notes.append(s)

    def memo(self, name, fn):
        """verdict of an expensive whole-function fold, kept beside the fact file of this very tree (the directory is keyed by the
        tree's content hash) and keyed by the content of rules/*.py: several properties share such a verdict, each check is its own
        process.  fn() must return JSON-serialisable data (a tuple comes back as a tuple)."""
        if not hasattr(self, "_memo"):
            self._memo = {}
        if name in self._memo:
            return self._memo[name]
        import hashlib
        h = hashlib.sha256()
        rd = os.path.dirname(os.path.abspath(__file__))
        for fn_ in sorted(os.listdir(rd)):
            if fn_.endswith(".py"):
                with open(os.path.join(rd, fn_), "rb") as fh:
                    h.update(fn_.encode() + b"\0" + fh.read())
        path = os.path.join(os.path.dirname(self.facts().path), "memo-%s-%s.json" % (name, h.hexdigest()[:16]))
        res = None
        if os.path.exists(path):
            try:
                with open(path) as fh:
                    res = json.load(fh)
            except (OSError, ValueError):
                res = None
        if res is None:
            res = fn()
            try:
                with open(path + ".%d.tmp" % os.getpid(), "w") as fh:
                    json.dump(res, fh)
                os.replace(path + ".%d.tmp" % os.getpid(), path)
            except OSError:
                pass
        if isinstance(res, list):
            res = tuple(res)
        self._memo[name] = res
        return res


def need(cond, rule, anchor, why=""):
    if not cond:
        raise AnchorMissing(rule, anchor, why)


def floor(obs, rule, n, what):
    """a rule that matches fewer instances than were confirmed by hand must not pass vacuously"""
    cnt = sum(1 for o in obs if o.rule == rule and not o.info)
    if cnt < n:
        return [Ob(rule, "floor", False, "%s: found %d instances, floor is %d (cannot decide)" % (what, cnt, n))]
    return []


def load_known():
    p = os.path.join(VERIF, "known_findings.jsonl")
    known = {}
    if os.path.exists(p):
        for line in open(p):
            line = line.strip()
            if not line or line.startswith("#"):
                continue
            d = json.loads(line)
            if d.get("status") == "known":
                known[(d["property"], d["key"])] = d
    return known


def run_rules(pid, ruleset, ctx):
    obs = []
    for rule_fn in ruleset:
        try:
            res = rule_fn(ctx)
            obs.extend(res)
        except AnchorMissing as e:
            obs.append(Ob(e.rule, "anchor-missing:" + e.anchor, False,
                          "cannot decide: anchor `%s` not found %s" % (e.anchor, e.why)))
        except factsmod.MissingBody as e:
            # a function the rule is anchored in no longer exists under that name: cannot decide (fail closed), not a crash
            name = getattr(rule_fn, "__name__", "rule")
            obs.append(Ob(name.upper().replace("_", "-"), "anchor-missing:" + str(e.args[0]), False,
                          "cannot decide: function `%s` not found" % (e.args[0],)))
    return obs


def finish(pid, spec, obs, ctx, t0):
    """write evidence + reports, print verdict lines, return exit code"""
    known = load_known()
    real = [o for o in obs if not o.info]
    viol = [o for o in real if not o.ok and not o.undecided]
    undec = [o for o in real if o.undecided]
    new_viol = []
    for o in viol:
        k = known.get((pid, o.key))
        if k:
            print("KNOWN-FINDING: property=%s %s (%s)" % (pid, k.get("what", o.what), o.key))
        else:
            new_viol.append(o)
    rep_dir = os.path.join(OUT, "reports", pid)
    os.makedirs(rep_dir, exist_ok=True)
    for f in os.listdir(rep_dir):
        try:
            os.unlink(os.path.join(rep_dir, f))
        except OSError:
            pass
    for i, o in enumerate(new_viol):
        rp = os.path.join(rep_dir, "%d.json" % i)
        with open(rp, "w") as fh:
            json.dump({"property": pid, **o.as_json()}, fh, indent=1)
        print("VIOLATION property=%s replay=%s" % (pid, rp))
        print("  rule=%s key=%s site=%s\n  %s" % (o.rule, o.key, o.site or "-", o.what))
        if o.detail is not None:
            ds = o.detail if isinstance(o.detail, str) else json.dumps(o.detail)
            print("  detail: " + ds[:600])

    level = spec["level"]
    distinct = len({o.key for o in real})
    by_rule = {}
    for o in real:
        by_rule.setdefault(o.rule, [0, 0, 0])
        by_rule[o.rule][0] += 1
        by_rule[o.rule][1] += 1 if o.ok else 0
        by_rule[o.rule][2] += 1 if o.undecided else 0
    samples = []
    per = {}
    for o in real:
        per[o.rule] = per.get(o.rule, 0) + 1
        if per[o.rule] <= 4 or not o.ok:
            samples.append(o.as_json())
        if len(samples) >= 60:
            break
    cov = {
        "evaluations": len(real),
        "distinct_nontrivial": distinct,
        "rule": "one evaluation = one rule instance (obligation) extracted from /repo's typed syntax tree / MIR / "
                "evaluated constants and decided by the named rule; distinct = distinct (rule, instance key) pairs; "
                "anchor and floor checks make a rule that matches nothing fail instead of passing vacuously",
        "samples": samples,
        "per_rule": {r: {"instances": v[0], "held": v[1], "undecided": v[2]} for r, v in sorted(by_rule.items())},
        "undecided": [o.as_json() for o in undec][:200],
        "info": [o.what for o in obs if o.info][:50] + ctx.notes,
        "analysed": {
            "fact_file": os.path.relpath(ctx.facts().path, VERIF) if ctx._facts else None,
            "bodies": len(ctx.facts().mir) if ctx._facts else 0,
            "configs": sorted(ctx._facts.keys()),
            "source_tree": ctx.repo,
        },
        "explanation": spec["explanation"],
    }
    if level == "proof":
        cov["obligations"] = len([o for o in real if not o.undecided])
        cov["discharged"] = len([o for o in real if o.ok and not o.undecided])
        cov["checker_cmd"] = "./check %s %s" % (pid, ctx.tier)
        cov["trusted_base"] = spec.get("trusted_base", [])
        cov["exhaustive"] = True
    ev = {
        "property_id": pid,
        "tier": ctx.tier,
        "seed": ctx.seed,
        "level": level,
        "coverage": cov,
        "assumptions": spec.get("assumptions", []),
        "wall_s": round(time.time() - t0, 3),
        "violations": len(new_viol),
    }
    os.makedirs(os.path.join(OUT, "evidence"), exist_ok=True)
    with open(os.path.join(OUT, "evidence", pid + ".json"), "w") as fh:
        json.dump(ev, fh, indent=1)
    print("%s %s: %d obligations, %d held, %d undecided, %d violations (%d known) in %.1fs" % (
        pid, ctx.tier, len(real), sum(1 for o in real if o.ok), len(undec), len(viol), len(viol) - len(new_viol),
        time.time() - t0))
    return 1 if new_viol else 0
