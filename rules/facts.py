"""Engine A front end: run the dmx-facts rustc driver over a source tree and cache the fact file.

The cache key is a hash over the analysed sources, the manifest, the lock file, the driver
binary and the flags, so an edited tree is always re-analysed.  The driver runs under
`cargo +nightly check --lib` with a fresh target directory (cargo's freshness cache would
otherwise skip the wrapper), which is removed afterwards.
"""
import fcntl
import hashlib
import json
import os
import shutil
import subprocess
import tempfile
import time

VERIF = os.path.dirname(os.path.dirname(os.path.abspath(__file__)))
DRIVER_DIR = os.path.join(VERIF, "engine", "dmx-facts")
DRIVER = os.path.join(DRIVER_DIR, "target", "release", "dmx-facts")
CACHE = os.environ.get("DMX_CACHE") or os.path.join(VERIF, ".cache")
REPO = os.environ.get("DMX_REPO", "/repo")

_env_base = dict(os.environ)
_env_base["CARGO_NET_OFFLINE"] = "true"


def nightly_sysroot():
    return subprocess.check_output(["rustc", "+nightly", "--print", "sysroot"], text=True).strip()


def ensure_driver():
    srcs = [os.path.join(DRIVER_DIR, "src", f) for f in sorted(os.listdir(os.path.join(DRIVER_DIR, "src")))]
    newest = max(os.path.getmtime(p) for p in srcs + [os.path.join(DRIVER_DIR, "Cargo.toml")])
    if os.path.exists(DRIVER) and os.path.getmtime(DRIVER) >= newest:
        return
    r = subprocess.run(["cargo", "build", "--release", "--offline"], cwd=DRIVER_DIR, env=_env_base,
                       stdout=subprocess.PIPE, stderr=subprocess.STDOUT, text=True)
    if r.returncode != 0 or not os.path.exists(DRIVER):
        raise RuntimeError("cannot build dmx-facts driver:\n" + r.stdout[-4000:])


def tree_files(repo):
    out = []
    for root, _dirs, files in os.walk(os.path.join(repo, "src")):
        for f in files:
            if f.endswith(".rs"):
                out.append(os.path.join(root, f))
    for f in ("Cargo.toml", "Cargo.lock"):
        p = os.path.join(repo, f)
        if os.path.exists(p):
            out.append(p)
    return sorted(out)


def tree_hash(repo, extra=""):
    h = hashlib.sha256()
    for p in tree_files(repo):
        h.update(os.path.relpath(p, repo).encode())
        h.update(b"\0")
        with open(p, "rb") as fh:
            h.update(fh.read())
        h.update(b"\0")
    h.update(extra.encode())
    return h.hexdigest()[:24]


def driver_hash():
    h = hashlib.sha256()
    with open(DRIVER, "rb") as fh:
        h.update(fh.read())
    return h.hexdigest()[:12]


CONFIGS = {
    # as the dev profile builds it: overflow checks and debug assertions on
    "debug": "-Zmir-opt-level=0 -Awarnings -C overflow-checks=on -C debug-assertions=on",
    # release configuration: cfg!(debug_assertions) blocks vanish, no overflow asserts
    "release": "-Zmir-opt-level=0 -Awarnings -C overflow-checks=off -C debug-assertions=off",
}


def run_driver(repo, out_path, config="debug"):
    ensure_driver()
    tmp = tempfile.mkdtemp(prefix="dmxfacts-")
    try:
        env = dict(_env_base)
        env["LD_LIBRARY_PATH"] = os.path.join(nightly_sysroot(), "lib") + ":" + env.get("LD_LIBRARY_PATH", "")
        env["RUSTFLAGS"] = CONFIGS[config]
        env["RUSTC_WORKSPACE_WRAPPER"] = DRIVER
        env["DMX_FACTS_OUT"] = os.path.join(tmp, "facts.json")
        env["CARGO_TARGET_DIR"] = os.path.join(tmp, "target")
        env.pop("RUSTC_WRAPPER", None)
        r = subprocess.run(["cargo", "+nightly", "check", "--offline", "--lib", "--quiet"], cwd=repo, env=env,
                           stdout=subprocess.PIPE, stderr=subprocess.STDOUT, text=True)
        if r.returncode != 0 or not os.path.exists(env["DMX_FACTS_OUT"]):
            raise RuntimeError("dmx-facts run failed (rc=%d):\n%s" % (r.returncode, r.stdout[-6000:]))
        os.makedirs(os.path.dirname(out_path), exist_ok=True)
        shutil.move(env["DMX_FACTS_OUT"], out_path + ".tmp")
        os.replace(out_path + ".tmp", out_path)
    finally:
        shutil.rmtree(tmp, ignore_errors=True)


def facts_path(repo=REPO, config="debug"):
    """Return path of the fact file for the current content of `repo` (running the driver if needed)."""
    ensure_driver()
    key = tree_hash(repo, extra=driver_hash() + CONFIGS[config])
    d = os.path.join(CACHE, key)
    p = os.path.join(d, "facts-%s.json" % config)
    if os.path.exists(p):
        return p
    os.makedirs(d, exist_ok=True)
    with open(os.path.join(d, ".lock"), "w") as lk:
        fcntl.flock(lk, fcntl.LOCK_EX)
        if not os.path.exists(p):
            run_driver(repo, p, config)
    _gc_cache(keep=key)
    return p


def _gc_cache(keep, max_entries=int(os.environ.get("DMX_CACHE_MAX", "12"))):
    try:
        ents = [(os.path.getmtime(os.path.join(CACHE, e)), e) for e in os.listdir(CACHE)]
        ents.sort(reverse=True)
        for _t, e in ents[max_entries:]:
            if e != keep:
                shutil.rmtree(os.path.join(CACHE, e), ignore_errors=True)
    except OSError:
        pass


_loaded = {}


def load(repo=REPO, config="debug"):
    p = facts_path(repo, config)
    if p not in _loaded:
        with open(p) as fh:
            _loaded[p] = Facts(json.load(fh), p, repo, config)
    return _loaded[p]


class MissingBody(KeyError):
    """a rule looked up a function body that the tree does not have (renamed / merged / removed)"""


class BodyDict(dict):
    def __missing__(self, key):
        raise MissingBody(key)


class Facts:
    def __init__(self, raw, path, repo, config):
        self.raw = raw
        self.path = path
        self.repo = repo
        self.config = config
        self.thir = BodyDict((b["def"], b) for b in raw["thir"])
        self.mir = BodyDict((b["def"], b) for b in raw["mir"])
        self.consts = {c["def"]: c for c in raw["consts"]}
        self.adts = {a["def"]: a for a in raw["adts"]}
        from . import thirlib
        thirlib.register_adts(self.adts)
        thirlib.BODIES = self.thir
        from . import alpha
        self.renamed = alpha.canonicalise(self)

    def const(self, name):
        c = self.consts.get(name)
        if c is None or "val" not in c:
            return None
        return c["val"]

    def enum_variants(self, name):
        a = self.adts.get(name)
        if not a:
            return None
        return [v["name"] for v in a["variants"]]
