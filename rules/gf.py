"""Independent GF(2^8) arithmetic modulo x^8+x^5+x^3+x^2+1 (0x12D): bit-level carry-less
multiplication, no log tables.  Used as the reference for TAB-GF / TAB-GEN."""

POLY = 0x12D


def mul(a, b):
    r = 0
    while b:
        if b & 1:
            r ^= a
        a <<= 1
        if a & 0x100:
            a ^= POLY
        b >>= 1
    return r


def pow2(e):
    r = 1
    for _ in range(e):
        r = mul(r, 2)
    return r


def generator(k):
    """coefficients, highest degree first, of prod_{i=1..k} (x - 2^i)"""
    p = [1]
    for i in range(1, k + 1):
        a = pow2(i)
        q = [0] * (len(p) + 1)
        for j, c in enumerate(p):
            q[j] ^= c
            q[j + 1] ^= mul(c, a)
        p = q
    return p


def inv(a):
    assert a != 0
    for x in range(1, 256):
        if mul(a, x) == 1:
            return x
    raise ValueError
