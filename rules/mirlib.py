"""Generic analyses over the MIR facts: CFG reachability with removed edges/blocks
(dominance and must-pass-through queries), natural loops, definitions, and symbolic
reconstruction of operand expressions through single-definition temporaries."""
from collections import defaultdict


def fmt_span(sp):
    if not sp:
        return "?"
    if sp.get("exp") and sp.get("cfile"):
        return "%s:%d:%d" % (sp["cfile"], sp["cline"], sp["ccol"])
    return "%s:%d:%d" % (sp["file"], sp["line"], sp["col"])


class Body:
    def __init__(self, raw):
        self.raw = raw
        self.name = raw["def"]
        self.blocks = raw["blocks"]
        self.n = len(self.blocks)
        self.argc = raw["argc"]
        self.locals = raw["locals"]
        self.names = {}
        for d in raw["debug"]:
            pl = d.get("place")
            if pl and not pl["p"]:
                self.names.setdefault(pl["l"], d["name"])
        self._defs = None
        self._preds = None
        self.inline_named = False  # expand single-definition user variables too

    # ---- CFG -----------------------------------------------------------------
    def term(self, bb):
        return self.blocks[bb]["term"]

    def succ(self, bb, unwind=False):
        t = self.blocks[bb]["term"]
        k = t["k"]
        out = []
        if k == "Goto":
            out = [t["target"]]
        elif k == "SwitchInt":
            out = [b for _v, b in t["targets"]] + [t["otherwise"]]
        elif k in ("Drop", "Assert"):
            out = [t["target"]]
        elif k == "Call":
            if "target" in t:
                out = [t["target"]]
        if unwind and "unwind" in t:
            out = out + [t["unwind"]]
        return out

    def edges(self, bb, unwind=False):
        return [(bb, s) for s in self.succ(bb, unwind)]

    def preds(self):
        if self._preds is None:
            p = defaultdict(list)
            for b in range(self.n):
                for s in self.succ(b):
                    p[s].append(b)
            self._preds = p
        return self._preds

    def reachable(self, start=0, removed_blocks=(), removed_edges=(), unwind=False):
        removed_blocks = set(removed_blocks)
        removed_edges = set(removed_edges)
        if start in removed_blocks:
            return set()
        seen = {start}
        stack = [start]
        while stack:
            b = stack.pop()
            for s in self.succ(b, unwind):
                if s in seen or s in removed_blocks or (b, s) in removed_edges:
                    continue
                seen.add(s)
                stack.append(s)
        return seen

    def return_blocks(self):
        return [b for b in range(self.n) if self.term(b)["k"] == "Return"]

    def dominated_by_edge(self, target, edge):
        """every path entry -> target crosses `edge`"""
        return target not in self.reachable(0, removed_edges=[edge])

    def dominated_by_block(self, target, blk):
        if target == blk:
            return True
        return target not in self.reachable(0, removed_blocks=[blk])

    def conditions_at(self, target):
        """[(condition expression, truth value)] of every boolean branch one of whose edges dominates block `target`:
        what is known to hold whenever `target` runs (short-circuit && / || are separate branches in MIR)"""
        out = []
        for bb in range(self.n):
            t = self.term(bb)
            if t["k"] != "SwitchInt":
                continue
            tg = dict((v, b) for v, b in t["targets"])
            if set(tg) != {0}:
                continue
            cond = self.deep(self.expr_of_operand, t["discr"])
            val_true, val_false = True, False
            while isinstance(cond, tuple) and cond[0] == "un" and cond[1] == "Not":
                cond = cond[2]
                val_true, val_false = val_false, val_true
            if t["otherwise"] != tg[0]:
                if self.dominated_by_edge(target, (bb, t["otherwise"])):
                    out.append((cond, val_true))
                elif self.dominated_by_edge(target, (bb, tg[0])):
                    out.append((cond, val_false))
        return out

    def must_pass_blocks(self, start, targets, through):
        """every path start -> any of `targets` passes a block in `through` (start itself excluded)"""
        r = self.reachable(start, removed_blocks=set(through) - {start})
        return not (set(targets) & r)

    def loops(self):
        """natural loops: list of (header, set(body blocks), [back edge sources])"""
        # dominators via iterative reachability (bodies are small)
        live = self.reachable(0)
        dom = {}
        for b in live:
            dom[b] = live - self.reachable(0, removed_blocks=[b]) | {b} if b != 0 else {0}
        # dom[b] = blocks dominated BY b; back edge s->h when h dominates s
        loops = {}
        for s in live:
            for h in self.succ(s):
                if h in live and s in dom.get(h, ()):  # h dominates s
                    body = {h, s}
                    stack = [s]
                    preds = self.preds()
                    while stack:
                        x = stack.pop()
                        if x == h:
                            continue
                        for p in preds[x]:
                            if p in live and p not in body:
                                body.add(p)
                                stack.append(p)
                    if h in loops:
                        loops[h][0].update(body)
                        loops[h][1].append(s)
                    else:
                        loops[h] = [body, [s]]
        return [(h, v[0], v[1]) for h, v in sorted(loops.items())]

    # ---- definitions ---------------------------------------------------------
    def defs(self):
        """local -> list of (bb, idx, kind, payload); kind in assign/call/arg"""
        if self._defs is None:
            d = defaultdict(list)
            for l in range(1, self.argc + 1):
                d[l].append((None, None, "arg", l))
            for b, blk in enumerate(self.blocks):
                for i, st in enumerate(blk["stmts"]):
                    if st["k"] == "Assign":
                        pl = st["place"]
                        d[pl["l"]].append((b, i, "assign" if not pl["p"] else "partial", st))
                    elif st["k"] == "SetDiscr":
                        d[st["place"]["l"]].append((b, i, "partial", st))
                t = blk["term"]
                if t["k"] == "Call":
                    pl = t["dest"]
                    d[pl["l"]].append((b, None, "call" if not pl["p"] else "partial", t))
            self._defs = d
        return self._defs

    def local_name(self, l):
        return self.names.get(l, "_%d" % l)

    def local_ty(self, l):
        return self.locals[l]["ty"]

    # ---- symbolic expressions --------------------------------------------------
    def expr_of_operand(self, op, depth=12):
        if "const" in op:
            c = op["const"]
            if "fn" in c:
                return ("fn", c.get("resolved") or c["fn"])
            if "int" in c:
                return ("const", c["int"], c.get("def"))
            if "val" in c:
                return ("const", _freeze(c["val"]), c.get("def"))
            if "bytes" in c:
                return ("const", tuple(c["bytes"]), c.get("def"))
            if "def" in c:
                return ("constref", c["def"], c.get("promoted"))
            return ("const?", c.get("ty"))
        pl = op.get("copy") or op.get("move")
        if pl is None:
            return ("?",)
        return self.expr_of_place(pl, depth)

    def expr_of_place(self, pl, depth=12):
        base = self.expr_of_local(pl["l"], depth)
        for e in pl["p"]:
            if e == "*":
                # deref of a ref cancels
                if base[0] == "ref":
                    base = base[1]
                else:
                    base = ("deref", base)
            elif isinstance(e, dict) and "f" in e:
                if base[0] in ("tuple", "adt") and e["f"] < len(base[-1]):
                    base = base[-1][e["f"]]
                else:
                    base = ("field", base, e.get("name") or str(e["f"]))
            elif isinstance(e, dict) and "idx" in e:
                base = ("index", base, self.expr_of_local(e["idx"], depth - 1))
            elif isinstance(e, dict) and "cidx" in e:
                base = ("index", base, ("const", e["cidx"], None))
            elif isinstance(e, dict) and "downcast" in e:
                base = ("downcast", base, e.get("name"))
            else:
                base = ("proj", base, repr(e))
        return base

    def expr_of_local(self, l, depth=12):
        if depth <= 0:
            return ("var", self.local_name(l), l)
        ds = self.defs().get(l, [])
        whole = [d for d in ds if d[2] in ("assign", "call", "arg")]
        partial = [d for d in ds if d[2] == "partial"]
        if (l in self.names and not self.inline_named) or len(whole) != 1 or partial:
            # user variable or multiply defined: stop here
            if len(whole) == 1 and not partial and whole[0][2] == "arg":
                return ("arg", self.local_name(l), l)
            return ("var", self.local_name(l), l)
        b, i, kind, payload = whole[0]
        if kind == "arg":
            return ("arg", self.local_name(l), l)
        if kind == "call":
            return self.expr_of_call(payload, depth - 1)
        return self.expr_of_rvalue(payload["rv"], depth - 1)

    def expr_of_call(self, t, depth=12):
        callee = t.get("resolved") or t.get("callee") or "?"
        return ("call", callee, tuple(self.expr_of_operand(a, depth) for a in t["args"]))

    def expr_of_rvalue(self, rv, depth=12):
        k = rv["k"]
        if k == "Use":
            return self.expr_of_operand(rv["op"], depth)
        if k == "Ref":
            inner = self.expr_of_place(rv["place"], depth)
            return ("ref", inner)
        if k == "RawPtr":
            return ("ref", self.expr_of_place(rv["place"], depth))
        if k == "Cast":
            return ("cast", self.expr_of_operand(rv["op"], depth), rv["ty"])
        if k == "BinaryOp":
            return ("bin", rv["op"], self.expr_of_operand(rv["a"], depth), self.expr_of_operand(rv["b"], depth))
        if k == "UnaryOp":
            return ("un", rv["op"], self.expr_of_operand(rv["a"], depth))
        if k == "Discriminant":
            return ("discr", self.expr_of_place(rv["place"], depth))
        if k == "Aggregate":
            ops = tuple(self.expr_of_operand(o, depth) for o in rv["ops"])
            if rv["agg"] == "Tuple":
                return ("tuple", ops)
            if rv["agg"] == "Adt":
                return ("adt", rv["adt"], rv["variant"], ops)
            if rv["agg"] == "Array":
                return ("array", ops)
            if rv["agg"] == "Closure":
                return ("closure", rv["def"], ops)
            return ("agg", rv["agg"], ops)
        if k == "Repeat":
            return ("repeat", self.expr_of_operand(rv["op"], depth), rv["n"])
        return ("rv?", k)

    def origins(self, e, seen=None, depth=10):
        """the set of source expressions a value can come from: named / multiply assigned locals are followed through
        every whole assignment (copies, field projections of them), temporaries are already expanded by expr_of_*.
        Leaves are calls, arguments, constants, places of `self`, ... ; ('partial', local) marks a piecewise write."""
        seen = set() if seen is None else seen
        if depth <= 0:
            return {("deep",)}
        if isinstance(e, tuple) and e and e[0] == "var" and len(e) > 2 and isinstance(e[2], int):
            l = e[2]
            if l in seen:
                return set()
            seen.add(l)
            out = set()
            for b, i, kind, payload in self.defs().get(l, []):
                if kind == "arg":
                    out.add(("arg", self.local_name(l), l))
                elif kind == "call":
                    out.add(_freeze_t(self.expr_of_call(payload)))
                elif kind == "assign":
                    out |= self.origins(self.expr_of_rvalue(payload["rv"]), seen, depth - 1)
                else:
                    out.add(("partial", self.local_name(l)))
            return out
        if isinstance(e, tuple) and e and e[0] in ("field", "downcast") and isinstance(e[1], tuple) and e[1] and e[1][0] == "var":
            return {(e[0], o, e[2]) for o in self.origins(e[1], seen, depth - 1)}
        if isinstance(e, tuple) and e and e[0] in ("ref", "deref", "cast") and isinstance(e[1], tuple):
            return {(e[0], o) + tuple(e[2:]) for o in self.origins(e[1], seen, depth - 1)}
        if isinstance(e, tuple) and e and e[0] in ("field", "downcast") and isinstance(e[1], tuple) and e[1] and e[1][0] in ("field", "downcast", "deref", "ref"):
            return {(e[0], o, e[2]) for o in self.origins(e[1], seen, depth - 1)}
        return {_freeze_t(e)}

    def deep(self, fn, *a, **kw):
        """run an expr_of_* function with single-definition user variables expanded"""
        old = self.inline_named
        self.inline_named = True
        try:
            return fn(*a, **kw)
        finally:
            self.inline_named = old

    # ---- queries -------------------------------------------------------------
    def calls(self, pred=None):
        out = []
        for b, blk in enumerate(self.blocks):
            t = blk["term"]
            if t["k"] == "Call":
                callee = t.get("resolved") or t.get("callee") or ""
                if pred is None or pred(callee, t):
                    out.append((b, t))
        return out

    def variant_edges(self, local):
        """{variant index: edge} of the SwitchInt(s) on the discriminant of `local` (Option: 0 None, 1 Some)"""
        out = {}
        for bb in range(self.n):
            t = self.term(bb)
            if t["k"] != "SwitchInt":
                continue
            dl = (t["discr"].get("move") or t["discr"].get("copy") or {}).get("l")
            hit = False
            # the switched temporary is `discriminant(<local>)`, wherever in the block (or a predecessor-free chain) it is computed
            for blk in self.blocks:
                for st in blk["stmts"]:
                    if st["k"] == "Assign" and st["place"]["l"] == dl and not st["place"]["p"] and st["rv"]["k"] == "Discriminant" \
                            and st["rv"]["place"]["l"] == local and not st["rv"]["place"]["p"]:
                        hit = True
            if hit:
                for v, tgt in t["targets"]:
                    out.setdefault(v, (bb, tgt))
                out.setdefault("otherwise", (bb, t["otherwise"]))
        return out

    def switch_on(self, bb):
        """if block bb ends in SwitchInt return (discr_expr, {value: target}, otherwise)"""
        t = self.term(bb)
        if t["k"] != "SwitchInt":
            return None
        return (self.expr_of_operand(t["discr"]), dict((v, b) for v, b in t["targets"]), t["otherwise"])

    def bool_edges_of_call(self, bb):
        """For a Call in block bb whose bool result is branched on, return (true_edge, false_edge).
        Follows the result through copies and `Not` until a SwitchInt consumes it."""
        t = self.term(bb)
        if t["k"] != "Call" or "target" not in t:
            return None
        dest = t["dest"]["l"]
        return self._bool_edges_from(t["target"], dest, False, 0)

    def _bool_edges_from(self, bb, local, negated, depth):
        if depth > 6:
            return None
        cur = local
        neg = negated
        blk = self.blocks[bb]
        for st in blk["stmts"]:
            if st["k"] != "Assign" or st["place"]["p"]:
                continue
            rv = st["rv"]
            if rv["k"] == "Use":
                pl = rv["op"].get("copy") or rv["op"].get("move")
                if pl and pl["l"] == cur and not pl["p"]:
                    cur = st["place"]["l"]
            elif rv["k"] == "UnaryOp" and rv["op"] == "Not":
                pl = rv["a"].get("copy") or rv["a"].get("move")
                if pl and pl["l"] == cur and not pl["p"]:
                    cur = st["place"]["l"]
                    neg = not neg
        t = blk["term"]
        if t["k"] == "SwitchInt":
            pl = t["discr"].get("copy") or t["discr"].get("move")
            if pl and pl["l"] == cur and not pl["p"]:
                tg = dict((v, b) for v, b in t["targets"])
                if 0 in tg:
                    f_edge = (bb, tg[0])
                    t_edge = (bb, t["otherwise"])
                    if neg:
                        t_edge, f_edge = f_edge, t_edge
                    return (t_edge, f_edge)
            return None
        if t["k"] == "Goto":
            return self._bool_edges_from(t["target"], cur, neg, depth + 1)
        return None


def _freeze_t(e):
    if isinstance(e, (tuple, list)):
        return tuple(_freeze_t(x) for x in e)
    if isinstance(e, dict):
        return tuple(sorted((k, _freeze_t(v)) for k, v in e.items()))
    return e


def _freeze(v):
    if isinstance(v, list):
        return tuple(_freeze(x) for x in v)
    return v


def walk(e):
    """iterate over all sub-expressions of a symbolic expression"""
    yield e
    if isinstance(e, tuple):
        for x in e[1:]:
            if isinstance(x, tuple):
                if x and isinstance(x[0], str):
                    yield from walk(x)
                else:
                    for y in x:
                        if isinstance(y, tuple):
                            yield from walk(y)


def mentions(e, pred):
    return any(pred(x) for x in walk(e))


def show(e, limit=200):
    s = _show(e)
    return s if len(s) <= limit else s[:limit] + "…"


def _show(e):
    if not isinstance(e, tuple) or not e:
        return repr(e)
    k = e[0]
    if k in ("var", "arg"):
        return e[1]
    if k == "const":
        return (e[2] + "=" if len(e) > 2 and e[2] else "") + repr(e[1])
    if k == "fn":
        return "fn " + short(e[1])
    if k == "call":
        return "%s(%s)" % (short(e[1]), ", ".join(_show(a) for a in e[2]))
    if k == "field":
        return "%s.%s" % (_show(e[1]), e[2])
    if k == "ref":
        return "&" + _show(e[1])
    if k == "deref":
        return "*" + _show(e[1])
    if k == "bin":
        return "(%s %s %s)" % (_show(e[2]), e[1], _show(e[3]))
    if k == "un":
        return "%s(%s)" % (e[1], _show(e[2]))
    if k == "cast":
        return "(%s as %s)" % (_show(e[1]), e[2])
    if k == "index":
        return "%s[%s]" % (_show(e[1]), _show(e[2]))
    if k == "tuple":
        return "(%s)" % ", ".join(_show(a) for a in e[1])
    if k == "adt":
        return "%s::%s{%s}" % (short(e[1]), e[2], ", ".join(_show(a) for a in e[3]))
    if k == "array":
        return "[%s]" % ", ".join(_show(a) for a in e[1])
    return "%s" % (e,)


def short(path):
    # strip generic args and module prefixes for display
    import re
    p = re.sub(r"::<[^<>]*(?:<[^<>]*>[^<>]*)*>", "", path)
    parts = p.split("::")
    return "::".join(parts[-2:]) if len(parts) > 2 else p
