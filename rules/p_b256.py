"""Base256 rules: TAB-B256 (randomisation and length-field tables, encoder vs decoder vs ISO/IEC 16022 5.2.9),
DEC-B256 (end of input is only detected by a failing eat), B256-SYNC (planner thresholds agree with the encoder's)."""
from .core import Ob, need, floor
from . import thirlib as T
from . import mirlib as M
from .p_modes import find_body, agg_sites
from .p_rs import is_var, strip_into_iter, adt_fields
from .p_codec import _cmp_set


def iso_rand255(ch, pos):
    pr = (149 * pos) % 255 + 1
    t = ch + pr
    return t if t <= 255 else t - 256


def iso_rand253(pos):
    pr = (149 * pos) % 253 + 1
    t = 129 + pr
    return t if t <= 254 else t - 254


def _fold_fn(f, fn, args):
    b = f.thir[fn]
    env = {p["pat"]["name"]: a for p, a in zip(b["params"], args)}
    return T.Folder(f, env=env, effects=True).run(b["body"])


def b256enc_exec(ctx):
    """write_length folded as a whole with a model context (codeword vector, `more characters follow`, free codewords in the
    symbol) over a grid: run starts 0 / 5 / 300, every run length 1..260 plus 499..1555 samples, the three relevant
    (more, space) situations.  Afterwards the run must be the standard's Base256 field: length 0 (to end of symbol) iff the data
    ends here and the symbol is exactly full, else one codeword for <= 249 bytes or two (249 + n div 250, n mod 250), followed by
    the bytes, every codeword 255-state randomised for its 1-based position.  (ok | None, detail)"""
    return ctx.memo("b256enc_exec", lambda: list(_b256enc_exec(ctx)))


def _b256enc_exec(ctx):
    f = ctx.facts()
    wl = "encodation::base256::write_length"
    b = f.thir.get(wl)
    if b is None or len(b["params"]) != 2 or any(p_.get("pat", {}).get("k") != "Bind" for p_ in b["params"]):
        return None, "write_length(ctx, start) not found"
    pn = [p_["pat"]["name"] for p_ in b["params"]]
    n_cases = 0
    bad = None

    def run(start, data, more, space):
        cw = [65] * start + [0] + list(data)

        def on_call(folder, c):
            cc = T.canon(T.callee_of(c))
            last = cc.split("::")[-1]
            if "EncodingContext" not in cc:
                return NotImplemented
            if last == "symbol_size_left":
                return {"__adt__": "core::option::Option", "__variant__": "Some", "#0": space, "0": space}
            if last == "codewords":
                return cw
            if last == "has_more_characters":
                return more
            if last == "replace" and len(c["args"]) == 3:
                i, v = folder.fold(c["args"][1]), folder.fold(c["args"][2])
                if not (isinstance(i, int) and 0 <= i < len(cw)):
                    raise T.Trap("replace at %r outside the %d codewords" % (i, len(cw)))
                cw[i] = v
                return ()
            if last == "insert" and len(c["args"]) == 3:
                i, v = folder.fold(c["args"][1]), folder.fold(c["args"][2])
                if not (isinstance(i, int) and 0 <= i <= len(cw)):
                    raise T.Trap("insert at %r outside the %d codewords" % (i, len(cw)))
                cw.insert(i, v)
                return ()
            return NotImplemented
        fo = T.Folder(f, env={pn[0]: T.Token("ctx"), pn[1]: start}, on_call=on_call, effects=True, local_calls=3)
        fo.max_iter = 4000
        try:
            res = fo.run(b["body"])
        except T.Trap as ex:
            return ("trap", str(ex))
        if isinstance(res, dict) and res.get("__variant__") == "Err":
            return ("err",)
        return ("ok", cw[:start], cw[start:])
    try:
        lens = list(range(1, 261)) + [499, 500, 1000, 1249, 1250, 1555]
        for n in lens:
            data = [(13 * i + 7) % 256 for i in range(n)]
            for start in ((0, 5, 300) if n <= 6 or n in (249, 250, 251, 1555) else (5,)):
                for more, space in ((True, 0), (False, 0), (False, 3)):
                    if n > 260 and (more, space) == (False, 3):
                        continue
                    got = run(start, data, more, space)
                    n_cases += 1
                    hdr = [0] if (not more and space == 0) else ([n] if n <= 249 else [n // 250 + 249, n % 250])
                    want = ("ok", [65] * start, [iso_rand255(v, start + i + 1) for i, v in enumerate(hdr + data)])
                    if got != want and bad is None:
                        if got[0] != "ok":
                            bad = "run of %d bytes at position %d (more input: %s, free codewords: %d): %r" % (n, start + 1, more, space, got)
                        elif got[1] != want[1]:
                            bad = "run of %d bytes at position %d: codewords before the run were changed" % (n, start + 1)
                        else:
                            k = next((i for i in range(min(len(got[2]), len(want[2]))) if got[2][i] != want[2][i]), min(len(got[2]), len(want[2])))
                            bad = "run of %d bytes at position %d (more input: %s, free codewords: %d): the field has %d codewords (5.2.9: %d); codeword %d of the field is %r, 5.2.9 says %r" % (
                                n, start + 1, more, space, len(got[2]), len(want[2]), k, got[2][k] if k < len(got[2]) else None, want[2][k] if k < len(want[2]) else None)
        got = run(5, [1] * 1556, True, 0)
        n_cases += 1
        if got[0] != "trap" and bad is None:
            bad = "a run of 1556 bytes does not panic (no length field exists for it): %r" % (got[:1],)
    except T.Undecidable as ex:
        return None, "write_length does not fold (%s)" % ex
    return bad is None, bad or "%d (run length, position, end situation) cases: the run becomes the standard's randomised Base256 field" % n_cases


def tab_b256(ctx):
    """TAB-B256: the function-level tables (randomisation, length header) are cheap and name the deviating row; encoder-side
    obligations they cannot establish because the helpers were reshaped are decided by folding write_length as a whole."""
    from .core import AnchorMissing
    r = "TAB-B256"
    try:
        obs = _tab_b256_tables(ctx)
    except AnchorMissing as ex:
        okx, detx = b256enc_exec(ctx)
        oky, dety = b256dec_exec(ctx)
        if okx and oky:
            obs = [Ob(r, k, True, "%s - helper shapes not recognised (%s); decided by folding write_length / decode_base256 as a whole: %s; %s" % (w, str(ex)[:80], detx, dety))
                   for k, w in (("rand255-enc", "255-state randomisation, encoder"), ("rand255-dec", "255-state randomisation, decoder"), ("rand253-dec", "253-state pads"),
                                ("length-enc", "length field, encoder"), ("length-zero-form", "length 0 form"), ("length-dec", "length field, decoder"))]
            return obs
        raise
    enc_keys = ("rand255-enc", "length-enc", "length-zero-form")
    if any((not o.ok) and o.key.split(":", 1)[1] in enc_keys for o in obs):
        okx, detx = b256enc_exec(ctx)
        if okx:
            obs = [o if o.ok or o.key.split(":", 1)[1] not in enc_keys else
                   Ob(r, o.key.split(":", 1)[1], True, o.what + " (helper shape not recognised; decided by folding write_length as a whole: " + str(detx) + ")", site=o.site) for o in obs]
    return obs


def _tab_b256_tables(ctx):
    r = "TAB-B256"
    f = ctx.facts()
    obs = []
    enc_r = "encodation::base256::randomize_255_state"
    dec_r = "decodation::derandomize_255_state"
    dec_p = "decodation::derandomize_253_state"
    for fn in (enc_r, dec_r, dec_p):
        need(fn in f.thir, r, fn)
    bad_e = bad_d = bad_p = None
    n = 0
    positions = list(range(1, 600)) + [1558, 1559, 3000]
    try:
        for pos in positions:
            for ch in (range(256) if pos <= 260 else (0, 1, 128, 129, 254, 255)):
                n += 1
                e = _fold_fn(f, enc_r, [ch, pos])
                if e != iso_rand255(ch, pos) and bad_e is None:
                    bad_e = "randomize_255_state(%d, %d) = %r, 5.2.9 gives %d" % (ch, pos, e, iso_rand255(ch, pos))
                d = _fold_fn(f, dec_r, [iso_rand255(ch, pos), pos])
                if d != ch and bad_d is None:
                    bad_d = "derandomize_255_state(%d, %d) = %r, expected %d" % (iso_rand255(ch, pos), pos, d, ch)
            p = _fold_fn(f, dec_p, [iso_rand253(pos), pos])
            if p != 129 and bad_p is None:
                bad_p = "derandomize_253_state(%d, %d) = %r, expected 129" % (iso_rand253(pos), pos, p)
    except T.Trap as ex:
        bad_e = bad_e or "trap: %s" % ex
    except T.Undecidable as ex:
        bad_e = bad_e or "cannot decide: %s" % ex
    obs.append(Ob(r, "rand255-enc", bad_e is None, "randomize_255_state equals the 255-state algorithm (%d (value, position) pairs)%s" % (n, "" if not bad_e else ": " + bad_e), site=T.span_str(f.thir[enc_r]["span"])))
    obs.append(Ob(r, "rand255-dec", bad_d is None, "derandomize_255_state inverts it%s" % ("" if not bad_d else ": " + bad_d), site=T.span_str(f.thir[dec_r]["span"])))
    obs.append(Ob(r, "rand253-dec", bad_p is None, "derandomize_253_state maps every randomised pad back to 129%s" % ("" if not bad_p else ": " + bad_p), site=T.span_str(f.thir[dec_p]["span"])))
    # ---- length field, encoder
    wl = "encodation::base256::write_length"
    need(wl in f.thir, r, wl)
    b = f.thir[wl]
    hdr_if = None
    for x in T.exprs(b["body"], "If"):
        if any(T.canon(T.callee_of(c)).endswith("::replace") for c in T.calls(x["then"])) and any(T.canon(T.callee_of(c)).endswith("has_more_characters") for c in T.calls(x["cond"])):
            hdr_if = x
            break
    need(hdr_if is not None, r, wl, "(length header block)")
    start_p = b["params"][1]["pat"]["name"]
    dw = None
    for st in b["body"]["stmts"]:
        if st["k"] == "Let" and st["pat"].get("name", "").startswith("data_written#"):
            dw = st["pat"]["name"]
    need(dw, r, wl, "(data_written)")
    headers = {}
    bad_h = None
    S = 7
    for nbytes in list(range(1, 1557)) + [1600, 4000]:
        ops = []

        def on_call(folder, c, ops=ops):
            cc = T.canon(T.callee_of(c))
            last = cc.split("::")[-1]
            if last == "replace" and len(c["args"]) == 3:
                ops.append(("replace", folder.fold(c["args"][1]), folder.fold(c["args"][2])))
                return None
            if last == "insert" and len(c["args"]) == 3:
                ops.append(("insert", folder.fold(c["args"][1]), folder.fold(c["args"][2])))
                return None
            return NotImplemented
        fo = T.Folder(f, env={start_p: S, dw: nbytes + 1, b["params"][0]["pat"]["name"]: "CTX"}, on_call=on_call, effects=True)
        try:
            fo.fold(hdr_if["then"])
            new_dw = fo.env[dw]
            got = ("ok", tuple(ops), new_dw)
        except T.Trap as ex:
            got = ("trap",)
        except T.Undecidable as ex:
            got = ("undecidable", str(ex))
        if nbytes <= 249:
            want = ("ok", (("replace", S, nbytes),), nbytes + 1)
            headers[nbytes] = [nbytes]
        elif nbytes <= 1555:
            want = ("ok", (("replace", S, nbytes // 250 + 249), ("insert", S + 1, nbytes % 250)), nbytes + 2)
            headers[nbytes] = [nbytes // 250 + 249, nbytes % 250]
        else:
            want = ("trap",)
        if got != want and bad_h is None:
            bad_h = "a Base256 run of %d bytes gets %r; 5.2.9.1 says %r" % (nbytes, got, want)
    obs.append(Ob(r, "length-enc", bad_h is None, "the Base256 length field is one codeword for 1..249 bytes and 249 + n div 250, n mod 250 for 250..1555 bytes, written at `start` (all 1555 lengths)%s" % ("" if not bad_h else ": " + bad_h),
                  site=T.span_str(hdr_if["span"])))
    # header is skipped (length 0 = to end of symbol) exactly when the run ends the data and fills the symbol
    c = T.sx(hdr_if["cond"], T.let_env(b["body"]))
    okc = c[0] == "logic" and c[1] == "Or" and any(x[0] == "call" and x[1].endswith("has_more_characters") for x in (c[2], c[3]))
    sl = [x for x in (c[2], c[3]) if x[0] == "bin"]
    okc = okc and len(sl) == 1 and _cmp_set(sl[0], lambda v: v[0] in ("var", "try") or True) is not None
    if okc:
        s = _cmp_set(sl[0], lambda v: True)
        okc = s == frozenset(range(1, 9))
    obs.append(Ob(r, "length-zero-form", okc, "the explicit length is written iff more characters follow or the symbol is not exactly full (otherwise the field stays 0 = `to end of symbol`)", detail=T.sx_show(c, 200)))
    # ---- length field, decoder
    db = "decodation::decode_base256"
    need(db in f.thir, r, db)
    dbody = f.thir[db]
    linit = None
    for k, st in enumerate(dbody["body"]["stmts"]):
        if st["k"] == "Let" and st["pat"].get("name", "").startswith("length#"):
            # the statements up to and including `let length = ..` as one block whose value is `length`
            linit = {"k": "Block", "ty": "usize", "span": dbody["body"]["span"], "stmts": dbody["body"]["stmts"][:k + 1],
                     "expr": {"k": "Var", "ty": "usize", "span": st["span"], "name": st["pat"]["name"]}}
    if linit is None:
        # no `let length = ..` prefix to fold on its own: the whole function is folded instead (b256dec_exec)
        okx, detx = b256dec_exec(ctx)
        need(okx is not None, r, db, "(let length = ..; and %s)" % detx)
        obs.append(Ob(r, "length-dec", bool(okx), "decode_base256 reads back the length fields the encoder writes, 0 as `rest of symbol`, and d1 >= 250 as 250*(d1-249)+d2 - %s" % detx, site=T.span_str(dbody["span"])))
        obs += floor(obs, r, 6, "Base256 table obligations")
        return obs
    bad_l = None
    REST = 77

    def run_len(bs):
        pos = [0]

        def on_call(folder, c):
            cc = T.canon(T.callee_of(c))
            if cc.endswith("Reader::eat"):
                if pos[0] < len(bs):
                    v = bs[pos[0]]
                    pos[0] += 1
                    return {"__adt__": "core::result::Result", "__variant__": "Ok", "#0": v, "0": v}
                return {"__adt__": "core::result::Result", "__variant__": "Err", "#0": {"__variant__": "UnexpectedEnd"}}
            if cc.endswith("derandomize_255_state"):
                return folder.fold(c["args"][0])     # randomisation is checked separately (rand255-*)
            if cc.endswith("Reader::pos"):
                return 1000
            if cc.endswith("Reader::len"):
                return REST
            return NotImplemented
        fo = T.Folder(f, env={dbody["params"][0]["pat"]["name"]: "DATA", dbody["params"][1]["pat"]["name"]: "OUT"}, on_call=on_call, effects=True)
        try:
            return ("len", fo.fold(linit), pos[0])
        except T.ReturnEx as rx:
            return ("ret", rx.value.get("__variant__") if isinstance(rx.value, dict) else rx.value)
        except T.Trap as ex:
            return ("trap", str(ex))
        except T.Undecidable as ex:
            return ("undecidable", str(ex))
    for nbytes, hdr in sorted(headers.items()):
        got = run_len(hdr)
        if got != ("len", nbytes, len(hdr)) and bad_l is None:
            bad_l = "length field %r decodes to %r, expected %d" % (hdr, got, nbytes)
    g0 = run_len([0])
    if g0 != ("len", REST, 1) and bad_l is None:
        bad_l = "length field [0] decodes to %r, expected the rest of the symbol" % (g0,)
    for d1 in range(250, 256):
        for d2 in (0, 1, 249, 250, 255):
            got = run_len([d1, d2])
            if got != ("len", 250 * (d1 - 249) + d2, 2) and bad_l is None:
                bad_l = "length field [%d, %d] decodes to %r, expected %d" % (d1, d2, got, 250 * (d1 - 249) + d2)
    ge = run_len([])
    if ge[0] != "ret" and bad_l is None:
        bad_l = "empty input: %r" % (ge,)
    obs.append(Ob(r, "length-dec", bad_l is None, "decode_base256 reads back every length field the encoder writes (1..1555), 0 as `rest of symbol`, and d1 >= 250 as 250*(d1-249)+d2%s" % ("" if not bad_l else ": " + bad_l),
                  site=T.span_str(dbody["span"])))
    obs += floor(obs, r, 6, "Base256 table obligations")
    return obs


def b256dec_exec(ctx):
    """decode_base256 folded as a whole (with the crate's own Reader and derandomize_255_state) on streams built from the standard's
    255-state algorithm: for every run length 1..260 and a set of long lengths, with the length field the standard prescribes, at
    three stream positions, with exactly enough / surplus / one-too-few codewords; plus the `0 = rest of symbol` field, every
    two-codeword length field read against a too-short stream, and the empty stream.  Expected: the plain bytes are appended, the
    reader is left right behind the run, the next mode is ASCII; a stream that ends early gives UnexpectedEnd.
    (ok, description) | (None, why it does not fold)"""
    return ctx.memo("b256dec_exec", lambda: list(_b256dec_exec(ctx)))


def _b256dec_exec(ctx):
    f = ctx.facts()
    fn = "decodation::decode_base256"
    b = f.thir.get(fn)
    if b is None or len(b["params"]) != 2 or any(p_.get("pat", {}).get("k") != "Bind" for p_ in b["params"]):
        return None, "decode_base256(data, out) not found"
    pn = [p_["pat"]["name"] for p_ in b["params"]]
    n_cases = [0]

    def run(raw, p0):
        rd = {"__adt__": "decodation::Reader", "__variant__": "Reader", "0": list(raw), "#0": list(raw), "1": p0, "#1": p0}
        out = [1, 2]
        fo = T.Folder(f, env={pn[0]: rd, pn[1]: out}, effects=True, local_calls=3)
        fo.max_iter = 4000
        n_cases[0] += 1
        try:
            res = fo.run(b["body"])
        except T.Trap as ex:
            return ("trap", str(ex))
        if isinstance(res, dict) and res.get("__variant__") == "Err":
            e = res.get("#0")
            return ("err", e.get("__variant__") if isinstance(e, dict) else e)
        if isinstance(res, dict) and res.get("__variant__") == "Ok":
            res = res.get("#0")
        if isinstance(res, (list, tuple)) and len(res) == 2 and isinstance(res[0], dict):
            r2, mode = res
            return ("ok", list(out[2:]), list(r2.get("#0", r2.get("0"))), r2.get("#1", r2.get("1")), mode.get("__variant__") if isinstance(mode, dict) else mode)
        return ("other", repr(res)[:80])

    def stream(hdr, payload, p0, tail=()):
        plain = list(hdr) + list(payload)
        return [iso_rand255(v, p0 + i + 1) for i, v in enumerate(plain)] + list(tail)

    def hdr_for(n):
        return [n] if n <= 249 else [n // 250 + 249, n % 250]
    bad = None
    try:
        for n in list(range(1, 261)) + [499, 500, 501, 750, 1000, 1249, 1250, 1555]:
            pay = [(7 * i + 3) % 256 for i in range(n)]
            h = hdr_for(n)
            for p0 in ((0, 3, 200) if n <= 12 or n in (249, 250, 251) else (3,)):
                for tail in (((), (129, 65, 254)) if n <= 12 or n in (249, 250, 251, 1555) else ((129, 65, 254),)):
                    got = run(stream(h, pay, p0, tail), p0)
                    want = ("ok", pay, list(tail), p0 + len(h) + n, "Ascii")
                    if got != want and bad is None:
                        bad = "run of %d bytes at position %d (%d codewords follow): %s" % (n, p0 + 1, len(tail), _short(got, want))
                got = run(stream(h, pay[:-1], p0), p0) if n <= 12 or n % 10 == 0 or n in (249, 251, 1555) else ("err", "UnexpectedEnd")
                if got != ("err", "UnexpectedEnd") and bad is None:
                    bad = "run of %d bytes with only %d present: %r, expected Err(UnexpectedEnd)" % (n, n - 1, got[:2])
        for rest in (0, 1, 5, 40):
            pay = [(11 * i + 5) % 256 for i in range(rest)]
            got = run(stream([0], pay, 2), 2)
            if got != ("ok", pay, [], 2 + 1 + rest, "Ascii") and bad is None:
                bad = "length field 0 with %d codewords left: %s" % (rest, _short(got, ("ok", pay, [], 3 + rest, "Ascii")))
        for d1 in range(250, 256):
            for d2 in range(256):
                n = 250 * (d1 - 249) + d2
                got = run(stream([d1, d2], [9] * 3, 1), 1)
                if got != ("err", "UnexpectedEnd") and bad is None:
                    bad = "length field [%d, %d] (= %d bytes) with 3 present: %r, expected Err(UnexpectedEnd)" % (d1, d2, n, got[:2])
            got = run(stream([d1], [], 1), 1)
            if got != ("err", "UnexpectedEnd") and bad is None:
                bad = "length field [%d] without its second codeword: %r, expected Err(UnexpectedEnd)" % (d1, got[:2])
        got = run([], 4)
        if got != ("err", "UnexpectedEnd") and bad is None:
            bad = "empty stream: %r, expected Err(UnexpectedEnd)" % (got[:2],)
    except T.Undecidable as ex:
        return (None, "decode_base256 does not fold (%s)" % ex)
    return (bad is None, bad or "%d streams (every run length 1..260 and long runs with the standard's length field, field 0, all 1536 two-codeword fields, short streams)" % n_cases[0])


def _short(got, want):
    if got[0] != "ok":
        return "%r" % (got,)
    names = ("", "appended bytes", "codewords left", "reader position", "next mode")
    for k in range(1, 5):
        if got[k] != want[k]:
            g, w = got[k], want[k]
            if isinstance(g, list) and isinstance(w, list):
                return "%s differ (%d vs %d; first %r vs %r)" % (names[k], len(g), len(w), g[:3], w[:3])
            return "%s is %r, expected %r" % (names[k], g, w)
    return "?"


def dec_b256(ctx):
    r = "DEC-B256"
    f = ctx.facts()
    obs = []
    okx, detx = b256dec_exec(ctx)
    if okx is not None:
        site0 = T.span_str(f.thir["decodation::decode_base256"]["span"])
        obs.append(Ob(r, "end-only-by-eat", bool(okx), "decode_base256 reports UnexpectedEnd exactly when the stream ends inside the field (a field whose bytes are all present is never refused) - %s" % detx, site=site0))
        obs.append(Ob(r, "payload-loop", bool(okx), "exactly `length` codewords are eaten and each is de-randomised for its position and pushed - %s" % detx, site=site0))
        return obs
    body = find_body(f, "decodation::decode_base256", r)
    # Err edges of Reader::eat results
    err_edges = []
    for b, t in body.calls(lambda c, _t: T.canon(c).endswith("Reader::eat")):
        dest = t["dest"]["l"]
        # find a SwitchInt on discriminant(dest) reachable straight from the call
        cur = t.get("target")
        seen = 0
        while cur is not None and seen < 4:
            seen += 1
            blk = body.blocks[cur]
            tt = blk["term"]
            if tt["k"] == "SwitchInt":
                e = body.expr_of_operand(tt["discr"])
                if e[0] == "discr":
                    tg = dict((v, bb) for v, bb in tt["targets"])
                    if 1 in tg:
                        err_edges.append((cur, tg[1]))
                    elif 0 in tg:
                        err_edges.append((cur, tt["otherwise"]))
                break
            if tt["k"] == "Goto":
                cur = tt["target"]
            elif tt["k"] == "Call" and "branch" in (tt.get("callee") or ""):
                cur = tt.get("target")
            else:
                break
    sites = [(b, st) for b, i, v, st in agg_sites(body, "decodation::DataDecodingError") if v == "UnexpectedEnd"]
    # (with `data.eat()?` there is no UnexpectedEnd site in this function at all: the error is the reader's own)
    eats = body.calls(lambda c, _t: T.canon(c).endswith("Reader::eat"))
    ok = bool(sites) or len(eats) >= 2
    for b, st in sites:
        ok = ok and any(body.dominated_by_edge(b, e) for e in err_edges)
    obs.append(Ob(r, "end-only-by-eat", ok and (len(err_edges) >= 2 or not sites),
                  "decode_base256 reports UnexpectedEnd only on the failure edge of a Reader::eat() (a field whose bytes are all present is never refused up front) - %d sites, %d eat calls" % (len(sites), len(err_edges)),
                  site=M.fmt_span(sites[0][1]["span"]) if sites else None))
    # payload loop: for _ in 0..length { eat -> push(derandomize) }
    fn = "decodation::decode_base256"
    sts = T.stmts(f.thir[fn]["body"], {"__noinline__": True})
    loops = [s for s in sts if s[0] == "for"]
    ok = len(loops) == 1
    if ok:
        rg = adt_fields(strip_into_iter(loops[0][2]), "core::ops::Range")
        ok = bool(rg) and rg.get("start") == ("lit", 0) and is_var(rg.get("end"), "length")
        body_s = loops[0][3]
        if ok and len(body_s) == 1 and body_s[0][0] == "if" and body_s[0][1][0] == "iflet" and body_s[0][1][1][1].endswith("Reader::eat"):
            pushes = [x for st in body_s[0][2] for e in T.stmt_exprs(st) for x in T.sx_calls(e, "Vec::push")]
            ok = len(pushes) == 1 and pushes[0][2][1][0] == "call" and pushes[0][2][1][1].endswith("derandomize_255_state")
        elif ok and len(body_s) == 2 and body_s[0][0] == "let" and body_s[0][3][0] == "try" and body_s[0][3][1][0] == "call" and body_s[0][3][1][1].endswith("Reader::eat") \
                and body_s[1][0] == "expr":
            # let ch = data.eat()?; out.push(derandomize_255_state(ch, ..));
            pushes = T.sx_calls(body_s[1][1], "Vec::push")
            ok = len(pushes) == 1 and pushes[0][2][1][0] == "call" and pushes[0][2][1][1].endswith("derandomize_255_state") \
                and is_var(pushes[0][2][1][2][0], body_s[0][1].split("#")[0])
        elif ok and len(body_s) == 1 and body_s[0][0] == "expr":
            # out.push(derandomize_255_state(data.eat()?, ..));
            pushes = T.sx_calls(body_s[0][1], "Vec::push")
            ok = len(pushes) == 1 and pushes[0][2][1][0] == "call" and pushes[0][2][1][1].endswith("derandomize_255_state") \
                and pushes[0][2][1][2][0][0] == "try" and bool(T.sx_calls(pushes[0][2][1][2][0], "Reader::eat"))
        else:
            ok = False
    obs.append(Ob(r, "payload-loop", ok, "exactly `length` codewords are eaten and each is de-randomised and pushed"))
    # returns to ASCII: DEC-MODE
    return obs


def header_ops(f, rule, nbytes, S=7):
    """the codeword operations write_length performs for a Base256 run of `nbytes` data bytes (the header block folded with
    data_written = nbytes + 1): ('ok', ops, new data_written) | ('trap',) | ('undecidable', why)"""
    wl = "encodation::base256::write_length"
    need(wl in f.thir, rule, wl)
    b = f.thir[wl]
    hdr_if = None
    for x in T.exprs(b["body"], "If"):
        if x["cond"].get("k") != "Let" and any(T.canon(T.callee_of(c)).endswith("::replace") for c in T.calls(x["then"])) and any(T.canon(T.callee_of(c)).endswith("has_more_characters") for c in T.calls(x["cond"])):
            hdr_if = x
            break
    need(hdr_if is not None, rule, wl, "(length header block)")
    start_p = b["params"][1]["pat"]["name"]
    dw = None
    for st in b["body"]["stmts"]:
        if st["k"] == "Let" and st["pat"].get("name", "").startswith("data_written#"):
            dw = st["pat"]["name"]
    need(dw, rule, wl, "(data_written)")
    ops = []

    def on_call(folder, c):
        cc = T.canon(T.callee_of(c))
        last = cc.split("::")[-1]
        if last == "replace" and len(c["args"]) == 3:
            ops.append(("replace", folder.fold(c["args"][1]), folder.fold(c["args"][2])))
            return None
        if last == "insert" and len(c["args"]) == 3:
            ops.append(("insert", folder.fold(c["args"][1]), folder.fold(c["args"][2])))
            return None
        return NotImplemented
    fo = T.Folder(f, env={start_p: S, dw: nbytes + 1, b["params"][0]["pat"]["name"]: "CTX"}, on_call=on_call, effects=True, local_calls=1)
    try:
        fo.fold(hdr_if["then"])
        return ("ok", tuple(ops), fo.env[dw]), hdr_if
    except T.Trap:
        return ("trap",), hdr_if
    except T.Undecidable as ex:
        return ("undecidable", str(ex)), hdr_if


def b256_sync(ctx):
    r = "B256-SYNC"
    f = ctx.facts()
    obs = []
    WIN = range(0, 2001)

    def cmp_sets(fn_suffix, var_field="written"):
        name = [n for n in f.thir if T.canon(n).endswith(fn_suffix)]
        need(len(name) == 1, r, fn_suffix)
        sts = T.stmts(f.thir[name[0]]["body"], {"__noinline__": True})
        out = []
        # one level of inherent helper methods of the plan (e.g. a `long_header()` predicate)
        helpers = []
        for c in T.calls(f.thir[name[0]]["body"]):
            cc = T.canon(T.callee_of(c))
            if cc.startswith("encodation::planner::base256::Base256Plan::"):
                for n2 in f.thir:
                    if T.canon(n2) == cc:
                        helpers += T.stmts(f.thir[n2]["body"], {"__noinline__": True})
        for st in list(T.stmt_walk(sts)) + list(T.stmt_walk(helpers)):
            for e in T.stmt_exprs(st):
                for x in T.sx_walk(e):
                    if isinstance(x, tuple) and x[0] == "bin" and x[1] in ("Lt", "Le", "Gt", "Ge", "Eq", "Ne"):
                        a, b2 = x[2], x[3]
                        def is_w(y):
                            return y[0] == "field" and y[2] == var_field and is_var(y[1], "self")
                        if (is_w(a) and b2[0] == "lit") or (is_w(b2) and a[0] == "lit"):
                            k = b2[1] if b2[0] == "lit" else a[1]
                            op = x[1] if b2[0] == "lit" else {"Lt": "Gt", "Le": "Ge", "Gt": "Lt", "Ge": "Le", "Eq": "Eq", "Ne": "Ne"}[x[1]]
                            fnc = {"Lt": lambda v: v < k, "Le": lambda v: v <= k, "Gt": lambda v: v > k, "Ge": lambda v: v >= k, "Eq": lambda v: v == k, "Ne": lambda v: v != k}[op]
                            out.append((frozenset(v for v in WIN if fnc(v)), st, T.sx_show(x)))
        return out, sts
    # encoder thresholds: which run lengths get the one-codeword and which the two-codeword length field (header block folded
    # for every run length of the window)
    one, two = set(), set()
    for n in WIN:
        if n == 0:
            continue
        got, _hdr = header_ops(f, r, n)
        if got[0] == "undecidable":
            need(False, r, "encodation::base256::write_length", "(header block does not fold: %s)" % got[1])
        if got[0] == "ok":
            (two if any(o[0] == "insert" for o in got[1]) else one).add(n)
    need(one and two, r, "encodation::base256::write_length", "(one-byte / two-byte thresholds)")
    enc_one = frozenset(one) | {0}
    enc_ok = frozenset(one | two) | {0}
    long_enc = frozenset(v for v in WIN if v not in enc_one and v in enc_ok)      # two-byte header
    max_enc = max(enc_ok)
    for suffix in ("Base256Plan<T> as encodation::planner::Plan>::mode_switch_cost", "Base256Plan<T> as encodation::planner::Plan>::cost", "Base256Plan<T> as encodation::planner::Plan>::write_unlatch"):
        sets, _ = cmp_sets(suffix)
        ok = bool(sets) and all(frozenset(v for v in s if 1 <= v <= max_enc) == long_enc for s, _st, _d in sets)
        obs.append(Ob(r, "long-header:" + suffix.split("::")[-1], ok,
                      "planner %s prices the second length codeword for exactly the run lengths for which the encoder writes it (%d..%d)" % (suffix.split("::")[-1], min(long_enc), max(long_enc)),
                      detail=[d for _s, _st, d in sets]))
    sets, ssts = cmp_sets("Base256Plan<T> as encodation::planner::Plan>::step")
    dead = None
    for s, st, d in sets:
        if st[0] == "if" and any(y[0] == "return" and y[1] is not None and y[1][0] == "adt" and y[1][2] == "None" for y in st[2]):
            dead = s
    ok = dead is not None and min(dead) == max_enc + 1
    obs.append(Ob(r, "run-limit", ok, "the planner abandons a Base256 plan exactly when its run reaches %d bytes, one more than the longest run the encoder's length field can express (%d)" % (max_enc + 1, max_enc),
                  detail=sorted(dead)[:3] if dead else None))
    # the run length counter counts one per character
    inc = [st for st in T.stmt_walk(ssts) if st[0] == "assignop" and st[1] == "AddAssign" and st[2][0] == "field" and st[2][2] == "written" and st[3] == ("lit", 1)]
    obs.append(Ob(r, "run-counter", len(inc) == 1, "Base256Plan counts one byte per stepped character"))
    obs += floor(obs, r, 5, "planner/encoder Base256 constants")
    return obs
