"""Bitmap parsing rules (C08): DOM-BITMAP (rejection clause), ALIGN-COVER (which modules the finder checks read)."""
from .core import Ob, need, floor
from . import mirlib as M
from . import thirlib as T
from .p_modes import find_body, agg_sites
from .p_rs import is_var, adt_fields, strip_into_iter, SS

BCE = "placement::BitmapConversionError"
FN = "placement::MatrixMap::<M>::try_from_bits"


def dom_bitmap(ctx):
    r = "DOM-BITMAP"
    f = ctx.facts()
    obs = []
    vs = f.enum_variants(BCE)
    obs.append(Ob(r, "variants", vs is not None and sorted(vs) == ["Alignment", "DataSize", "Padding", "SymbolSize", "ZeroWidth"], "BitmapConversionError has exactly the five documented variants", detail=vs))
    body = find_body(f, "MatrixMap::try_from_bits", r)
    sites = {}
    for b, i, v, st in agg_sites(body, BCE):
        sites.setdefault(v, []).append((b, st))
    # width == 0 test
    zedges = []
    for b in range(body.n):
        sw = body.switch_on(b)
        if sw and sw[0][0] == "bin" and sw[0][1] in ("Eq", "Ne") and 0 in sw[1]:
            l, rr = sw[0][2], sw[0][3]
            is_w = lambda x: x[0] in ("arg", "var") and x[1] == "width"
            is_0 = lambda x: x[:2] == ("const", 0)
            if (is_w(l) and is_0(rr)) or (is_w(rr) and is_0(l)):
                t_e, f_e = (b, sw[2]), (b, sw[1][0])
                if sw[0][1] == "Ne":
                    t_e, f_e = f_e, t_e
                zedges.append((t_e, f_e))
    need(zedges, r, "try_from_bits", "(width == 0 test)")
    zt, zf = zedges[0]
    zs = sites.get("ZeroWidth", [])
    ok = len(zs) == 1 and body.dominated_by_edge(zs[0][0], zt)
    # and it is the only thing on that edge: no call before return
    seen = body.reachable(zt[1])
    ok = ok and not any(body.term(x)["k"] == "Call" and not body.blocks[x]["cleanup"] for x in seen)
    # the test is the first branch of the function
    first = body.reachable(0, removed_edges=[zt, zf])
    ok = ok and not any(body.term(x)["k"] in ("Call", "Assert") for x in first)
    obs.append(Ob(r, "zero-width", ok, "ZeroWidth is returned exactly on the true edge of `width == 0`, which is the first thing tested", site=M.fmt_span(zs[0][1]["span"]) if zs else None))
    # every division / remainder by width lies on the false edge
    divs = []
    for b, blk in enumerate(body.blocks):
        t = blk["term"]
        if t["k"] == "Assert" and t["msg"] in ("DivisionByZero", "RemainderByZero"):
            divs.append((b, M.fmt_span(t["span"])))
        for st in blk["stmts"]:
            if st["k"] == "Assign" and st["rv"]["k"] == "BinaryOp" and st["rv"]["op"] in ("Div", "Rem"):
                d = body.expr_of_operand(st["rv"]["b"])
                if d[0] in ("arg", "var") and d[1] == "width":
                    divs.append((b, M.fmt_span(st["span"])))
    bad = [s for b, s in divs if not body.dominated_by_edge(b, zf)]
    obs.append(Ob(r, "div-guard", bool(divs) and not bad, "every division/remainder by `width` is dominated by the false edge of `width == 0` (%d sites)" % len(divs), detail=bad))
    # DataSize
    dedges = []
    for b in range(body.n):
        sw = body.switch_on(b)
        if sw and sw[0][0] == "bin" and sw[0][1] == "Ne" and sw[0][3][:2] == ("const", 0) and 0 in sw[1]:
            l = sw[0][2]
            if l[0] == "bin" and l[1] == "Rem" and l[3][0] in ("arg", "var") and l[3][1] == "width" and any(isinstance(x, tuple) and x[0] == "call" and x[1].endswith("::len") for x in M.walk(l[2])):
                dedges.append(((b, sw[2]), (b, sw[1][0])))
    ds = sites.get("DataSize", [])
    ok = len(dedges) == 1 and len(ds) == 1 and body.dominated_by_edge(ds[0][0], dedges[0][0])
    others = [b for v, lst in sites.items() if v not in ("ZeroWidth", "DataSize") for b, _s in lst]
    ok = ok and all(body.dominated_by_edge(b, dedges[0][1]) for b in others) if dedges else False
    obs.append(Ob(r, "data-size", ok, "DataSize is returned exactly when bits.len() % width != 0; every later check lies on the false edge", site=M.fmt_span(ds[0][1]["span"]) if ds else None))
    # SymbolSize: the failed catalogue lookup
    fn = FN
    need(fn in f.thir, r, fn)
    sts = T.stmts(f.thir[fn]["body"], {"__noinline__": True})
    # (a hoisted `let matching = ..find(..)` is looked through)
    lv = T.let_values(sts)

    def thru(e):
        return T.map_sx(e, lambda n: T.look_through(n, lv) if n[0] == "var" else n)
    lk = [s for s in sts if s[0] == "let" and T.sx_calls(thru(s[3]), "Iterator::find") and any(x[0] == "adt" and x[2] == "SymbolSize" and x[1] == BCE for x in T.sx_walk(s[3]))]
    ok = len(lk) == 1 and len(sites.get("SymbolSize", [])) == 1
    det = None
    if ok:
        e = thru(lk[0][3])
        fd = T.sx_calls(e, "Iterator::find")[0]
        src = fd[2][0]
        ok = any(x[0] == "call" and x[1] == "symbol_size::SymbolList::all" for x in T.sx_walk(src)) and fd[2][1][0] == "closure" and e[0] == "try" \
            and e[1][0] == "call" and e[1][1].endswith("Option::ok_or")
        if ok:
            cb = f.thir[fd[2][1][1]]
            ce = T.sx(cb["body"], T.let_env(cb["body"]))
            det = T.sx_show(ce, 300)

            def fld_eq(x, field, var):
                if x[0] != "bin" or x[1] != "Eq":
                    return False
                a, b2 = x[2], x[3]
                def is_f(y):
                    return y[0] == "field" and y[2] == field and y[1][0] == "call" and y[1][1] == SS + "::block_setup"
                return (is_f(a) and is_var(b2, var)) or (is_f(b2) and is_var(a, var))
            ok = ce[0] == "logic" and ce[1] == "And" and ((fld_eq(ce[2], "width", "width") and fld_eq(ce[3], "height", "height")) or (fld_eq(ce[3], "width", "width") and fld_eq(ce[2], "height", "height")))
    hl = [s for s in sts if s[0] == "let" and s[1].startswith("height#")]
    okh = len(hl) == 1 and hl[0][3][0] == "bin" and hl[0][3][1] == "Div" and is_var(hl[0][3][3], "width") and hl[0][3][2][0] == "call" and hl[0][3][2][1].endswith("::len") and is_var(hl[0][3][2][2][0], "bits")
    if not (ok and okh):
        # shape not recognised: decide by folding the function on arrays of every (width, height) of a grid around the catalogue's sizes
        okx, detx = ctx.memo("lookup_exec", lambda: list(_lookup_exec(ctx)))
        if okx is not None:
            obs.append(Ob(r, "symbol-size", bool(okx), "SymbolSize is returned exactly when no catalogue entry has these outer dimensions - %s" % detx))
            ok = okh = None
    if ok is not None:
        obs.append(Ob(r, "symbol-size", ok and okh, "SymbolSize is returned exactly when no catalogue entry has block_setup().width == width and .height == bits.len() / width", detail=det))
    obs += floor(obs, r, 5, "rejection obligations")
    return obs


def align_cover(ctx):
    """ALIGN-COVER: which modules the finder tests of try_from_bits read, from the statement shapes (cheap, names the test that
    reads too little); when the shapes are not recognised the question is settled by PARSE-INV's fold, which shows for every size
    that every finder / clock / alignment module is tested against its value"""
    from .core import AnchorMissing
    try:
        obs = _align_cover_shape(ctx)
    except (AnchorMissing, KeyError, IndexError, TypeError) as ex:
        obs = [Ob("ALIGN-COVER", "shape", False, "the finder tests' statement shapes are not recognised (%s)" % (str(ex)[:120],))]
    if all(o.ok for o in obs):
        return obs
    okp, detp = parse_exec(ctx)
    if not okp:
        return obs
    return [o if o.ok else Ob("ALIGN-COVER", o.key.split(":", 1)[1], True, o.what + " (statement shape not recognised; decided by folding try_from_bits for all 48 sizes: " + str(detp) + ")", site=o.site)
            for o in obs]


def _align_cover_shape(ctx):
    r = "ALIGN-COVER"
    f = ctx.facts()
    need(FN in f.thir, r, FN)
    sts = T.stmts(f.thir[FN]["body"], {"__noinline__": True})
    obs = []
    lets = {}

    def collect(stl):
        for s in T.stmt_walk(stl):
            if s[0] == "let" and not s[2]:
                lets[s[1]] = s[3]
            elif s[0] == "letpat" and s[2] is not None and s[2][0] == "tuple" and len(s[1]) == len(s[2][1]):
                p = s[4]
                if p.get("k") == "Leaf" and all(fp["pat"].get("k") == "Bind" and not T.is_mut_binding(fp["pat"]) for fp in p["fields"]):
                    for fp in p["fields"]:
                        lets[fp["pat"]["name"]] = s[2][1][fp["f"]]
    collect(sts)

    def expand(e, d=8):
        if not isinstance(e, tuple) or d == 0:
            return e
        if e[0] == "var" and len(e) > 2 and e[2] in lets and e[1] not in ("width", "bits", "size"):
            return expand(lets[e[2]], d - 1)
        if e[0] == "bin":
            return ("bin", e[1], expand(e[2], d - 1), expand(e[3], d - 1))
        if e[0] == "call":
            return ("call", e[1], tuple(expand(a, d - 1) for a in e[2]))
        if e[0] == "field":
            return ("field", expand(e[1], d - 1), e[2])
        if e[0] == "adt":
            return ("adt", e[1], e[2], tuple((k, expand(v, d - 1)) for k, v in e[3]))
        return e

    def setup_field(x, name):
        x = expand(x)
        return x[0] == "field" and x[2] == name and x[1][0] == "call" and x[1][1] == SS + "::block_setup" and is_var(x[1][2][0], "size")

    def is_blk(x, dim):
        """content_<dim>(setup) / (extra_* + 1)"""
        x = expand(x)
        content = "content_height" if dim == "h" else "content_width"
        extra = "extra_horizontal_alignments" if dim == "h" else "extra_vertical_alignments"
        return x[0] == "bin" and x[1] == "Div" and x[2][0] == "call" and x[2][1].endswith("BlockSetup::" + content) and \
            x[3][0] == "bin" and x[3][1] == "Add" and setup_field(x[3][2], extra) and x[3][3] == ("lit", 1)

    def atom(x):
        if is_var(x, "width"):
            return "W"
        if is_blk(x, "h"):
            return "BH"
        if is_blk(x, "w"):
            return "BW"
        if x[0] == "var" and len(x) > 2 and x[2] in lets and x[1] not in ("width", "bits", "size"):
            return None
        return None

    def P(x):
        return T.poly(_full(x), atom)

    def _full(x, d=8):
        """expand let-bound names except where they already are a recognised atom"""
        if not isinstance(x, tuple) or d == 0:
            return x
        if atom(x) is not None:
            return x
        if x[0] == "var" and len(x) > 2 and x[2] in lets:
            return _full(lets[x[2]], d - 1)
        if x[0] == "bin":
            return ("bin", x[1], _full(x[2], d - 1), _full(x[3], d - 1))
        if x[0] == "cast":
            return ("cast", _full(x[1], d - 1), x[2])
        return x

    BAND = {("BH", "W"): 1, ("W",): 2}          # (BH + 2) * W
    LASTROW = {("BH", "W"): 1, ("W",): 1}       # (BH + 1) * W
    WIDTH = {("W",): 1}
    PIECE = {("BW",): 1, (): 2}                 # BW + 2
    LASTCOL = {("BW",): 1, (): 1}               # BW + 1

    outer = [s for s in sts if s[0] == "for" and T.sx_calls(s[2], "slice::chunks")]
    need(len(outer) == 1, r, FN, "(loop over region rows)")
    oc = T.sx_calls(outer[0][2], "slice::chunks")[0]
    ok = is_var(oc[2][0], "bits") and P(oc[2][1]) == BAND
    obs.append(Ob(r, "row-bands", ok, "the pixels are cut into bands of (region height + 2) * width", site=outer[0][4], detail=T.sx_show(oc[2][1])))
    band = outer[0][1][0].split("#")[0]
    inner = outer[0][3]
    il = {s[1].split("#")[0]: s[3] for s in inner if s[0] == "let"}
    collect(inner)
    # which slices feed the two `all` checks
    al = [s for s in inner if s[0] == "let" and s[3][0] == "logic" and len(T.sx_calls(s[3], "::all")) == 2]
    need(len(al) == 1, r, FN, "(band alignment test)")
    alls = T.sx_calls(al[0][3], "::all")

    def src_of(call):
        x = call[2][0]
        while x[0] == "call" and (x[1].endswith("::iter") or x[1].endswith("Iterator::zip") or x[1].endswith("into_iter")):
            x = x[2][0]
        if x[0] == "var" and x[1] in il:
            return il[x[1]]
        return x
    srcs = [src_of(c) for c in alls]
    top = bot = None
    for s, c in zip(srcs, alls):
        if T.sx_calls(c, "Iterator::zip") or T.sx_calls(c, "Iterator::cycle"):
            top = s
        else:
            bot = s
    def idx_parts(x):
        if x is not None and x[0] == "call" and x[1].endswith("::index") and is_var(x[2][0], band):
            return x[2][1]
        return None
    tr = idx_parts(top)
    ok = False
    if tr is not None:
        rt = adt_fields(tr, "core::ops::RangeTo")
        rg = adt_fields(tr, "core::ops::Range")
        ok = (bool(rt) and P(rt.get("end")) == WIDTH) or (bool(rg) and P(rg.get("start")) == {} and P(rg.get("end")) == WIDTH)
    obs.append(Ob(r, "clock-row", ok, "the alternating clock-track test reads the band's complete first row (band[..width])", site=al[0][4], detail=T.sx_show(top) if top else None))
    br = idx_parts(bot)
    ok = False
    if br is not None:
        rf = adt_fields(br, "core::ops::RangeFrom")
        ok = bool(rf) and P(rf.get("start")) == LASTROW
    obs.append(Ob(r, "solid-row", ok, "the solid-bar test reads the band's complete last row (band[(region height + 1) * width..])", detail=T.sx_show(bot) if bot else None))
    # failure -> Alignment
    fails = [s for s in inner if s[0] == "if" and s[1][0] == "un" and s[1][1] == "Not" and is_var(s[1][2], al[0][1].split("#")[0])]
    ok = len(fails) == 1 and any(st[0] == "return" and st[1] is not None and any(x[0] == "adt" and x[2] == "Alignment" for x in T.sx_walk(st[1])) for st in fails[0][2])
    obs.append(Ob(r, "band-reject", ok, "a band whose rows fail the test is rejected with Alignment"))
    # per-row column checks
    # (by role: the immutable local that is a sub-slice of the band)
    rows_let = [s for s in inner if s[0] == "let" and not s[2] and s[3][0] == "call" and s[3][1].endswith("::index") and len(s[3][2]) == 2
                and is_var(s[3][2][0], band) and adt_fields(s[3][2][1], "core::ops::Range")]
    il2 = [s for s in inner if s[0] == "for" and T.sx_calls(s[2], "slice::chunks")]
    ok = False
    if len(il2) == 1:
        c2 = T.sx_calls(il2[0][2], "slice::chunks")[0]
        ok = P(c2[2][1]) == PIECE
        if ok and rows_let:
            rg = adt_fields(rows_let[0][3][2][1], "core::ops::Range") if rows_let[0][3][0] == "call" else None
            ok = bool(rg) and P(rg.get("start")) == WIDTH and P(rg.get("end")) == LASTROW and is_var(rows_let[0][3][2][0], band)
    obs.append(Ob(r, "region-rows", ok, "the data rows of a band are cut into pieces of (region width + 2)"))
    ok = False
    if len(il2) == 1:
        rowv = il2[0][1][-1].split("#")[0]
        chk = [s for s in il2[0][3] if s[0] == "let" and s[3][0] == "logic" and s[3][1] == "And"]
        if len(chk) == 1:
            parts = [chk[0][3][2], chk[0][3][3]]
            def is_idx(x, pred):
                return x[0] == "call" and x[1].endswith("::eq") and x[2][0][0] == "index" and is_var(x[2][0][1], rowv) and pred(x[2][0][2])
            left = any(is_idx(p, lambda i: P(i) == {}) and p[2][1][0] == "const" and p[2][1][1].endswith("Bit::HIGH") for p in parts)
            # the alternating bit: the mutable local of the band loop that starts LOW and is flipped inside the piece loop
            alt = [s0[1].split("#")[0] for s0 in inner if s0[0] == "let" and s0[2] and s0[3][0] == "const" and s0[3][1].endswith("Bit::LOW")
                   and any(st[0] == "assign" and is_var(st[1], s0[1].split("#")[0]) for st in T.stmt_walk(il2[0][3]))]
            right = len(alt) == 1 and any(is_idx(p, lambda i: P(i) == LASTCOL) and is_var(p[2][1], alt[0]) for p in parts)
            rej = [s for s in il2[0][3] if s[0] == "if" and s[1][0] == "un" and is_var(s[1][2], chk[0][1].split("#")[0]) and any(st[0] == "return" for st in s[2])]
            ok = left and right and len(rej) == 1
    obs.append(Ob(r, "columns", ok, "every row piece has its first module checked against HIGH and its last module against the alternating bit"))
    obs += floor(obs, r, 6, "finder coverage obligations")
    return obs


# ---- renderer geometry and the parsed/constructed map's fields ---------------------------------------------

MM = "placement::MatrixMap"


def _self_field(x, name):
    return isinstance(x, tuple) and x[0] == "field" and x[2] == name and is_var(x[1], "self")


def prov_map(ctx):
    """PROV-MAP: MatrixMap::new and try_from_bits fill the map's geometry fields from the right attribute of the size"""
    r = "PROV-MAP"
    f = ctx.facts()
    obs = []
    FIELDS = ("width", "height", "extra_vertical_alignments", "extra_horizontal_alignments", "has_padding")
    decided = set()
    # primary: MatrixMap::new folded for every size, try_from_bits through PARSE-INV's fold (which compares the same fields)
    nf = "placement::MatrixMap::<M>::new"
    need(nf in f.thir, r, nf)
    okn, detn = ctx.memo("map_new_exec", lambda: list(_map_new_exec(ctx)))
    if okn is not None:
        decided.add(nf)
        bad_field, msg = (detn if isinstance(detn, (list, tuple)) else (None, detn)) if not okn else (None, detn)
        for k in FIELDS:
            okk = bool(okn) or (bad_field is not None and bad_field != k)
            obs.append(Ob(r, "new:%s" % k, okk, "new: field %s comes from the matching attribute of `size` - %s" % (k, msg), site=T.span_str(f.thir[nf]["span"])))
    need(FN in f.thir, r, FN)
    okp, detp = parse_exec(ctx)
    if okp:
        decided.add(FN)
        for k in FIELDS:
            obs.append(Ob(r, "try_from_bits:%s" % k, True, "try_from_bits: field %s comes from the matching attribute of `size` - %s" % (k, detp), site=T.span_str(f.thir[FN]["span"])))
    for fn in ("placement::MatrixMap::<M>::new", FN):
        if fn in decided:
            continue
        need(fn in f.thir, r, fn)
        sts = T.stmts(f.thir[fn]["body"], {})
        adts = []
        for st in T.stmt_walk(sts):
            for e in T.stmt_exprs(st):
                for x in T.sx_walk(e):
                    if isinstance(x, tuple) and x[0] == "adt" and x[1] == MM and x not in adts:
                        adts.append(x)
        ok = len(adts) == 1
        det = None
        if ok:
            d = dict(adts[0][3])

            def setup_f(x, name):
                return x is not None and x[0] == "field" and x[2] == name and x[1][0] == "call" and x[1][1] == SS + "::block_setup" and is_var(x[1][2][0], "size")

            def content(x, which):
                return x is not None and x[0] == "call" and x[1].endswith("BlockSetup::content_" + which) and x[2][0][0] == "call" and x[2][0][1] == SS + "::block_setup"
            checks = {
                "width": content(d.get("width"), "width"),
                "height": content(d.get("height"), "height"),
                "extra_vertical_alignments": setup_f(d.get("extra_vertical_alignments"), "extra_vertical_alignments"),
                "extra_horizontal_alignments": setup_f(d.get("extra_horizontal_alignments"), "extra_horizontal_alignments"),
                "has_padding": d.get("has_padding") is not None and d["has_padding"][0] == "call" and d["has_padding"][1] == SS + "::has_padding_modules" and is_var(d["has_padding"][2][0], "size"),
            }
            det = {k: T.sx_show(d.get(k), 90) if d.get(k) else None for k in checks}
            for k, v in checks.items():
                obs.append(Ob(r, "%s:%s" % (fn.split("::")[-1], k), v, "%s: field %s comes from the matching attribute of `size`" % (fn.split("::")[-1], k), site=T.span_str(f.thir[fn]["span"]), detail=det[k]))
        else:
            obs.append(Ob(r, "%s:literal" % fn.split("::")[-1], False, "%s builds exactly one MatrixMap" % fn.split("::")[-1], detail=len(adts)))
    obs += floor(obs, r, 10, "map field provenance")
    return obs


def render_geom(ctx):
    """RENDER-GEOM: the polynomial shape analysis of bitmap() (cheap); whenever it cannot recognise something - and always in the
    thorough tier - the decision is taken by rendering bitmap() symbolically for all 48 sizes (render_exec), which subsumes
    every obligation of the shape analysis (dimensions, pattern stores, data positions)."""
    from .core import AnchorMissing
    try:
        obs = _render_shape(ctx)
    except (AnchorMissing, KeyError, IndexError, TypeError) as ex:
        obs = [Ob("RENDER-GEOM", "shape", False, "the store shapes of bitmap() are not recognised (%s)" % (str(ex)[:120],))]
    failed = [o for o in obs if not o.ok and not o.info]
    if not failed:
        return obs
    exec_ok, exec_det = render_exec(ctx)
    if not exec_ok:
        if not any(o.key.endswith(":draw:exec") for o in obs):
            obs.append(Ob("RENDER-GEOM", "draw:exec", False, "bitmap() rendered symbolically for every symbol size: " + str(exec_det)))
        return obs
    out = []
    for o in obs:
        if not o.ok and not o.info:
            out.append(Ob("RENDER-GEOM", o.key.split(":", 1)[1], True, o.what + " (shape not recognised; decided by the symbolic rendering of all 48 sizes)", site=o.site))
        else:
            out.append(o)
    if not any(o.key.endswith(":draw:exec") for o in out):
        out.append(Ob("RENDER-GEOM", "draw:exec", True, "bitmap() rendered symbolically for every symbol size: " + str(exec_det)))
    return out


def _render_shape(ctx):
    """bitmap() draws the finder, clock tracks and alignment bars at the positions the parser reads them from"""
    r = "RENDER-GEOM"
    f = ctx.facts()
    fn = "placement::MatrixMap::<M>::bitmap"
    need(fn in f.thir, r, fn)
    b = f.thir[fn]
    sts = T.stmts(b["body"], {"__noinline__": True})
    obs = []
    lets = {}
    for s in T.stmt_walk(sts):
        if s[0] == "let" and not s[2]:
            lets[s[1]] = s[3]

    def full(x, d=10):
        if not isinstance(x, tuple) or d == 0:
            return x
        if x[0] == "var" and len(x) > 2 and x[2] in lets and x[1] not in ("blk_h", "blk_w"):
            return full(lets[x[2]], d - 1)
        if x[0] == "bin":
            return ("bin", x[1], full(x[2], d - 1), full(x[3], d - 1))
        if x[0] == "cast":
            return ("cast", full(x[1], d - 1), x[2])
        return x

    def atom(x):
        if _self_field(x, "height"):
            return "H"
        if _self_field(x, "width"):
            return "W"
        if _self_field(x, "extra_horizontal_alignments"):
            return "EH"
        if _self_field(x, "extra_vertical_alignments"):
            return "EV"
        if is_var(x, "blk_h"):
            return "BH"
        if is_var(x, "blk_w"):
            return "BW"
        if x[0] == "var" and x[1] in ("i", "j", "b_i"):
            return x[1].upper()
        return None

    def P(x):
        return T.poly(full(x), atom)

    def ob(key, ok, what, det=None):
        obs.append(Ob(r, key, ok, what, site=T.span_str(b["span"]), detail=det))
    h = lets.get(next((k for k in lets if k.startswith("h#")), None))
    w = lets.get(next((k for k in lets if k.startswith("w#")), None))
    need(h is not None and w is not None, r, fn, "(h, w)")
    Hh = {("H",): 1, (): 2, ("EH",): 2}
    Ww = {("W",): 1, (): 2, ("EV",): 2}
    ob("height", P(h) == Hh, "bitmap height = content height + 2 + 2 * extra horizontal alignments", T.sx_show(h))
    ob("width", P(w) == Ww, "bitmap width = content width + 2 + 2 * extra vertical alignments", T.sx_show(w))
    # region sizes: (h - 2*(eh+1)) / (eh+1)
    for nm, tot, ex, cont in (("blk_h", Hh, "EH", "H"), ("blk_w", Ww, "EV", "W")):
        e = lets.get(next((k for k in lets if k.startswith(nm + "#")), None))
        ok = e is not None and e[0] == "bin" and e[1] == "Div" and P(e[2]) == {(cont,): 1} and P(e[3]) == {(ex,): 1, (): 1}
        ob(nm, ok, "%s = content size / number of regions" % nm, T.sx_show(e) if e else None)
    # idx closure: i*w + j ; result Bitmap { width: w, bits }
    cl = [n for n in f.thir if n.startswith(fn + "::{closure#0}")]
    ok = False
    if cl:
        ce = T.sx(f.thir[cl[0]]["body"], {})
        def at(x):
            if x[0] == "var" and x[1] in ("i", "j"):
                return x[1].upper()
            if x[0] == "var" and x[1] == "w":
                return "w"
            return None
        ok = T.poly(ce, at) == {("I", "w"): 1, ("J",): 1}
    ob("index", ok, "pixel (i, j) is stored at i * w + j (row-major)")
    res = sts[-1]
    ok = res[0] == "expr" and res[1][0] == "adt" and res[1][1].endswith("Bitmap") and dict(res[1][3]).get("width", ("x",))[:2] == ("var", "w")
    ob("result", ok, "the Bitmap carries width w")
    # helper: stores grouped by enclosing loops
    guards = {}      # id(store) -> {loop variable: (modulus, residue)} from enclosing `if v % m == c` statements

    def parity_guard(c):
        if c[0] == "bin" and c[1] == "Eq" and c[3][0] == "lit" and c[2][0] == "bin" and c[2][1] == "Rem" and c[2][2][0] == "var" and c[2][3][0] == "lit":
            return c[2][2][1], (c[2][3][1], c[3][1])
        return None

    def loops_of(stl, ctxs=(), g=()):
        for s in stl:
            if s[0] == "for":
                yield from loops_of(s[3], ctxs + (s,), g)
            elif s[0] == "if" and isinstance(s[1], tuple) and parity_guard(s[1]) and not s[3]:
                yield from loops_of(s[2], ctxs, g + (parity_guard(s[1]),))
            elif s[0] == "assign":
                guards[id(s)] = dict(g)
                yield ctxs, s

    def rng(s):
        """(start poly, end poly, step) of `for v in a..b` / `(a..b).step_by(k)`"""
        it = strip_into_iter(s[2])
        step = 1
        if it[0] == "call" and it[1].endswith("Iterator::step_by"):
            step = it[2][1][1] if it[2][1][0] == "lit" else None
            it = strip_into_iter(it[2][0])
        rg = adt_fields(it, "core::ops::Range")
        if not rg:
            return None
        return (P(rg["start"]), P(rg["end"]), step)

    def store_pos(a):
        c = [x for x in T.sx_walk(a[1]) if x[0] == "call" and "{closure#0}" in x[1]]
        if not c:
            return None
        tup = c[0][2][1]
        return (P(tup[1][0]), P(tup[1][1])) if tup[0] == "tuple" else None
    stores = list(loops_of(sts))
    RB = {(): 1, ("BH", "I"): 1, ("I",): 2, ("BH",): 1}       # rows_before(i) = 1 + (blk_h+2)*i + blk_h
    CB = {(): 1, ("BW", "J"): 1, ("J",): 2, ("BW",): 1}
    FULLW = ({}, Ww, 1)
    found = set()
    for ctxs, a in stores:
        if not (a[2][0] == "const" and a[2][1].endswith("Bit::HIGH")):
            continue
        pos = store_pos(a)
        if pos is None:
            continue
        rs = [rng(c) for c in ctxs]
        vars_ = [c[1][0].split("#")[0] for c in ctxs]
        # `for v in a..b { if v % m == c { store } }` is the stepped range starting at the first v >= a with v % m == c
        for k, v in enumerate(vars_):
            gd = guards.get(id(a), {}).get(v)
            if gd and rs[k] and rs[k][2] == 1 and set(rs[k][0]) <= {()}:
                lo = rs[k][0].get((), 0)
                lo2 = lo + ((gd[1] - lo) % gd[0])
                rs[k] = ({(): lo2} if lo2 else {}, rs[k][1], gd[0])
        row, col = pos
        inner = rs[-1]
        # interior horizontal bars
        if len(ctxs) == 2 and vars_ == ["i", "j"] and rs[0] == ({}, {("EH",): 1}, 1):
            if row == RB and col == {("J",): 1} and inner == ({}, Ww, 1):
                found.add("hbar-solid")
            RB1 = dict(RB); RB1[()] = 2
            if row == RB1 and col == {("J",): 1} and inner == ({}, Ww, 2):
                found.add("hbar-clock")
        if len(ctxs) == 2 and vars_ == ["j", "i"] and rs[0] == ({}, {("EV",): 1}, 1):
            CB1 = dict(CB); CB1[()] = 2
            if col == CB1 and row == {("I",): 1} and inner == ({(): 1}, Hh, 1):
                found.add("vbar-solid")
            if col == CB and row == {("I",): 1} and inner == ({(): 1}, Hh, 2):
                found.add("vbar-clock")
        if len(ctxs) == 1:
            Hm1 = dict(Hh); Hm1[()] = 1
            Wm1 = dict(Ww); Wm1[()] = 1
            if vars_ == ["j"] and row == Hm1 and col == {("J",): 1} and inner == ({}, Ww, 1):
                found.add("bottom-solid")
            if vars_ == ["j"] and row == {} and col == {("J",): 1} and inner == ({}, Ww, 2):
                found.add("top-clock")
            if vars_ == ["i"] and col == {} and row == {("I",): 1} and inner == ({}, Hh, 1):
                found.add("left-solid")
            if vars_ == ["i"] and col == Wm1 and row == {("I",): 1} and inner == ({(): 1}, Hh, 2):
                found.add("right-clock")
    names = {"hbar-solid": "every interior horizontal bar: solid row at 1 + (blk_h+2)*i + blk_h over the full width",
             "hbar-clock": "followed by a clock row (every second module from column 0)",
             "vbar-clock": "every interior vertical bar: clock column at 1 + (blk_w+2)*j + blk_w on odd rows",
             "vbar-solid": "followed by a solid column (rows 1..h)",
             "bottom-solid": "solid bottom row h-1", "top-clock": "clock top row (even columns)", "left-solid": "solid left column",
             "right-clock": "clock right column (odd rows)"}
    high_stores = [1 for ctxs, a in stores if a[2][0] == "const" and a[2][1].endswith("Bit::HIGH")]
    shape_ok = all(k in found for k in names) and len(high_stores) == 8
    exec_ok = exec_det = None
    if not shape_ok or ctx.tier == "thorough":
        # the pattern stores are not (all) in a recognised indexed-store shape - or this is the thorough tier: bitmap() is
        # rendered symbolically for all 48 sizes instead (one run per size decides every content)
        exec_ok, exec_det = render_exec(ctx)
        ob("draw:exec", exec_ok, "bitmap() rendered symbolically for every symbol size: " + str(exec_det))
    for k, wtxt in names.items():
        ob("draw:" + k, k in found or bool(exec_ok), "bitmap() draws " + wtxt + ("" if k in found else " (store shape not recognised; decided by the symbolic rendering)"))
    ob("draw:count", len(high_stores) == 8 or bool(exec_ok), "bitmap() has exactly these eight pattern stores (%d found%s)" % (len(high_stores), "" if len(high_stores) == 8 else "; decided by the symbolic rendering"))
    # data copy
    copy = [s for s in sts if s[0] == "for" and any(x[0] == "field" and x[2] == "entries" for x in T.sx_walk(s[2]))]
    ok = False
    det = None
    if len(copy) == 1:
        body = copy[0][3]
        BI = copy[0][1][0].split("#")[0] if len(copy[0][1]) == 2 and T.sx_calls(copy[0][2], "Iterator::enumerate") else None   # the index of `.enumerate()`
        li = [s for s in body if s[0] == "let" and s[2]]
        ao = [s for s in body if s[0] == "assignop" and s[1] == "AddAssign"]
        st = [s for s in body if s[0] == "assign"]
        if len(li) == 2 and len(ao) == 2 and len(st) == 1:
            def shape(letv, add, dim, blk):
                name = letv[1].split("#")[0]
                e = letv[3]
                base_ok = e[0] == "bin" and e[1] == ("Div" if dim == "row" else "Rem") and BI is not None and is_var(e[2], BI) and _self_field(e[3], "width")
                a = add[3]
                # 1 + (v / blk) * 2
                add_ok = is_var(add[2], name) and a[0] == "bin" and a[1] == "Add" and ("lit", 1) in (a[2], a[3])
                other = a[3] if a[2] == ("lit", 1) else a[2]
                add_ok = add_ok and other[0] == "bin" and other[1] == "Mul" and ("lit", 2) in (other[2], other[3])
                q = other[2] if other[3] == ("lit", 2) else other[3]
                add_ok = add_ok and q[0] == "bin" and q[1] == "Div" and is_var(q[2], name) and is_var(q[3], blk)
                return base_ok and add_ok, name
            r1, n1 = shape(li[0], ao[0], "row", "blk_h")
            r2, n2 = shape(li[1], ao[1], "col", "blk_w")
            pos = [x for x in T.sx_walk(st[0][1]) if x[0] == "call" and "{closure#0}" in x[1]]
            ok = r1 and r2 and bool(pos) and pos[0][2][1][0] == "tuple" and is_var(pos[0][2][1][1][0], n1) and is_var(pos[0][2][1][1][1], n2) and st[0][2][0] in ("var",) 
            det = [T.sx_show(x[3], 80) for x in li + ao]
    ob("data-copy", ok, "content module b_i goes to row b_i / width, column b_i % width, each shifted by 1 + 2 * (index / region size)", det)
    obs += floor(obs, r, 16, "renderer geometry obligations")
    return obs


# ---- RENDER-GEOM by symbolic execution (fallback when the store shapes are not recognised) --------------------------

def render_exec(ctx, sizes=None):
    """bitmap() folded for every symbol size with opaque content modules e0, e1, ..: the resulting pixel vector must be the
    ISO finder / alignment geometry (solid left and bottom bar and clock top and right track of every region) around the
    content modules in row-major order.  The function does not branch on module values, so one run per size decides all
    contents of that size.  Returns (ok, detail)."""
    if sizes is None and getattr(ctx, "_render_exec", None) is not None:
        return ctx._render_exec
    if sizes is None:
        res = ctx.memo("render_exec", lambda: list(_render_exec(ctx, None)))
        ctx._render_exec = res
        return res
    return _render_exec(ctx, sizes)


def _render_exec(ctx, sizes=None):
    f = ctx.facts()
    fn = "placement::MatrixMap::<M>::bitmap"
    b = f.thir.get(fn)
    if b is None:
        return False, "bitmap() not found"
    from . import p_symbols
    t = p_symbols.tables(ctx)
    selfn = b["params"][0]["pat"]["name"]
    n = 0
    for v in (sizes or t["variants"]):
        su = t["setup"].get(v)
        if not isinstance(su, dict):
            return False, "no block setup for %s" % v
        ev, eh = su["extra_vertical_alignments"], su["extra_horizontal_alignments"]
        cw = su["width"] - 2 - 2 * ev
        ch = su["height"] - 2 - 2 * eh
        me = {"__adt__": "placement::MatrixMap", "__variant__": "MatrixMap"}
        fields = [("entries", [T.Token("e%d" % k) for k in range(cw * ch)]), ("width", cw), ("height", ch),
                  ("extra_vertical_alignments", ev), ("extra_horizontal_alignments", eh), ("has_padding", bool(t["padding"].get(v)))]
        for i, (k, val) in enumerate(fields):
            me[k] = val
            me["#%d" % i] = val
        fo = T.Folder(f, env={selfn: me}, effects=True, local_calls=2)
        fo.views = True
        fo.opaque_consts = True
        fo.max_iter = 40000
        try:
            res = fo.run(b["body"])
        except T.Trap as ex:
            return False, "%s: bitmap() traps: %s" % (v, ex)
        except T.Undecidable as ex:
            return False, "%s: bitmap() does not fold: %s" % (v, ex)
        if not (isinstance(res, dict) and isinstance(res.get("bits"), list)):
            return False, "%s: bitmap() does not return a Bitmap value" % v
        W, H = su["width"], su["height"]
        bits = [x.load() if isinstance(x, T.Ref) else x for x in res["bits"]]
        if res.get("width") != W or len(bits) != W * H:
            return False, "%s: bitmap is %s wide with %d pixels, expected %d x %d" % (v, res.get("width"), len(bits), W, H)
        bh, bw = ch // (eh + 1), cw // (ev + 1)
        for r in range(H):
            lr = r % (bh + 2)
            for c in range(W):
                lc = c % (bw + 2)
                if lc == 0 or lr == bh + 1:
                    want = "HIGH"
                elif lr == 0:
                    want = "HIGH" if c % 2 == 0 else "LOW"
                elif lc == bw + 1:
                    want = "HIGH" if r % 2 == 1 else "LOW"
                else:
                    want = "e%d" % ((r - 1 - 2 * (r // (bh + 2))) * cw + (c - 1 - 2 * (c // (bw + 2))))
                got = bits[r * W + c]
                if str(got) != want:
                    return False, "%s: pixel (%d, %d) is %s, the symbol geometry says %s" % (v, r, c, got, want)
        n += 1
    return True, "%d symbol sizes rendered symbolically: every finder / alignment / content pixel in place" % n


# ---- PARSE-INV: try_from_bits folded on a fully opaque pixel array --------------------------------------------------------

def geometry(su, padding):
    """the symbol geometry of ISO/IEC 16022 5.3 for one block setup: (W, H, cw, ch, {pixel index: "HIGH"|"LOW"} for every finder,
    clock, alignment and fixed-corner module, [pixel index of content module k])"""
    ev, eh = su["extra_vertical_alignments"], su["extra_horizontal_alignments"]
    W, H = su["width"], su["height"]
    cw, ch = W - 2 - 2 * ev, H - 2 - 2 * eh
    bh, bw = ch // (eh + 1), cw // (ev + 1)
    fixed, content = {}, [None] * (cw * ch)
    for r in range(H):
        lr = r % (bh + 2)
        for c in range(W):
            lc = c % (bw + 2)
            if lc == 0 or lr == bh + 1:
                fixed[r * W + c] = "HIGH"
            elif lr == 0:
                fixed[r * W + c] = "HIGH" if c % 2 == 0 else "LOW"
            elif lc == bw + 1:
                fixed[r * W + c] = "HIGH" if r % 2 == 1 else "LOW"
            else:
                content[(r - 1 - 2 * (r // (bh + 2))) * cw + (c - 1 - 2 * (c // (bw + 2)))] = r * W + c
    if padding:
        # 5.8.1 / Annex F: the lower right 2x2 corner of the mapping matrix carries the fixed pattern
        for (dr, dc), v in {(ch - 2, cw - 2): "HIGH", (ch - 2, cw - 1): "LOW", (ch - 1, cw - 2): "LOW", (ch - 1, cw - 1): "HIGH"}.items():
            fixed[content[dr * cw + dc]] = v
    return W, H, cw, ch, fixed, content


def parse_exec(ctx, sizes=None):
    """try_from_bits folded for a symbol size on a pixel array of W x H opaque pixels p0, p1, ..: every test of a pixel against
    LOW / HIGH becomes a symbolic boolean; a branch on such a boolean is followed only when its other side is nothing but
    `return Err(..)`, and the condition for getting past is recorded.  For the array to be accepted those conditions must
    hold: they have to be exactly `pixel i == the geometry's value` for every finder, clock, alignment and fixed-corner module
    (so a deviation in any of them is rejected, and acceptance depends on nothing else), the returned content has to be the
    remaining pixels in row-major order, the size the one with these dimensions, and the map's fields that size's.
    Together with RENDER-GEOM (bitmap() draws exactly that geometry around the content, all sizes) this decides both directions of
    the inverse property for the sizes folded.  Returns (ok | None, detail)."""
    key = "parse_exec_" + ("all" if sizes is None else "%d" % len(sizes))
    return ctx.memo(key, lambda: list(_parse_exec(ctx, sizes)))


def _parse_exec(ctx, sizes):
    f = ctx.facts()
    b = f.thir.get(FN)
    if b is None:
        return None, "try_from_bits not found"
    from . import p_symbols
    t = p_symbols.tables(ctx)
    pn = [p_["pat"]["name"] for p_ in b["params"] if p_.get("pat", {}).get("k") == "Bind"]
    if len(pn) != 2:
        return None, "try_from_bits(bits, width): unexpected parameters"
    catalogue = [{"__adt__": SS, "__variant__": v} for v in t["variants"]]
    n = 0
    over = None
    n_tests = 0
    for v in (sizes or t["variants"]):
        su = t["setup"].get(v)
        if not isinstance(su, dict):
            return None, "no block setup for %s" % v
        W, H, cw, ch, fixed, content = geometry(su, bool(t["padding"].get(v)))
        bits = [T.Token("p%d" % i) for i in range(W * H)]

        def on_call(folder, c):
            cc = T.canon(T.callee_of(c))
            if cc.endswith("SymbolList::all"):
                return list(catalogue)
            return NotImplemented
        fo = T.Folder(f, env={pn[0]: bits, pn[1]: W}, on_call=on_call, effects=True, local_calls=3)
        fo.const_values = {"HIGH": True, "LOW": False}       # M = bool, the crate's only Bit implementation
        fo.max_iter = 40000
        fo.sym_eq = lambda a_, b_: isinstance(a_, T.Token) != isinstance(b_, T.Token) and (isinstance(a_, bool) or isinstance(b_, bool))
        try:
            res = fo.run(b["body"])
        except T.Trap as ex:
            return False, "%s: try_from_bits can trap on a %d x %d array: %s" % (v, W, H, ex)
        except T.Undecidable as ex:
            return None, "%s: try_from_bits does not fold (%s)" % (v, ex)
        if not (isinstance(res, dict) and res.get("__variant__") == "Ok"):
            return False, "%s: no %d x %d array is accepted (result %s)" % (v, W, H, (res or {}).get("__variant__") if isinstance(res, dict) else res)
        val = res.get("#0")
        if not (isinstance(val, (list, tuple)) and len(val) == 2 and isinstance(val[0], dict)):
            return None, "%s: unexpected result shape" % v
        mm, sz = val
        req = {}
        try:
            for cond, _err in fo.path:
                if isinstance(cond, T.Sym):
                    for a_, b_ in T.sym_required(cond.f):
                        pix, cst = (a_, b_) if isinstance(a_, T.Token) else (b_, a_)
                        i = int(str(pix)[1:])
                        cst = "HIGH" if cst is True else "LOW"
                        if i in req and req[i] != cst:
                            return False, "%s: pixel %d must be both %s and %s - no array is accepted" % (v, i, req[i], cst)
                        req[i] = cst
                        n_tests += 1
                elif cond is False:
                    return False, "%s: the accepting path is infeasible" % v
        except T.Undecidable as ex:
            return False, "%s: acceptance is not a conjunction of pixel tests (%s): some array is accepted whose finder or alignment modules deviate" % (v, ex)
        miss = sorted(set(fixed) - set(req))
        extra = sorted(set(req) - set(fixed))
        wrong = sorted(i for i in req if i in fixed and req[i] != fixed[i])
        if miss and over is None:
            # accepts too much: recorded, the remaining judgements (which concern arrays that ARE renderings) go on
            over = "%s: pixel (%d, %d), a fixed %s module, is not tested: an array deviating there is accepted (%d untested)" % (v, miss[0] // W, miss[0] % W, fixed[miss[0]], len(miss))
        if wrong:
            return False, "%s: pixel (%d, %d) must be %s to be accepted, the geometry says %s" % (v, wrong[0] // W, wrong[0] % W, req[wrong[0]], fixed[wrong[0]])
        if extra:
            return False, "%s: content pixel (%d, %d) is required to be %s" % (v, extra[0] // W, extra[0] % W, req[extra[0]])
        ent = [x.load() if isinstance(x, T.Ref) else x for x in (mm.get("entries") or [])]
        want = ["p%d" % i for i in content]
        if [str(x) for x in ent] != want:
            k = next((k for k in range(min(len(ent), len(want))) if str(ent[k]) != want[k]), min(len(ent), len(want)))
            return False, "%s: the parsed content has %d modules (expected %d); module %d is %s, expected pixel %s" % (v, len(ent), len(want), k, ent[k] if k < len(ent) else None, want[k] if k < len(want) else None)
        got = (mm.get("width"), mm.get("height"), mm.get("extra_vertical_alignments"), mm.get("extra_horizontal_alignments"), mm.get("has_padding"),
               sz.get("__variant__") if isinstance(sz, dict) else (sz.load().get("__variant__") if isinstance(sz, T.Ref) else sz))
        exp = (cw, ch, su["extra_vertical_alignments"], su["extra_horizontal_alignments"], bool(t["padding"].get(v)), v)
        if got != exp:
            return False, "%s: map fields / size are %r, expected %r" % (v, got, exp)
        n += 1
    if over is not None:
        return False, OVER + over
    return True, "%d symbol sizes: an array is accepted iff all %d fixed modules have the geometry's value; the content is the remaining pixels in order" % (n, n_tests)


OVER = "over-acceptance: "


def parse_accepts(ctx):
    """PARSE-ACC: the half of PARSE-INV the round trip needs: every rendering is accepted (no fixed module is required to have
    another value than the geometry's, no content pixel is constrained), nothing traps, and the parsed content is the content
    pixels in order with the right size.  That arrays which are not renderings are refused is not judged here."""
    r = "PARSE-ACC"
    f = ctx.facts()
    ok, det = parse_exec(ctx)
    site = T.span_str(f.thir[FN]["span"]) if FN in f.thir else None
    if ok is None:
        return [Ob(r, "accepts-renderings", False, "cannot decide: " + str(det), site=site)]
    if ok is False and str(det).startswith(OVER):
        return [Ob(r, "accepts-renderings", True, "every rendering is accepted and parsed to its content (not judged here: " + str(det)[len(OVER):] + ")", site=site)]
    return [Ob(r, "accepts-renderings", bool(ok), str(det), site=site)]


def parse_inv(ctx):
    """PARSE-INV (see parse_exec)"""
    r = "PARSE-INV"
    f = ctx.facts()
    ok, det = parse_exec(ctx)
    site = T.span_str(f.thir[FN]["span"]) if FN in f.thir else None
    if ok is None:
        return [Ob(r, "accept-iff-geometry", False, "cannot decide: " + str(det), site=site)]
    return [Ob(r, "accept-iff-geometry", bool(ok), str(det), site=site)]


def _map_new_exec(ctx):
    """MatrixMap::new(size) folded for every size (M = bool): (ok | None, text | (field, text))"""
    f = ctx.facts()
    fn = "placement::MatrixMap::<M>::new"
    b = f.thir[fn]
    from . import p_symbols
    t = p_symbols.tables(ctx)
    pn = [p_["pat"]["name"] for p_ in b["params"] if p_.get("pat", {}).get("k") == "Bind"]
    if len(pn) != 1:
        return None, "new(size): unexpected parameters"
    for v in t["variants"]:
        su = t["setup"].get(v)
        if not isinstance(su, dict):
            return None, "no block setup for %s" % v
        ev, eh = su["extra_vertical_alignments"], su["extra_horizontal_alignments"]
        cw, ch = su["width"] - 2 - 2 * ev, su["height"] - 2 - 2 * eh
        fo = T.Folder(f, env={pn[0]: {"__adt__": SS, "__variant__": v}}, effects=True, local_calls=3)
        fo.const_values = {"HIGH": True, "LOW": False}
        fo.sym_eq = lambda a_, b_: False
        try:
            mm = fo.run(b["body"])
        except T.Trap as ex:
            return False, (None, "%s: new() traps: %s" % (v, ex))
        except T.Undecidable as ex:
            return None, "%s: new() does not fold (%s)" % (v, ex)
        if not isinstance(mm, dict):
            return None, "%s: new() does not return a map" % v
        exp = {"width": cw, "height": ch, "extra_vertical_alignments": ev, "extra_horizontal_alignments": eh, "has_padding": bool(t["padding"].get(v))}
        for k, w in exp.items():
            if mm.get(k) != w:
                return False, (k, "%s: new() sets %s = %r, the size's value is %r" % (v, k, mm.get(k), w))
        ent = mm.get("entries")
        if not (isinstance(ent, list) and len(ent) == cw * ch and all(x is False for x in ent)):
            return False, ("width", "%s: new() allocates %s entries, expected %d LOW modules" % (v, len(ent) if isinstance(ent, list) else ent, cw * ch))
    return True, "%d symbol sizes folded" % len(t["variants"])


def _lookup_exec(ctx):
    """try_from_bits folded on W x H arrays of one opaque pixel value for every (W, H) of a grid: all catalogue widths / heights and
    their neighbours, small and oversized values.  Err(SymbolSize) must come back exactly for the pairs that are no catalogue size."""
    f = ctx.facts()
    b = f.thir.get(FN)
    from . import p_symbols
    t = p_symbols.tables(ctx)
    pn = [p_["pat"]["name"] for p_ in b["params"] if p_.get("pat", {}).get("k") == "Bind"]
    if len(pn) != 2:
        return None, "try_from_bits(bits, width): unexpected parameters"
    catalogue = [{"__adt__": SS, "__variant__": v} for v in t["variants"]]
    dims = {(t["setup"][v]["width"], t["setup"][v]["height"]) for v in t["variants"]}
    ws = sorted({x + d for x, _y in dims for d in (-1, 0, 1)} | {1, 2, 3, 5, 150, 200})
    hs = sorted({y + d for _x, y in dims for d in (-1, 0, 1)} | {1, 2, 3, 5, 150, 200})
    pix = T.Token("p0")
    n = 0

    def on_call(folder, c):
        cc = T.canon(T.callee_of(c))
        if cc.endswith("SymbolList::all"):
            return list(catalogue)
        if cc.endswith("SymbolSize::block_setup") and len(c["args"]) == 1:
            v = folder.fold(c["args"][0])
            v = v.load() if isinstance(v, T.Ref) else v
            if isinstance(v, dict) and v.get("__variant__") in t["setup"]:
                return t["setup"][v["__variant__"]]
        return NotImplemented
    for W in ws:
        for H in hs:
            if W <= 0 or H <= 0:
                continue
            fo = T.Folder(f, env={pn[0]: [pix] * (W * H), pn[1]: W}, on_call=on_call, effects=True, local_calls=3)
            fo.const_values = {"HIGH": True, "LOW": False}
            fo.max_iter = 40000
            fo.sym_eq = lambda a_, b_: isinstance(a_, T.Token) != isinstance(b_, T.Token)
            try:
                res = fo.run(b["body"])
            except T.Trap as ex:
                return False, "a %d x %d array traps: %s" % (W, H, ex)
            except T.Undecidable as ex:
                return None, "try_from_bits does not fold on a %d x %d array (%s)" % (W, H, ex)
            err = res.get("#0") if isinstance(res, dict) and res.get("__variant__") == "Err" else None
            is_ss = isinstance(err, dict) and err.get("__variant__") == "SymbolSize"
            if is_ss != ((W, H) not in dims):
                return False, "a %d x %d array %s" % (W, H, "is refused with SymbolSize although the catalogue has that size" if is_ss else "is not refused with SymbolSize although no catalogue size has these dimensions (result: %s)" % (
                    (err or {}).get("__variant__") if isinstance(err, dict) else (res.get("__variant__") if isinstance(res, dict) else res)))
            n += 1
    return True, "%d (width, height) pairs folded" % n
