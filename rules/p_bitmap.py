"""Bitmap parsing rules (C08): DOM-BITMAP (rejection clause), ALIGN-COVER (which modules the finder checks read)."""
from .core import Ob, need, floor
from . import mirlib as M
from . import thirlib as T
from .p_modes import find_body, agg_sites
from .p_rs import is_var, adt_fields, strip_into_iter, SS

BCE = "placement::BitmapConversionError"
FN = "placement::MatrixMap::<M>::try_from_bits"


def dom_bitmap(ctx):
    r = "DOM-BITMAP"
    f = ctx.facts()
    obs = []
    vs = f.enum_variants(BCE)
    obs.append(Ob(r, "variants", vs is not None and sorted(vs) == ["Alignment", "DataSize", "Padding", "SymbolSize", "ZeroWidth"], "BitmapConversionError has exactly the five documented variants", detail=vs))
    body = find_body(f, "MatrixMap::try_from_bits", r)
    sites = {}
    for b, i, v, st in agg_sites(body, BCE):
        sites.setdefault(v, []).append((b, st))
    # width == 0 test
    zedges = []
    for b in range(body.n):
        sw = body.switch_on(b)
        if sw and sw[0][0] == "bin" and sw[0][1] == "Eq" and sw[0][2][0] in ("arg", "var") and sw[0][2][1] == "width" and sw[0][3][:2] == ("const", 0) and 0 in sw[1]:
            zedges.append(((b, sw[2]), (b, sw[1][0])))
    need(zedges, r, "try_from_bits", "(width == 0 test)")
    zt, zf = zedges[0]
    zs = sites.get("ZeroWidth", [])
    ok = len(zs) == 1 and body.dominated_by_edge(zs[0][0], zt)
    # and it is the only thing on that edge: no call before return
    seen = body.reachable(zt[1])
    ok = ok and not any(body.term(x)["k"] == "Call" and not body.blocks[x]["cleanup"] for x in seen)
    # the test is the first branch of the function
    first = body.reachable(0, removed_edges=[zt, zf])
    ok = ok and not any(body.term(x)["k"] in ("Call", "Assert") for x in first)
    obs.append(Ob(r, "zero-width", ok, "ZeroWidth is returned exactly on the true edge of `width == 0`, which is the first thing tested", site=M.fmt_span(zs[0][1]["span"]) if zs else None))
    # every division / remainder by width lies on the false edge
    divs = []
    for b, blk in enumerate(body.blocks):
        t = blk["term"]
        if t["k"] == "Assert" and t["msg"] in ("DivisionByZero", "RemainderByZero"):
            divs.append((b, M.fmt_span(t["span"])))
        for st in blk["stmts"]:
            if st["k"] == "Assign" and st["rv"]["k"] == "BinaryOp" and st["rv"]["op"] in ("Div", "Rem"):
                d = body.expr_of_operand(st["rv"]["b"])
                if d[0] in ("arg", "var") and d[1] == "width":
                    divs.append((b, M.fmt_span(st["span"])))
    bad = [s for b, s in divs if not body.dominated_by_edge(b, zf)]
    obs.append(Ob(r, "div-guard", bool(divs) and not bad, "every division/remainder by `width` is dominated by the false edge of `width == 0` (%d sites)" % len(divs), detail=bad))
    # DataSize
    dedges = []
    for b in range(body.n):
        sw = body.switch_on(b)
        if sw and sw[0][0] == "bin" and sw[0][1] == "Ne" and sw[0][3][:2] == ("const", 0) and 0 in sw[1]:
            l = sw[0][2]
            if l[0] == "bin" and l[1] == "Rem" and l[3][0] in ("arg", "var") and l[3][1] == "width" and any(isinstance(x, tuple) and x[0] == "call" and x[1].endswith("::len") for x in M.walk(l[2])):
                dedges.append(((b, sw[2]), (b, sw[1][0])))
    ds = sites.get("DataSize", [])
    ok = len(dedges) == 1 and len(ds) == 1 and body.dominated_by_edge(ds[0][0], dedges[0][0])
    others = [b for v, lst in sites.items() if v not in ("ZeroWidth", "DataSize") for b, _s in lst]
    ok = ok and all(body.dominated_by_edge(b, dedges[0][1]) for b in others) if dedges else False
    obs.append(Ob(r, "data-size", ok, "DataSize is returned exactly when bits.len() % width != 0; every later check lies on the false edge", site=M.fmt_span(ds[0][1]["span"]) if ds else None))
    # SymbolSize: the failed catalogue lookup
    fn = FN
    need(fn in f.thir, r, fn)
    sts = T.stmts(f.thir[fn]["body"], {"__noinline__": True})
    lk = [s for s in sts if s[0] == "let" and T.sx_calls(s[3], "Iterator::find") and any(x[0] == "adt" and x[2] == "SymbolSize" and x[1] == BCE for x in T.sx_walk(s[3]))]
    ok = len(lk) == 1 and len(sites.get("SymbolSize", [])) == 1
    det = None
    if ok:
        e = lk[0][3]
        fd = T.sx_calls(e, "Iterator::find")[0]
        src = fd[2][0]
        ok = any(x[0] == "call" and x[1] == "symbol_size::SymbolList::all" for x in T.sx_walk(src)) and fd[2][1][0] == "closure" and e[0] == "try" \
            and e[1][0] == "call" and e[1][1].endswith("Option::ok_or")
        if ok:
            cb = f.thir[fd[2][1][1]]
            ce = T.sx(cb["body"], T.let_env(cb["body"]))
            det = T.sx_show(ce, 300)

            def fld_eq(x, field, var):
                if x[0] != "bin" or x[1] != "Eq":
                    return False
                a, b2 = x[2], x[3]
                def is_f(y):
                    return y[0] == "field" and y[2] == field and y[1][0] == "call" and y[1][1] == SS + "::block_setup"
                return (is_f(a) and is_var(b2, var)) or (is_f(b2) and is_var(a, var))
            ok = ce[0] == "logic" and ce[1] == "And" and ((fld_eq(ce[2], "width", "width") and fld_eq(ce[3], "height", "height")) or (fld_eq(ce[3], "width", "width") and fld_eq(ce[2], "height", "height")))
    hl = [s for s in sts if s[0] == "let" and s[1].startswith("height#")]
    okh = len(hl) == 1 and hl[0][3][0] == "bin" and hl[0][3][1] == "Div" and is_var(hl[0][3][3], "width") and hl[0][3][2][0] == "call" and hl[0][3][2][1].endswith("::len") and is_var(hl[0][3][2][2][0], "bits")
    obs.append(Ob(r, "symbol-size", ok and okh, "SymbolSize is returned exactly when no catalogue entry has block_setup().width == width and .height == bits.len() / width", detail=det))
    obs += floor(obs, r, 5, "rejection obligations")
    return obs


def align_cover(ctx):
    r = "ALIGN-COVER"
    f = ctx.facts()
    need(FN in f.thir, r, FN)
    sts = T.stmts(f.thir[FN]["body"], {"__noinline__": True})
    obs = []
    lets = {}

    def collect(stl):
        for s in T.stmt_walk(stl):
            if s[0] == "let" and not s[2]:
                lets[s[1]] = s[3]
            elif s[0] == "letpat" and s[2] is not None and s[2][0] == "tuple" and len(s[1]) == len(s[2][1]):
                p = s[4]
                if p.get("k") == "Leaf" and all(fp["pat"].get("k") == "Bind" and not T.is_mut_binding(fp["pat"]) for fp in p["fields"]):
                    for fp in p["fields"]:
                        lets[fp["pat"]["name"]] = s[2][1][fp["f"]]
    collect(sts)

    def expand(e, d=8):
        if not isinstance(e, tuple) or d == 0:
            return e
        if e[0] == "var" and len(e) > 2 and e[2] in lets and e[1] not in ("width", "bits", "size"):
            return expand(lets[e[2]], d - 1)
        if e[0] == "bin":
            return ("bin", e[1], expand(e[2], d - 1), expand(e[3], d - 1))
        if e[0] == "call":
            return ("call", e[1], tuple(expand(a, d - 1) for a in e[2]))
        if e[0] == "field":
            return ("field", expand(e[1], d - 1), e[2])
        if e[0] == "adt":
            return ("adt", e[1], e[2], tuple((k, expand(v, d - 1)) for k, v in e[3]))
        return e

    def setup_field(x, name):
        x = expand(x)
        return x[0] == "field" and x[2] == name and x[1][0] == "call" and x[1][1] == SS + "::block_setup" and is_var(x[1][2][0], "size")

    def is_blk(x, dim):
        """content_<dim>(setup) / (extra_* + 1)"""
        x = expand(x)
        content = "content_height" if dim == "h" else "content_width"
        extra = "extra_horizontal_alignments" if dim == "h" else "extra_vertical_alignments"
        return x[0] == "bin" and x[1] == "Div" and x[2][0] == "call" and x[2][1].endswith("BlockSetup::" + content) and \
            x[3][0] == "bin" and x[3][1] == "Add" and setup_field(x[3][2], extra) and x[3][3] == ("lit", 1)

    def atom(x):
        if is_var(x, "width"):
            return "W"
        if is_blk(x, "h"):
            return "BH"
        if is_blk(x, "w"):
            return "BW"
        if x[0] == "var" and len(x) > 2 and x[2] in lets and x[1] not in ("width", "bits", "size"):
            return None
        return None

    def P(x):
        return T.poly(_full(x), atom)

    def _full(x, d=8):
        """expand let-bound names except where they already are a recognised atom"""
        if not isinstance(x, tuple) or d == 0:
            return x
        if atom(x) is not None:
            return x
        if x[0] == "var" and len(x) > 2 and x[2] in lets:
            return _full(lets[x[2]], d - 1)
        if x[0] == "bin":
            return ("bin", x[1], _full(x[2], d - 1), _full(x[3], d - 1))
        if x[0] == "cast":
            return ("cast", _full(x[1], d - 1), x[2])
        return x

    BAND = {("BH", "W"): 1, ("W",): 2}          # (BH + 2) * W
    LASTROW = {("BH", "W"): 1, ("W",): 1}       # (BH + 1) * W
    WIDTH = {("W",): 1}
    PIECE = {("BW",): 1, (): 2}                 # BW + 2
    LASTCOL = {("BW",): 1, (): 1}               # BW + 1

    outer = [s for s in sts if s[0] == "for" and T.sx_calls(s[2], "slice::chunks")]
    need(len(outer) == 1, r, FN, "(loop over region rows)")
    oc = T.sx_calls(outer[0][2], "slice::chunks")[0]
    ok = is_var(oc[2][0], "bits") and P(oc[2][1]) == BAND
    obs.append(Ob(r, "row-bands", ok, "the pixels are cut into bands of (region height + 2) * width", site=outer[0][4], detail=T.sx_show(oc[2][1])))
    band = outer[0][1][0].split("#")[0]
    inner = outer[0][3]
    il = {s[1].split("#")[0]: s[3] for s in inner if s[0] == "let"}
    collect(inner)
    # which slices feed the two `all` checks
    al = [s for s in inner if s[0] == "let" and s[3][0] == "logic" and len(T.sx_calls(s[3], "::all")) == 2]
    need(len(al) == 1, r, FN, "(band alignment test)")
    alls = T.sx_calls(al[0][3], "::all")

    def src_of(call):
        x = call[2][0]
        while x[0] == "call" and (x[1].endswith("::iter") or x[1].endswith("Iterator::zip") or x[1].endswith("into_iter")):
            x = x[2][0]
        if x[0] == "var" and x[1] in il:
            return il[x[1]]
        return x
    srcs = [src_of(c) for c in alls]
    top = bot = None
    for s, c in zip(srcs, alls):
        if T.sx_calls(c, "Iterator::zip") or T.sx_calls(c, "Iterator::cycle"):
            top = s
        else:
            bot = s
    def idx_parts(x):
        if x is not None and x[0] == "call" and x[1].endswith("::index") and is_var(x[2][0], band):
            return x[2][1]
        return None
    tr = idx_parts(top)
    ok = False
    if tr is not None:
        rt = adt_fields(tr, "core::ops::RangeTo")
        rg = adt_fields(tr, "core::ops::Range")
        ok = (bool(rt) and P(rt.get("end")) == WIDTH) or (bool(rg) and P(rg.get("start")) == {} and P(rg.get("end")) == WIDTH)
    obs.append(Ob(r, "clock-row", ok, "the alternating clock-track test reads the band's complete first row (band[..width])", site=al[0][4], detail=T.sx_show(top) if top else None))
    br = idx_parts(bot)
    ok = False
    if br is not None:
        rf = adt_fields(br, "core::ops::RangeFrom")
        ok = bool(rf) and P(rf.get("start")) == LASTROW
    obs.append(Ob(r, "solid-row", ok, "the solid-bar test reads the band's complete last row (band[(region height + 1) * width..])", detail=T.sx_show(bot) if bot else None))
    # failure -> Alignment
    fails = [s for s in inner if s[0] == "if" and s[1][0] == "un" and s[1][1] == "Not" and is_var(s[1][2], al[0][1].split("#")[0])]
    ok = len(fails) == 1 and any(st[0] == "return" and st[1] is not None and any(x[0] == "adt" and x[2] == "Alignment" for x in T.sx_walk(st[1])) for st in fails[0][2])
    obs.append(Ob(r, "band-reject", ok, "a band whose rows fail the test is rejected with Alignment"))
    # per-row column checks
    rows_let = [s for s in inner if s[0] == "let" and s[1].startswith("rows#")]
    il2 = [s for s in inner if s[0] == "for" and T.sx_calls(s[2], "slice::chunks")]
    ok = False
    if len(il2) == 1:
        c2 = T.sx_calls(il2[0][2], "slice::chunks")[0]
        ok = P(c2[2][1]) == PIECE
        if ok and rows_let:
            rg = adt_fields(rows_let[0][3][2][1], "core::ops::Range") if rows_let[0][3][0] == "call" else None
            ok = bool(rg) and P(rg.get("start")) == WIDTH and P(rg.get("end")) == LASTROW and is_var(rows_let[0][3][2][0], band)
    obs.append(Ob(r, "region-rows", ok, "the data rows of a band are cut into pieces of (region width + 2)"))
    ok = False
    if len(il2) == 1:
        rowv = il2[0][1][-1].split("#")[0]
        chk = [s for s in il2[0][3] if s[0] == "let" and s[3][0] == "logic" and s[3][1] == "And"]
        if len(chk) == 1:
            parts = [chk[0][3][2], chk[0][3][3]]
            def is_idx(x, pred):
                return x[0] == "call" and x[1].endswith("::eq") and x[2][0][0] == "index" and is_var(x[2][0][1], rowv) and pred(x[2][0][2])
            left = any(is_idx(p, lambda i: P(i) == {}) and p[2][1][0] == "const" and p[2][1][1].endswith("Bit::HIGH") for p in parts)
            right = any(is_idx(p, lambda i: P(i) == LASTCOL) and is_var(p[2][1], "alignment_bit") for p in parts)
            rej = [s for s in il2[0][3] if s[0] == "if" and s[1][0] == "un" and is_var(s[1][2], chk[0][1].split("#")[0]) and any(st[0] == "return" for st in s[2])]
            ok = left and right and len(rej) == 1
    obs.append(Ob(r, "columns", ok, "every row piece has its first module checked against HIGH and its last module against the alternating bit"))
    obs += floor(obs, r, 6, "finder coverage obligations")
    return obs
