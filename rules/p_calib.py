"""Thorough-tier extras: calibration of the checker against mutants (never a violation: it tests the machinery,
not the repository) and a second pass of the MIR rules in the release configuration."""
import json
import os
import re
import subprocess
import sys
from concurrent.futures import ThreadPoolExecutor

from .core import Ob, VERIF


def calibration(pid):
    def run(ctx):
        idx_path = os.path.join(VERIF, "mutants", "index.json")
        todo = []
        if os.path.exists(idx_path):
            for patch, expect in sorted(json.load(open(idx_path)).items()):
                if pid in expect:
                    todo.append((os.path.join(VERIF, "mutants", patch), expect[pid], patch))
        sd = os.path.join(VERIF, "seeded")
        if os.path.isdir(sd):
            for sid in sorted(os.listdir(sd)):
                mp = os.path.join(sd, sid, "meta.json")
                if os.path.exists(mp):
                    meta = json.load(open(mp))
                    if pid in meta.get("detected_by_checks", []):
                        rules = [k.split(":")[0] for k in meta.get("detecting_rule_instances", {}).get(pid, [])]
                        todo.append((os.path.join(sd, sid, "patch.diff"), rules[0] if rules else "?", "seeded/" + sid))

        def one(item):
            path, rule, name = item
            env = dict(os.environ, DMX_SRC_REPO=ctx.repo)
            env.pop("DMX_REPO", None)
            r = subprocess.run([sys.executable, os.path.join(VERIF, "tools", "try_patch.py"), path, pid], env=env, stdout=subprocess.PIPE, stderr=subprocess.STDOUT, text=True)
            if "PATCH DOES NOT APPLY" in r.stdout:
                return (name, rule, "skipped (patch no longer applies to this tree)", None)
            rules = set(re.findall(r"rule=(\S+)", r.stdout))
            fired = ("fired: " in r.stdout) and pid in r.stdout.split("fired:")[-1]
            return (name, rule, "caught" if fired and (rule in rules or rule == "?") else ("fired for another rule: %s" % sorted(rules) if fired else "NOT caught"), sorted(rules))
        obs = []
        with ThreadPoolExecutor(max_workers=6) as ex:
            results = list(ex.map(one, todo))
        caught = sum(1 for r in results if r[2] == "caught")
        applied = sum(1 for r in results if not r[2].startswith("skipped"))
        for name, rule, verdict, rules in results:
            obs.append(Ob("CALIBRATION", name, True, "mutant %s (expects %s): %s" % (name, rule, verdict), info=True))
        ctx.note("calibration: caught %d of %d applied mutants (%d listed for %s)" % (caught, applied, len(todo), pid))
        return obs
    return run


def in_release(rule_fn):
    """run a MIR-based rule on the release-configuration facts (debug assertions and overflow checks compiled out)"""
    def run(ctx):
        orig = ctx.facts

        def rel(config="debug"):
            return orig("release")
        ctx.facts = rel
        try:
            obs = rule_fn(ctx)
        finally:
            ctx.facts = orig
        for o in obs:
            o.rule = o.rule
            o.key = "release/" + o.key
            o.what = "[release config] " + o.what
        return obs
    return run
