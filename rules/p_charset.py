"""Character-set and ECI rules: TAB-ISO, TAB-DISPATCH, TAB-ECI (C15); TAB-L1, STR-BRANCH (C14)."""
from .core import Ob, need, floor
from . import thirlib as T


# ---- references (independent of the crate) -----------------------------------------

def ref_latin1(b):
    if 0x20 <= b <= 0x7E or 0xA0 <= b <= 0xFF:
        return b
    return None


_TR = {0xD0: 0x011E, 0xDD: 0x0130, 0xDE: 0x015E, 0xF0: 0x011F, 0xFD: 0x0131, 0xFE: 0x015F}


def ref_8859_9(b):
    if 0x20 <= b <= 0x7E:
        return b
    if 0xA0 <= b <= 0xFF:
        return _TR.get(b, b)
    return None


def ref_8859_11(b):
    if 0x20 <= b <= 0x7E:
        return b
    if b == 0xA0:
        return 0xA0
    if 0xA1 <= b <= 0xDA:
        return 0x0E01 + (b - 0xA1)
    if 0xDF <= b <= 0xFB:
        return 0x0E3F + (b - 0xDF)
    return None


def ref_eci_write(c):
    """ISO/IEC 16022 5.4.1 / Table 6: designator codewords after codeword 241"""
    if c <= 126:
        return [c + 1]
    if c <= 16382:
        return [(c - 127) // 254 + 128, (c - 127) % 254 + 1]
    if c <= 999999:
        return [(c - 16383) // 64516 + 192, ((c - 16383) // 254) % 254 + 1, (c - 16383) % 254 + 1]
    return None


def ref_eci_read(bs):
    """returns (value, consumed) or None for malformed"""
    if not bs:
        return None
    b1 = bs[0]
    if 1 <= b1 <= 127:
        return (b1 - 1, 1)
    if 128 <= b1 <= 191:
        if len(bs) < 2 or not (1 <= bs[1] <= 254):
            return None
        return ((b1 - 128) * 254 + (bs[1] - 1) + 127, 2)
    if 192 <= b1 <= 207:
        if len(bs) < 3 or not (1 <= bs[1] <= 254) or not (1 <= bs[2] <= 254):
            return None
        return ((b1 - 192) * 64516 + (bs[1] - 1) * 254 + (bs[2] - 1) + 16383, 3)
    return None


# ---- per-byte decision tables ---------------------------------------------------------

def _byte_loop_match(f, fn, rule):
    """the `match ch {..}` inside `for ch in bytes..` of a per-byte decoder"""
    b = f.thir.get(fn)
    need(b, rule, fn)
    ms = [m for m in T.exprs(b["body"], "Match") if m.get("source") == "Normal"]
    for m in ms:
        s = T.strip(m["scrut"])
        if s.get("k") == "Var" and s["ty"] in ("u8", "char"):
            return b, m
    need(False, rule, fn, "(no match on the byte/char variable)")


def _arm_result(f, arm_body, bind, v, push_names=("push",)):
    """('push', value) | ('err', variant) | ('none',) | ('undecidable', why) for one arm at value v"""
    pushes = []
    rets = []

    def on_call(folder, c):
        cc = T.canon(T.callee_of(c))
        last = cc.split("::")[-1]
        if last in push_names and len(c["args"]) == 2:
            pushes.append(folder.fold(c["args"][1]))
            return None
        return NotImplemented
    env = {}
    if bind:
        env[bind] = v
    fo = T.Folder(f, env=env, on_call=on_call, effects=True)
    try:
        try:
            val = fo.fold(arm_body)
        except T.ReturnEx as r:
            rv = r.value
            if isinstance(rv, dict) and rv.get("__variant__") == "Err":
                inner = rv.get("#0")
                return ("err", inner.get("__variant__") if isinstance(inner, dict) else inner)
            if isinstance(rv, dict) and rv.get("__variant__") == "None":
                return ("none",)
            return ("ret", rv)
        if pushes:
            return ("push", pushes[0]) if len(pushes) == 1 else ("pushes", tuple(pushes))
        return ("val", val)
    except T.Trap as ex:
        return ("trap", str(ex))
    except T.Undecidable as ex:
        return ("undecidable", str(ex))


def byte_table(f, fn, rule, domain=range(256)):
    """per-byte (per-character) converter folded as a whole function on every one-element input: what it appends to its
    output and what it returns - ('push', code point) | ('pushes', ..) | ('err', variant) | ('none',) | ('trap' | 'undecidable', why).
    Independent of how the loop over the input is written and of helpers the conversion is delegated to."""
    b = f.thir.get(fn)
    need(b, rule, fn)
    pn = [p_["pat"]["name"] for p_ in b["params"] if p_.get("pat", {}).get("k") == "Bind"]
    need(len(pn) == len(b["params"]) and pn, rule, fn, "(plain parameters)")
    table, site, rest = {}, {}, set()
    # diagnostic positions: arms of matches on a u8/char variable
    matches_ = []
    for name2, b2 in f.thir.items():
        if name2 == fn or name2.startswith(fn + "::{closure") or (T.canon(name2).rsplit("::", 1)[0] == T.canon(fn).rsplit("::", 1)[0]):
            for m in T.exprs(b2["body"], "Match"):
                sc = T.strip(m["scrut"])
                if m.get("source") == "Normal" and sc.get("k") in ("Var", "Upvar") and sc.get("ty") in ("u8", "char") and name2.startswith(fn):
                    matches_.append(m)
    for v in domain:
        pushes = []

        def on_call(folder, c):
            if T.sink_call(folder, c, pushes):
                return None
            cc = T.canon(T.callee_of(c))
            if cc.split("::")[-1] in ("with_capacity", "new") and ("String" in cc or "Vec" in cc):
                return T.Token("buffer")
            return NotImplemented
        env = {pn[0]: [v]}
        for extra in pn[1:]:
            env[extra] = T.Token("out")
        fo = T.Folder(f, env=env, on_call=on_call, effects=True, local_calls=3)
        try:
            rv = fo.run(b["body"])
            if isinstance(rv, dict) and rv.get("__variant__") == "Err":
                inner = rv.get("#0")
                res = ("err", inner.get("__variant__") if isinstance(inner, dict) else str(inner))
            elif isinstance(rv, dict) and rv.get("__variant__") == "None":
                res = ("none",)
            elif len(pushes) == 1:
                res = ("push", pushes[0])
            elif pushes:
                res = ("pushes", tuple(pushes))
            else:
                res = ("nothing",)
        except T.Trap as ex:
            res = ("trap", str(ex))
        except T.Undecidable as ex:
            res = ("undecidable", str(ex))
            if "no arm matched" in str(ex):
                rest.add(v)
        table[v] = res
        for m in matches_:
            hit = False
            for arm in m["arms"]:
                try:
                    if T.pat_values(arm["pat"], [v]):
                        site[v] = T.span_str(arm["span"])
                        hit = True
                        break
                except Exception:
                    break
            if hit:
                break
    return b, table, site, rest


def _arm_result_with_scrut(f, body, bind, scrut, v):
    pushes = []

    def on_call(folder, c):
        cc = T.canon(T.callee_of(c))
        last = cc.split("::")[-1]
        if T.sink_call(folder, c, pushes):
            return None
        return NotImplemented
    env = {scrut: v}
    if bind:
        env[bind] = v
    fo = T.Folder(f, env=env, on_call=on_call, effects=True)
    try:
        try:
            val = fo.fold(body)
        except T.ReturnEx as r:
            rv = r.value
            if isinstance(rv, dict) and rv.get("__variant__") == "Err":
                inner = rv.get("#0")
                return ("err", inner.get("__variant__") if isinstance(inner, dict) else inner)
            if isinstance(rv, dict) and rv.get("__variant__") == "None":
                return ("none",)
            return ("ret", rv)
        if pushes:
            return ("push", pushes[0]) if len(pushes) == 1 else ("pushes", tuple(pushes))
        return ("val", val)
    except T.Trap as ex:
        return ("trap", str(ex))
    except T.Undecidable as ex:
        return ("undecidable", str(ex))


def tab_iso_traps(ctx):
    """TAB-ISO restricted to what a no-panic property needs: every byte value folds to a push or an error, never to a trap
    (index out of the table, arithmetic overflow) - the decoded *value* is not this property's business"""
    return tab_iso(ctx, traps_only=True)


def tab_iso(ctx, traps_only=False):
    r = "TAB-ISO"
    f = ctx.facts()
    obs = []
    for fn, ref, name in (("decodation::eci::decode_iso_8859_9", ref_8859_9, "ISO-8859-9"),
                          ("decodation::eci::decode_iso_8859_11", ref_8859_11, "ISO-8859-11")):
        b, table, site, rest = byte_table(f, fn, r)
        obs.append(Ob(r, "%s:exhaustive" % name, not rest, "%s decoder match covers all 256 byte values" % name, detail=sorted(rest)[:10]))
        for v in range(256):
            want = ref(v)
            got = table.get(v)
            if want is None:
                ok = got == ("err", "CharsetError")
                w = "CharsetError"
            else:
                ok = got == ("push", want)
                w = "U+%04X" % want
            if traps_only:
                ok = bool(got) and got[0] in ("push", "err")
                w = "any value or an error, but no panic"
            obs.append(Ob(r, "%s:0x%02X" % (name, v), ok, "%s byte 0x%02X decodes to %s; standard table says %s" % (name, v, _fmt(got), w), site=site.get(v)))
    obs += floor(obs, r, 512, "charset rows")
    return obs


def _fmt(g):
    if g is None:
        return "nothing"
    if g[0] == "push" and isinstance(g[1], int):
        return "U+%04X" % g[1]
    if g[0] == "val" and isinstance(g[1], int):
        return "%d" % g[1]
    return " ".join(str(x) for x in g)


def tab_l1(ctx):
    r = "TAB-L1"
    f = ctx.facts()
    obs = []
    # char -> byte
    b = f.thir.get("data::utf8_to_latin1")
    need(b, r, "data::utf8_to_latin1")
    m = b["body"]
    bounds = [0x100]
    for n in T.walk(m):
        if n.get("k") == "Const" and isinstance(n.get("val"), int):
            bounds.append(n["val"])
        if n.get("k") == "Range":
            for x in (n["lo"], n["hi"]):
                if isinstance(x, int):
                    bounds.append(x)
    dom = list(range(0, max(bounds) + 2))
    # the loop body `for ch in s.chars() { .. out.push(<byte>) }` folded for every code point of the domain
    def as_val(t):
        return ("val", t[1]) if t and t[0] == "push" else t
    _b, tab_e, site_e, _rest = byte_table(f, "data::utf8_to_latin1", r, domain=dom)
    enc = {cp: as_val(tab_e.get(cp)) for cp in dom}
    site = dict(site_e)
    multi = [cp for cp in dom if tab_e.get(cp, ("x",))[0] == "pushes"]
    obs.append(Ob(r, "enc-push", not multi, "utf8_to_latin1 pushes exactly one byte per character", detail=multi[:5]))
    for cp in dom:
        want = ref_latin1(cp) if cp <= 0xFF else None
        got = enc.get(cp)
        ok = (got == ("val", want)) if want is not None else (got == ("none",))
        obs.append(Ob(r, "enc:U+%04X" % cp, ok, "utf8_to_latin1(U+%04X%s) = %s; ISO-8859-1 says %s" % (
            cp, "+" if cp == dom[-1] else "", _fmt(got), ("0x%02X" % want) if want is not None else "not representable (None)"), site=site.get(cp)))
    # byte -> char: the loop body of latin1_to_utf8_mut folded for every byte
    _b2, tab_d, site_d, _rest2 = byte_table(f, "data::latin1_to_utf8_mut", r)
    dec = {v: as_val(tab_d.get(v)) for v in range(256)}
    for v, sp in site_d.items():
        site[("d", v)] = sp
    multi = [v for v in range(256) if tab_d.get(v, ("x",))[0] == "pushes"]
    obs.append(Ob(r, "dec-push", not multi, "latin1_to_utf8_mut pushes exactly one char per byte", detail=multi[:5]))
    for v in range(256):
        want = ref_latin1(v)
        got = dec.get(v)
        ok = (got == ("val", want)) if want is not None else (got == ("none",))
        obs.append(Ob(r, "dec:0x%02X" % v, ok, "latin1_to_utf8(0x%02X) = %s; ISO-8859-1 says %s" % (v, _fmt(got), ("U+%04X" % want) if want is not None else "control/undefined (None)"), site=site.get(("d", v))))
    # mutual inverse
    inv_bad = [v for v in range(256) if dec.get(v, ("x",))[0] == "val" and enc.get(dec[v][1]) != ("val", v)]
    inv_bad += [cp for cp in dom if enc.get(cp, ("x",))[0] == "val" and dec.get(enc[cp][1]) != ("val", cp)]
    obs.append(Ob(r, "mutual-inverse", not inv_bad, "the two Latin-1 helpers are mutually inverse on their domains", detail=inv_bad[:10]))
    obs += floor(obs, r, 256 + 256, "latin-1 rows")
    return obs


def tab_dispatch(ctx):
    r = "TAB-DISPATCH"
    f = ctx.facts()
    fn = "decodation::eci::convert_chunk"
    b = f.thir.get(fn)
    need(b, r, fn)
    m = None
    for x in T.exprs(b["body"], "Match"):
        s = T.strip(x["scrut"])
        if s.get("k") == "Var" and len(b["params"]) >= 2 and s["name"] == (b["params"][1].get("pat") or {}).get("name"):
            m = x       # the match on the second parameter (the ECI number)
            break
    need(m, r, fn, "(match on eci)")
    dom = list(range(0, 64))
    rows, rest = T.int_match_table(m, dom)
    callees = {}
    armsx = {}
    followed = set()

    def expand_helpers(body):
        """the arm body plus the bodies of crate-local helpers of this module it calls (one level)"""
        nodes = [body]
        for c in T.calls(body):
            cc = T.canon(T.callee_of(c))
            if cc.startswith("decodation::eci::") and cc not in ("decodation::eci::decode_iso_8859_9", "decodation::eci::decode_iso_8859_11", "decodation::eci::convert_chunk_extended"):
                for n2, b2 in f.thir.items():
                    if T.canon(n2) == cc:
                        nodes.append(b2["body"])
                        followed.add(cc)
        return nodes
    for vals, bind, guard, body, arm in rows:
        nodes = expand_helpers(body)
        cs = sorted({T.canon(T.callee_of(c)) for n in nodes for c in T.calls(n)})
        for v in vals:
            callees[v] = cs
            armsx[v] = (body, arm, nodes)
    obs = []

    def has(v, suffix):
        return any(c.endswith(suffix) for c in callees.get(v, []))

    def only_transformers(v, allowed):
        """no decoder other than the allowed ones is involved"""
        dec = [c for c in callees.get(v, []) if (c.startswith("decodation::") or c.startswith("data::")) and c not in followed]
        return all(any(d.endswith(a) for a in allowed) for d in dec)
    for v in (0, 3):
        obs.append(Ob(r, "eci:%d" % v, has(v, "data::latin1_to_utf8_mut") and only_transformers(v, ["data::latin1_to_utf8_mut"]),
                      "ECI %d is decoded as ISO-8859-1 (latin1_to_utf8_mut)" % v, site=T.span_str(armsx[v][1]["span"]), detail=callees.get(v)))
    obs.append(Ob(r, "eci:11", has(11, "decode_iso_8859_9") and only_transformers(11, ["decode_iso_8859_9"]), "ECI 11 is decoded as ISO-8859-9", detail=callees.get(11)))
    obs.append(Ob(r, "eci:13", has(13, "decode_iso_8859_11") and only_transformers(13, ["decode_iso_8859_11"]), "ECI 13 is decoded as ISO-8859-11", detail=callees.get(13)))
    # 26 / 27: the arm is folded against a model of from_utf8 / is_ascii: what is pushed, and what is returned
    pn = [p_["pat"]["name"] for p_ in b["params"] if p_.get("pat", {}).get("k") == "Bind"]
    need(len(pn) == 3, r, fn, "(parameters bytes, eci, out)")

    def arm_run(v, utf8_ok, ascii_ok):
        pushed = []

        def res(ok, val):
            return {"__adt__": "core::result::Result", "__variant__": "Ok" if ok else "Err", "#0": val, "0": val}

        def on_call(folder, c):
            cc = T.canon(T.callee_of(c))
            last = cc.split("::")[-1]
            if cc.endswith("str::from_utf8") or cc.endswith("str::converts::from_utf8"):
                a = folder.fold(c["args"][0])
                return res(utf8_ok, T.Token("str(%s)" % a) if utf8_ok else T.Token("Utf8Error"))
            if last == "is_ascii":
                a = folder.fold(c["args"][0])
                return ascii_ok if a == "bytes" else NotImplemented
            if cc.endswith("String::push_str"):
                pushed.append(folder.fold(c["args"][1]))
                return None
            if cc.endswith("Result::or") and len(c["args"]) == 2:
                a = folder.fold(c["args"][0])
                return a if a.get("__variant__") == "Ok" else folder.fold(c["args"][1])
            if cc.endswith("Result::map_err") and len(c["args"]) == 2:
                a = folder.fold(c["args"][0])
                if a.get("__variant__") == "Ok":
                    return a
                cl = folder.fold(c["args"][1])
                return res(False, folder.apply_closure(cl, [a.get("#0")]))
            return NotImplemented
        env = {pn[0]: T.Token("bytes"), pn[1]: v, pn[2]: T.Token("out")}
        # the whole dispatch is folded for this ECI number (guarded arms included), not just one arm body
        out = T.Folder(f, env=env, on_call=on_call, effects=True).run(b["body"])
        err = None
        if isinstance(out, dict) and out.get("__variant__") == "Err":
            e0 = out.get("#0")
            err = e0.get("__variant__") if isinstance(e0, dict) else str(e0)
        return pushed, err
    for v in (26, 27):
        body, arm, nodes = armsx[v]
        bad = None
        try:
            for utf8_ok in (True, False):
                for ascii_ok in (True, False):
                    pushed, err = arm_run(v, utf8_ok, ascii_ok)
                    accept = utf8_ok and (ascii_ok or v == 26)
                    want = (["str(bytes)"], None) if accept else ([], "CharsetError")
                    if ([str(x) for x in pushed], err) != want and bad is None:
                        bad = "ECI %d chunk (valid utf8: %s, ascii: %s): pushes %r and returns %s; expected %r" % (v, utf8_ok, ascii_ok, [str(x) for x in pushed], err or "Ok", want)
        except (T.Undecidable, T.Trap) as ex:
            bad = "cannot decide: the arm does not fold (%s)" % ex
        ok = bad is None and only_transformers(v, [])
        obs.append(Ob(r, "eci:%d" % v, ok, "ECI %d passes exactly the validated bytes through (str::from_utf8(bytes) pushed unchanged, CharsetError otherwise%s)" % (v, "; only ASCII bytes accepted" if v == 27 else ""),
                      site=T.span_str(arm["span"]), detail=bad or callees.get(v)))
    # every other ECI goes to the extension hook (never silently to a wrong table)
    other = [v for v in dom if v not in (0, 3, 11, 13, 26, 27)]
    bad = [v for v in other if not has(v, "convert_chunk_extended") or not only_transformers(v, ["convert_chunk_extended"])]
    obs.append(Ob(r, "eci:other", not bad, "all other ECI numbers are handed to convert_chunk_extended", detail=bad[:10]))
    # ECI_UTF8 constant
    obs.append(Ob(r, "ECI_UTF8", f.const("decodation::eci::ECI_UTF8") == 26, "ECI_UTF8 == 26"))
    # errors of the utf8 path are CharsetError
    obs += floor(obs, r, 8, "dispatch rows")
    return obs


# ---- ECI designators -------------------------------------------------------------------

WRITE_ECI = "encodation::GenericDataEncoder::<'a>::write_eci"
READ_ECI = "decodation::read_eci"


def _find_fn(f, suffix):
    for n in f.thir:
        if T.canon(n).endswith(suffix):
            return n
    return None


def eci_points(tier, seed):
    pts = set()
    for b in (0, 126, 127, 16382, 16383, 999999):
        for d in (-2, -1, 0, 1, 2):
            if 0 <= b + d <= 999999:
                pts.add(b + d)
    for q in range(0, 64):
        pts.update(x for x in (127 + 254 * q - 1, 127 + 254 * q, 127 + 254 * q + 253) if 0 <= x <= 999999)
    for q in range(0, 16):
        pts.update(x for x in (16383 + 64516 * q - 1, 16383 + 64516 * q, 16383 + 64516 * q + 64515, 16383 + 64516 * q + 254) if 0 <= x <= 999999)
    step = 1 if tier == "thorough" else 211
    pts.update(range((seed % step) if step > 1 else 0, 1000000, step))
    return sorted(pts)


def tab_eci(ctx):
    r = "TAB-ECI"
    f = ctx.facts()
    wname = _find_fn(f, "GenericDataEncoder::write_eci")
    need(wname, r, "write_eci")
    wb = f.thir[wname]
    need(READ_ECI in f.thir, r, READ_ECI)
    rb = f.thir[READ_ECI]
    obs = []
    cparam = wb["params"][1]["pat"]["name"]
    eci_cw = f.const("encodation::ascii::ECI")
    obs.append(Ob(r, "ECI-codeword", eci_cw == 241, "ECI codeword constant is 241"))

    def run_write(c):
        out = []

        def on_call(folder, call):
            cc = T.canon(T.callee_of(call))
            if T.sink_call(folder, call, out):
                return None
            return NotImplemented
        fo = T.Folder(f, env={cparam: c}, on_call=on_call, effects=True, local_calls=2)
        fo.run(wb["body"])
        return out

    def run_read(bs):
        pos = [0]
        dparam = rb["params"][0]["pat"]["name"]

        def on_call(folder, call):
            cc = T.canon(T.callee_of(call))
            if cc.endswith("Reader::eat"):
                if pos[0] < len(bs):
                    v = bs[pos[0]]
                    pos[0] += 1
                    return {"__adt__": "core::result::Result", "__variant__": "Ok", "#0": v, "0": v}
                return {"__adt__": "core::result::Result", "__variant__": "Err", "#0": {"__variant__": "UnexpectedEnd"}}
            return NotImplemented
        fo = T.Folder(f, env={dparam: "READER"}, on_call=on_call, effects=True, local_calls=2)
        res = fo.run(rb["body"])
        if isinstance(res, dict) and res.get("__variant__") == "Ok":
            tup = res.get("#0")
            return ("ok", tup[1], pos[0])
        if isinstance(res, dict) and res.get("__variant__") == "Err":
            return ("err",)
        return ("?", res)

    # writer vs ISO forms (boundaries, block edges, and a stride through the range; exhaustive in the thorough tier)
    pts = eci_points(ctx.tier, ctx.seed)
    bad_w = None
    bad_rt = None
    n = 0
    try:
        for c in pts:
            got = run_write(c)
            n += 1
            want = [241] + ref_eci_write(c)
            if got != want and bad_w is None:
                bad_w = "write_eci(%d) pushes %r, ISO/IEC 16022 form is %r" % (c, got, want)
            rd = run_read(got[1:])
            if rd != ("ok", c, len(got) - 1) and bad_rt is None:
                bad_rt = "read_eci(%r) = %r, expected Ok(%d) consuming %d" % (got[1:], rd, c, len(got) - 1)
            if bad_w and bad_rt:
                break
    except T.Trap as ex:
        bad_w = bad_w or "trap: %s" % ex
    except T.Undecidable as ex:
        bad_w = bad_w or "cannot decide (body not loop-free/pure): %s" % ex
    obs.append(Ob(r, "write-forms", bad_w is None,
                  "write_eci emits the 1/2/3-codeword ISO forms for %d designator values (%s)%s" % (
                      n, "all 10^6" if ctx.tier == "thorough" else "range/block boundaries + every 211th value", "" if not bad_w else ": " + bad_w),
                  site=T.span_str(wb["span"])))
    obs.append(Ob(r, "read-inverts-write", bad_rt is None,
                  "read_eci returns the number write_eci was given for the same %d values%s" % (n, "" if not bad_rt else ": " + bad_rt),
                  site=T.span_str(rb["span"])))
    # writer form boundaries: the form length changes exactly at 127 and 16383, and 999999 is the last value accepted
    rngs = []
    try:
        for c in (0, 126, 127, 16382, 16383, 999999):
            rngs.append((c, len(run_write(c)) - 1))
        try:
            run_write(1000000)
            rngs.append((1000000, "accepted"))
        except T.Trap:
            rngs.append((1000000, "panic"))
    except (T.Trap, T.Undecidable) as ex:
        rngs.append(("?", str(ex)))
    obs.append(Ob(r, "write-ranges", rngs == [(0, 1), (126, 1), (127, 2), (16382, 2), (16383, 3), (999999, 3), (1000000, "panic")],
                  "write_eci uses the 1-codeword form for 0..=126, the 2-codeword form for 127..=16382 and the 3-codeword form for 16383..=999999 (the only panic is outside the documented domain)", detail=rngs))
    # reader: exhaustive first byte x second byte; third byte exhaustive for the boundary first bytes
    bad_r = None
    nr = 0
    edge = [0, 1, 2, 127, 128, 253, 254, 255]
    try:
        for b1 in range(256):
            seqs = [[b1], [b1, 7]]
            if 128 <= b1 <= 207:
                seqs = [[b1]] + [[b1, b2] for b2 in range(256)]
            if 192 <= b1 <= 207:
                b3s = range(256) if (ctx.tier == "thorough" or b1 in (192, 207)) else edge
                seqs += [[b1, b2, b3] for b2 in (range(256) if ctx.tier == "thorough" else edge + [77]) for b3 in b3s]
            for bs in seqs:
                want = ref_eci_read(bs)
                got = run_read(bs)
                nr += 1
                if want is None:
                    ok = got == ("err",)
                else:
                    ok = got == ("ok", want[0], want[1])
                if not ok:
                    bad_r = "read_eci(%r) = %r, ISO form says %s" % (bs, got, "malformed -> error" if want is None else "Ok(%d)" % want[0])
                    break
            if bad_r:
                break
    except T.Trap as ex:
        bad_r = "read_eci(%r) would panic: %s" % (bs, ex)
    except T.Undecidable as ex:
        bad_r = "cannot decide (body not loop-free/pure): %s" % ex
    obs.append(Ob(r, "read-table", bad_r is None,
                  "read_eci agrees with the ISO designator forms and rejects malformed designators without trapping, for %d byte sequences (all first bytes x all second bytes; third bytes %s)%s" % (
                      nr, "exhaustive" if ctx.tier == "thorough" else "exhaustive for first byte 192/207, boundary values otherwise", "" if not bad_r else ": " + bad_r),
                  site=T.span_str(rb["span"])))
    return obs


def _encode_str_by_fold(f, fn):
    b = f.thir[fn]
    pn = [(p_.get("pat") or {}).get("name") for p_ in b["params"]]
    if len(pn) != 2 or not all(pn):
        return None
    utf8 = f.const("decodation::eci::ECI_UTF8")
    for latin1 in (True, False):
        calls = []

        def on_call(folder, c, calls=calls, latin1=latin1):
            cc = T.canon(T.callee_of(c))
            if cc == "data::utf8_to_latin1":
                arg = folder.fold(c["args"][0])
                if str(arg) != "TEXT":
                    raise T.Undecidable("utf8_to_latin1 of something else")
                if latin1:
                    return {"__adt__": "core::option::Option", "__variant__": "Some", "#0": T.Token("LATIN1"), "0": T.Token("LATIN1")}
                return {"__adt__": "core::option::Option", "__variant__": "None"}
            if cc.endswith("str::as_bytes") and str(folder.fold(c["args"][0])) == "TEXT":
                return T.Token("TEXT-BYTES")
            if cc.endswith("DataMatrixBuilder::encode_eci"):
                a = [folder.fold(x) for x in c["args"]]
                calls.append(a)
                return T.Token("RESULT")
            if cc.split("::")[-1] in ("deref", "as_slice", "as_ref", "borrow") and len(c["args"]) == 1:
                return folder.fold(c["args"][0])
            return NotImplemented
        try:
            res = T.Folder(f, env={pn[0]: T.Token("SELF"), pn[1]: T.Token("TEXT")}, on_call=on_call, effects=True, local_calls=0).run(b["body"])
        except (T.Undecidable, T.Trap):
            return None
        if len(calls) != 1 or str(res) != "RESULT" or str(calls[0][0]) != "SELF":
            return False
        data, eci = T._loaded(calls[0][1]), T._loaded(calls[0][2])
        if latin1:
            if str(data) != "LATIN1" or not (isinstance(eci, dict) and eci.get("__variant__") == "None"):
                return False
        else:
            if str(data) != "TEXT-BYTES" or not (isinstance(eci, dict) and eci.get("__variant__") == "Some" and eci.get("#0") == utf8):
                return False
    return True


def str_branch(ctx):
    r = "STR-BRANCH"
    f = ctx.facts()
    fn = "DataMatrixBuilder::encode_str"
    sts, _ = T.fn_stmts(f, fn)
    need(sts is not None, r, fn)
    b = f.thir[fn]
    obs = []
    ifs = [s for s in sts if s[0] == "if"]
    ms = [s for s in sts if s[0] == "match"]
    ok = False
    det = None
    some_branch = none_branch = None
    okc = False
    bound = None
    if len(ifs) == 1 and ifs[0][1][0] == "iflet":
        cond = ifs[0][1]
        src = cond[1]
        okc = src[0] == "call" and src[1] == "data::utf8_to_latin1" and src[2][0][:2] == ("var", "text") and cond[3] == "Some"
        bound = cond[2][0].split("#")[0] if cond[2] else None
        some_branch, none_branch = ifs[0][2], ifs[0][3]
    elif len(ms) == 1 and ms[0][1][0] == "call" and ms[0][1][1] == "data::utf8_to_latin1" and ms[0][1][2][0][:2] == ("var", "text") and len(ms[0][2]) == 2:
        okc = True
        for pat, body, guard in ms[0][2]:
            d = T._pat_desc(pat)
            if d == "Some":
                some_branch = body
                names = T.pat_names(pat)
                bound = names[0].split("#")[0] if names else None
            elif d in ("None", "Wild"):
                none_branch = body
    if some_branch is not None and none_branch is not None:
        then_calls = [x for s in T.stmt_walk(some_branch) for e in T.stmt_exprs(s) for x in T.sx_calls(e, "DataMatrixBuilder::encode_eci")]
        else_calls = [x for s in T.stmt_walk(none_branch) for e in T.stmt_exprs(s) for x in T.sx_calls(e, "DataMatrixBuilder::encode_eci")]
        det = {"then": [T.sx_show(x) for x in then_calls], "else": [T.sx_show(x) for x in else_calls]}
        okt = len(then_calls) == 1 and _is_none(then_calls[0][2][2]) and _mentions_var(then_calls[0][2][1], bound)
        oke = False
        if len(else_calls) == 1:
            a1, a2 = else_calls[0][2][1], else_calls[0][2][2]
            is_bytes = a1[0] == "call" and a1[1].endswith("str::as_bytes") and a1[2][0][:2] == ("var", "text")
            is_eci = a2[0] == "adt" and a2[2] == "Some" and a2[3][0][1][0] == "const" and a2[3][0][1][1].endswith("ECI_UTF8")
            oke = is_bytes and is_eci
        ok = okc and okt and oke
    if not ok:
        # statement shape not recognised: fold encode_str for both outcomes of utf8_to_latin1 and look at the encode_eci call
        okx = _encode_str_by_fold(f, fn)
        if okx:
            ok, det = True, "decided by folding encode_str for both outcomes of utf8_to_latin1"
    obs.append(Ob(r, "encode_str", ok, "encode_str: Some(latin1) -> encode_eci(&latin1, None); None -> encode_eci(text.as_bytes(), Some(ECI_UTF8))",
                  site=T.span_str(b["span"]), detail=det))
    # encode_data_internal: write_eci iff eci is Some, with that value (folded for the four flag / option combinations)
    from . import p_macro
    tr = p_macro.dispatch_traces(f, r)
    ok2 = all(isinstance(v, list) for v in tr.values())
    wc = []
    if ok2:
        for (um, eci), v in tr.items():
            w = [a for n, a in v if n == "write_eci"]
            wc.append(("%s/%s" % (um, eci), [x[1] if len(x) > 1 else None for x in w]))
            ok2 = ok2 and ((eci is None and not w) or (eci is not None and len(w) == 1 and len(w[0]) == 2 and w[0][1] == eci))
    obs.append(Ob(r, "write_eci-iff-some", ok2, "the ECI header is written iff an ECI was requested, with the requested number", detail=wc))
    # encode(): no ECI
    e, bb = None, f.thir.get("DataMatrixBuilder::encode")
    need(bb, r, "DataMatrixBuilder::encode")
    e = T.sx(bb["body"], T.let_env(bb["body"]))
    ok3 = e[0] == "call" and e[1].endswith("encode_eci") and _is_none(e[2][2]) and e[2][1][:2] == ("var", "data")
    obs.append(Ob(r, "encode-no-eci", ok3, "encode() = encode_eci(data, None)", detail=T.sx_show(e)))
    return obs


def _is_none(x):
    return isinstance(x, tuple) and x[0] == "adt" and x[1] == "core::option::Option" and x[2] == "None"


def _mentions_var(x, base):
    return any(isinstance(y, tuple) and y[:2] == ("var", base) for y in T.sx_walk(x))
