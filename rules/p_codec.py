"""Codec table rules: TAB-CW, TAB-SETS (C02); TAB-DEC, DEC-THRESH, DEC-MODE (C04); TAB-CODEC (C01).

Encoder and decoder character tables are *extracted* from the typed syntax tree as finite decision
tables (per byte / per (shift state, value)) and compared with ISO/IEC 16022 Tables C.1-C.3, 5.2.7,
5.2.8 (transcribed below, independent of the crate) and with each other by table composition."""
from .core import Ob, need, floor
from . import thirlib as T

MODES = ["Ascii", "C40", "Text", "X12", "Edifact", "Base256"]

# ---- reference character sets (ISO/IEC 16022:2006 Annex C, 5.2.7, 5.2.8) ----------------------


def ref_c40_low(ch, text=False):
    """value sequence for a byte < 128 in C40 (or Text) encodation"""
    if text:
        if 97 <= ch <= 122:
            return [ch - 97 + 14]
        if 65 <= ch <= 90:
            return [2, ch - 65 + 1]
        if ch == 96:
            return [2, 0]
        if 123 <= ch <= 127:
            return [2, ch - 123 + 27]
    else:
        if 65 <= ch <= 90:
            return [ch - 65 + 14]
        if 96 <= ch <= 127:
            return [2, ch - 96]
    if ch == 32:
        return [3]
    if 48 <= ch <= 57:
        return [ch - 48 + 4]
    if ch <= 31:
        return [0, ch]
    if 33 <= ch <= 47:
        return [1, ch - 33]
    if 58 <= ch <= 64:
        return [1, ch - 58 + 15]
    if 91 <= ch <= 95:
        return [1, ch - 91 + 22]
    raise ValueError(ch)


def ref_c40(ch, text=False):
    if ch >= 128:
        return [1, 30] + ref_c40_low(ch - 128, text)
    return ref_c40_low(ch, text)


def ref_c40_dec(text=False):
    """decoder automaton: (shift, value) -> ('shift', n) | ('char', byte) | ('upper',) | ('fnc1',) | ('err',)"""
    t = {}
    for v in range(256):
        # basic set
        if v <= 2:
            t[(0, v)] = ("shift", v + 1)
        elif v == 3:
            t[(0, v)] = ("char", 32)
        elif v <= 13:
            t[(0, v)] = ("char", 48 + v - 4)
        elif v <= 39:
            t[(0, v)] = ("char", (97 if text else 65) + v - 14)
        else:
            t[(0, v)] = ("err",)
        t[(1, v)] = ("char", v) if v <= 31 else ("err",)
        if v <= 14:
            t[(2, v)] = ("char", 33 + v)
        elif v <= 21:
            t[(2, v)] = ("char", 58 + v - 15)
        elif v <= 26:
            t[(2, v)] = ("char", 91 + v - 22)
        elif v == 27:
            t[(2, v)] = ("fnc1",)
        elif v == 30:
            t[(2, v)] = ("upper",)
        else:
            t[(2, v)] = ("err",)
        if v <= 31:
            if text:
                c = 96 if v == 0 else (65 + v - 1 if v <= 26 else 123 + v - 27)
            else:
                c = 96 + v
            t[(3, v)] = ("char", c)
        else:
            t[(3, v)] = ("err",)
    return t


def ref_x12(ch):
    if ch == 13:
        return 0
    if ch == 42:
        return 1
    if ch == 62:
        return 2
    if ch == 32:
        return 3
    if 48 <= ch <= 57:
        return ch - 48 + 4
    if 65 <= ch <= 90:
        return ch - 65 + 14
    return None


REF_CW = {
    "encodation::ascii::PAD": 129, "encodation::ascii::LATCH_C40": 230, "encodation::ascii::LATCH_BASE256": 231,
    "encodation::ascii::FNC1": 232, "encodation::ascii::UPPER_SHIFT": 235, "encodation::MACRO05": 236, "encodation::MACRO06": 237,
    "encodation::ascii::LATCH_X12": 238, "encodation::ascii::LATCH_TEXT": 239, "encodation::ascii::LATCH_EDIFACT": 240,
    "encodation::ascii::ECI": 241, "encodation::UNLATCH": 254, "encodation::edifact::UNLATCH": 31,
    "encodation::c40::SHIFT1": 0, "encodation::c40::SHIFT2": 1, "encodation::c40::SHIFT3": 2, "encodation::c40::UPPER_SHIFT": 30,
}


def tab_cw(ctx):
    r = "TAB-CW"
    f = ctx.facts()
    obs = []
    for k, v in REF_CW.items():
        obs.append(Ob(r, k.replace("encodation::", ""), f.const(k) == v, "%s = %r, ISO/IEC 16022 Table 2 says %d" % (k, f.const(k), v)))
    obs += floor(obs, r, len(REF_CW), "codeword constants")
    return obs


# ---- encoder tables ---------------------------------------------------------------------------

def _push_hook(sink, extra=None):
    def on_call(folder, c):
        cc = T.canon(T.callee_of(c))
        if T.sink_call(folder, c, sink):
            return None
        if extra:
            return extra(folder, c, cc)
        return NotImplemented
    return on_call


def enc_c40_low_table(f, rule):
    fn = "encodation::c40::low_ascii_to_c40_symbols"
    need(fn in f.thir, rule, fn)
    b = f.thir[fn]
    chp = b["params"][1]["pat"]["name"]
    out = {}
    for ch in range(128):
        sink = []
        try:
            T.Folder(f, env={chp: ch}, on_call=_push_hook(sink), effects=True).run(b["body"])
            out[ch] = sink
        except T.Trap as ex:
            out[ch] = ("trap", str(ex))
        except T.Undecidable as ex:
            out[ch] = ("undecidable", str(ex))
    return out, T.span_str(b["span"])


def enc_text_low_table(f, rule, c40tab):
    fn = "encodation::text::low_ascii_to_text_symbols"
    need(fn in f.thir, rule, fn)
    b = f.thir[fn]
    chp = b["params"][1]["pat"]["name"]
    out = {}
    for ch in range(128):
        sink = []

        def extra(folder, c, cc):
            if cc == "encodation::c40::low_ascii_to_c40_symbols":
                v = folder.fold(c["args"][1])
                r = c40tab.get(v)
                if not isinstance(r, list):
                    raise T.Undecidable("c40 table at %r" % v)
                sink.extend(r)
                return None
            return NotImplemented
        try:
            T.Folder(f, env={chp: ch}, on_call=_push_hook(sink, extra), effects=True).run(b["body"])
            out[ch] = sink
        except T.Trap as ex:
            out[ch] = ("trap", str(ex))
        except T.Undecidable as ex:
            out[ch] = ("undecidable", str(ex))
    return out, T.span_str(b["span"])


def enc_to_vals_table(f, rule, lowtab):
    """to_vals: full byte -> value sequence, given the low table of the mode"""
    fn = "encodation::c40::to_vals"
    need(fn in f.thir, rule, fn)
    b = f.thir[fn]
    chp = b["params"][1]["pat"]["name"]
    fparam = b["params"][2]["pat"]["name"]
    out = {}
    for ch in range(256):
        sink = []

        def extra(folder, c, cc):
            # call of the `low_ascii_write` closure parameter
            indirect = not cc and isinstance(c.get("fun"), dict) and T.strip(c["fun"]).get("k") in ("Var", "Upvar") and T.strip(c["fun"]).get("name") == fparam
            if indirect or cc.endswith("Fn::call") or cc.endswith("FnMut::call_mut") or cc.endswith("FnOnce::call_once"):
                # (the parameter as a plain function pointer is called directly with (buf, ch))
                v = folder.fold(c["args"][1]) if indirect else folder.fold(T.strip(c["args"][1])["fields"][1])
                r = lowtab.get(v)
                if not isinstance(r, list):
                    raise T.Undecidable("low table at %r" % (v,))
                sink.extend(r)
                return None
            if cc.endswith("::len"):
                return len(sink)
            return NotImplemented
        try:
            T.Folder(f, env={chp: ch, fparam: "FN"}, on_call=_push_hook(sink, extra), effects=True).run(b["body"])
            out[ch] = sink
        except T.Trap as ex:
            out[ch] = ("trap", str(ex))
        except T.Undecidable as ex:
            out[ch] = ("undecidable", str(ex))
    return out, T.span_str(b["span"])


def enc_x12_table(f, rule):
    fn = "encodation::x12::enc"
    need(fn in f.thir, rule, fn)
    b = f.thir[fn]
    chp = b["params"][0]["pat"]["name"]
    out = {}
    for ch in range(256):
        try:
            out[ch] = T.Folder(f, env={chp: ch}, effects=True).run(b["body"])
        except T.Trap:
            out[ch] = None   # unreachable!() arm
        except T.Undecidable as ex:
            out[ch] = ("undecidable", str(ex))
    return out, T.span_str(b["span"])


def pred_table(f, fn, rule):
    need(fn in f.thir, rule, fn)
    b = f.thir[fn]
    chp = b["params"][0]["pat"]["name"]
    out = {}
    for ch in range(256):
        try:
            out[ch] = bool(T.Folder(f, env={chp: ch}, effects=True).run(b["body"]))
        except (T.Trap, T.Undecidable) as ex:
            out[ch] = ("undecidable", str(ex))
    return out


def tab_sets(ctx):
    r = "TAB-SETS"
    f = ctx.facts()
    obs = []
    c40low, s1 = enc_c40_low_table(f, r)
    textlow, s2 = enc_text_low_table(f, r, c40low)
    c40, s3 = enc_to_vals_table(f, r, c40low)
    text, _ = enc_to_vals_table(f, r, textlow)
    for ch in range(256):
        w = ref_c40(ch, False)
        obs.append(Ob(r, "c40:0x%02X" % ch, c40.get(ch) == w, "C40 encodes byte 0x%02X as %r; Table C.1 says %r" % (ch, c40.get(ch), w), site=s1 if ch < 128 else s3))
        w = ref_c40(ch, True)
        obs.append(Ob(r, "text:0x%02X" % ch, text.get(ch) == w, "Text encodes byte 0x%02X as %r; Table C.2 says %r" % (ch, text.get(ch), w), site=s2 if ch < 128 else s3))
    x12, s4 = enc_x12_table(f, r)
    native = pred_table(f, "encodation::x12::is_native_x12", r)
    for ch in range(256):
        w = ref_x12(ch)
        obs.append(Ob(r, "x12:0x%02X" % ch, x12.get(ch) == w and native.get(ch) == (w is not None),
                      "X12 value of byte 0x%02X is %r (is_native_x12=%r); 5.2.7 says %r" % (ch, x12.get(ch), native.get(ch), w), site=s4))
    enc = pred_table(f, "encodation::edifact::is_encodable", r)
    bad = [ch for ch in range(256) if enc.get(ch) != (32 <= ch <= 94)]
    obs.append(Ob(r, "edifact:encodable", not bad, "EDIFACT encodes exactly the bytes 32..=94 (5.2.8)", detail=bad[:8]))
    # packing: 1600*c1 + 40*c2 + c3 + 1, high byte first
    fn = "encodation::c40::write_three_values"
    need(fn in f.thir, r, fn)
    b = f.thir[fn]
    ps = [p["pat"].get("name") for p in b["params"] if p.get("pat")]
    need(len(ps) in (2, 4) and all(ps), r, fn, "(parameters ctx, c1, c2, c3 or ctx, [c1, c2, c3])")
    pts = [0, 1, 2, 3, 13, 14, 38, 39] if ctx.tier != "thorough" else list(range(40))
    badp = None
    n = 0
    for c1 in pts:
        for c2 in pts:
            for c3 in pts:
                sink = []
                try:
                    env3 = {ps[1]: c1, ps[2]: c2, ps[3]: c3, ps[0]: "CTX"} if len(ps) == 4 else {ps[1]: [c1, c2, c3], ps[0]: "CTX"}
                    T.Folder(f, env=env3, on_call=_push_hook(sink), effects=True).run(b["body"])
                except (T.Trap, T.Undecidable) as ex:
                    sink = str(ex)
                n += 1
                v = 1600 * c1 + 40 * c2 + c3 + 1
                if sink != [v >> 8, v & 255] and badp is None:
                    badp = "write_three_values(%d,%d,%d) pushes %r, standard packing gives %r" % (c1, c2, c3, sink, [v >> 8, v & 255])
    obs.append(Ob(r, "pack3", badp is None, "three C40/Text/X12 values are packed as 1600*c1+40*c2+c3+1, high byte first (%d value triples%s)%s" % (
        n, "" if ctx.tier == "thorough" else ", boundary grid", "" if not badp else ": " + badp), site=T.span_str(b["span"])))
    # ascii encoder arms
    obs += _ascii_enc(ctx, r)
    obs += floor(obs, r, 256 * 3 + 4, "character set rows")
    return obs


def _ascii_enc(ctx, r):
    """one iteration of the ASCII encoder's loop folded against a model context (no mode switch pending, a given rest of
    the input): what is pushed and how many characters are consumed - for every single byte and every pair of digits"""
    f = ctx.facts()
    fn = "encodation::ascii::encode"
    need(fn in f.thir, r, fn)
    b = f.thir[fn]
    obs = []
    loops = [n for n in T.exprs(b["body"], "Loop")]
    need(len(loops) >= 1, r, fn, "(encoder loop)")
    lp = loops[0]
    pre = []
    # statements of the function body that precede the loop (e.g. a helper closure) are executed first
    top = b["body"]
    while top.get("k") == "Block" and not top.get("stmts") and "expr" in top:
        top = top["expr"]
    if top.get("k") == "Block":
        for st in top.get("stmts", []):
            node = st.get("init") if st["k"] == "Let" else st.get("expr")
            if node is not None and any(n is lp for n in T.walk(node)):
                break
            pre.append(st)
    cname = b["params"][0]["pat"]["name"]

    def iteration(rest):
        rest = list(rest)
        sink = []
        eaten = [0]

        def opt(v):
            if v is None:
                return {"__adt__": "core::option::Option", "__variant__": "None"}
            return {"__adt__": "core::option::Option", "__variant__": "Some", "#0": v, "0": v}

        def on_call(folder, c):
            cc = T.canon(T.callee_of(c))
            last = cc.split("::")[-1]
            if T.sink_call(folder, c, sink):
                return None
            if last == "maybe_switch_mode":
                return {"__adt__": "core::result::Result", "__variant__": "Ok", "#0": False, "0": False}
            if last == "rest":
                return list(rest[eaten[0]:])
            if last == "eat":
                if eaten[0] < len(rest):
                    eaten[0] += 1
                    return opt(rest[eaten[0] - 1])
                return opt(None)
            if last == "has_more_characters":
                return eaten[0] < len(rest)
            if last == "characters_left":
                return len(rest) - eaten[0]
            if last == "peek" and len(c["args"]) == 2:
                k = folder.fold(c["args"][1])
                return opt(rest[eaten[0] + k] if eaten[0] + k < len(rest) else None)
            return NotImplemented
        fo = T.Folder(f, env={cname: T.Token("ctx")}, on_call=on_call, effects=True)
        fo.exec_stmts(pre)
        try:
            fo.fold(lp["body"])
            how = "next"
        except T.ContinueEx:
            how = "next"
        except T.BreakEx:
            how = "break"
        except T.ReturnEx:
            how = "return"
        return sink, eaten[0], how

    bad = None
    n = 0
    try:
        for ch in range(256):
            for nxt in ([], [65], [48]):
                if 48 <= ch <= 57 and nxt == [48]:
                    continue
                sink, k, how = iteration([ch] + nxt)
                n += 1
                want = [ch + 1] if ch < 128 else [235, ch - 128 + 1]
                if (sink != want or k != 1 or how != "next") and bad is None:
                    bad = "byte 0x%02X (followed by %r) is emitted as %r consuming %d, ASCII encodation says %r consuming 1" % (ch, nxt, sink, k, want)
    except (T.Trap, T.Undecidable) as ex:
        bad = bad or "cannot decide: the encoder loop does not fold (%s)" % ex
    obs.append(Ob(r, "ascii:single", bad is None, "ASCII encodation: bytes 0..127 -> value+1, 128..255 -> Upper Shift (235) then value-127 (%d cases)%s" % (n, "" if not bad else ": " + bad), site=T.span_str(lp["span"])))
    bad = None
    try:
        for a in range(48, 58):
            for d in range(48, 58):
                for tail in ([], [49]):
                    sink, k, how = iteration([a, d] + tail)
                    want = [130 + (a - 48) * 10 + (d - 48)]
                    if (sink != want or k != 2 or how != "next") and bad is None:
                        bad = "digits %c%c -> %r consuming %d, standard says %r consuming 2" % (a, d, sink, k, want)
    except (T.Trap, T.Undecidable) as ex:
        bad = bad or "cannot decide: the encoder loop does not fold (%s)" % ex
    obs.append(Ob(r, "ascii:digit-pair", bad is None, "two digits d1 d2 -> codeword 130 + 10*d1 + d2, both consumed (first character = tens)%s" % ("" if not bad else ": " + bad)))
    return obs


# ---- decoder tables ---------------------------------------------------------------------------

def dec_c40_automaton(f, rule, base, shift3):
    """(shift, upper, value) -> (pushes, new_shift, new_upper) | ('err', variant)  extracted from decode_c40_like's per-value loop body"""
    fn = "decodation::decode_c40_like"
    need(fn in f.thir, rule, fn)
    b = f.thir[fn]
    body = None
    chname = None
    for m in T.exprs(b["body"], "Match"):
        fl = T.for_loop_parts(m)
        # the per-value loop: its variable is a single u8 binding (whatever it is called)
        if fl and fl[1].get("k") == "Bind" and fl[1].get("ty") == "u8" and body is None:
            body = fl[2]
            chname = fl[1]["name"]
    need(body is not None, rule, fn, "(loop over the three values)")
    ps = [p["pat"]["name"] for p in b["params"]]
    shift_name = upper_name = None
    shift_enum = None
    for st in b["body"]["stmts"]:
        if st["k"] == "Let" and st["pat"].get("k") == "Bind":
            n = st["pat"]["name"]
            init = T.strip(st.get("init") or {})
            # the two state variables by role: `let mut <shift set> = 0`, `let mut <upper shift pending> = false`
            if T.is_mut_binding(st["pat"]) and init.get("k") == "Lit" and init.get("int") == 0 and "bool" not in init and shift_name is None:
                shift_name = n
            # the shift set as a private four-variant enum (declaration order = base set, shift 1, 2, 3)
            if T.is_mut_binding(st["pat"]) and init.get("k") == "Adt" and shift_name is None:
                ad = f.adts.get(T.canon(str(init.get("adt", ""))))
                if ad and ad.get("kind") == "Enum" and len(ad["variants"]) == 4 and all(not v0.get("fieldtys") for v0 in ad["variants"]) \
                        and init.get("variant") == sorted(ad["variants"], key=lambda v0: v0["idx"])[0]["name"]:
                    shift_name = n
                    shift_enum = (T.canon(str(init["adt"])), [v0["name"] for v0 in sorted(ad["variants"], key=lambda v0: v0["idx"])])
            if T.is_mut_binding(st["pat"]) and init.get("k") == "Lit" and init.get("bool") is False and upper_name is None:
                upper_name = n
    need(shift_name and upper_name, rule, fn, "(shift / upper_shift state variables)")
    tab = {}
    for sh in range(4):
        for up in (False, True):
            for v in range(256):
                sink = []
                sh_val = {"__adt__": shift_enum[0], "__variant__": shift_enum[1][sh]} if shift_enum else sh
                env = {chname: v, shift_name: sh_val, upper_name: up, ps[2]: base, ps[3]: shift3, ps[1]: "OUT", ps[0]: "DATA"}
                fo = T.Folder(f, env=env, on_call=_push_hook(sink), effects=True)
                try:
                    try:
                        fo.fold(body)
                    except T.ContinueEx:
                        pass            # `continue` ends the handling of this value like reaching the end of the body
                    new_sh = fo.env[shift_name]
                    if shift_enum and isinstance(new_sh, dict) and new_sh.get("__variant__") in shift_enum[1]:
                        new_sh = shift_enum[1].index(new_sh["__variant__"])
                    tab[(sh, up, v)] = (tuple(sink), new_sh, fo.env[upper_name])
                except T.ReturnEx as rx:
                    rv = rx.value
                    inner = rv.get("#0") if isinstance(rv, dict) else None
                    tab[(sh, up, v)] = ("err", inner.get("__variant__") if isinstance(inner, dict) else None)
                except T.Trap as ex:
                    tab[(sh, up, v)] = ("trap", str(ex))
                except T.Undecidable as ex:
                    tab[(sh, up, v)] = ("undecidable", str(ex))
    return tab, T.span_str(b["span"])


def _dec_parts_tables(f, rule):
    """which tables decode_parts passes to decode_c40_like for C40 and Text"""
    fn = "decodation::decode_parts"
    need(fn in f.thir, rule, fn)
    res = {}
    m = None
    # the dispatch on the mode: in decode_parts itself or in a private helper of the module it delegates the loop body to
    bodies = [f.thir[fn]["body"]]
    for c in T.calls(f.thir[fn]["body"]):
        cc = T.canon(T.callee_of(c))
        if cc.startswith("decodation::") and cc not in ("decodation::decode_ascii", "decodation::decode_base256", "decodation::decode_x12", "decodation::decode_edifact",
                                                       "decodation::decode_c40_like") and "::Reader" not in cc and "eci" not in cc:
            for n2, b2 in f.thir.items():
                if T.canon(n2) == cc:
                    bodies.append(b2["body"])
    for body_ in bodies:
        for x in T.exprs(body_, "Match"):
            s = T.strip(x["scrut"])
            if s.get("k") == "Var" and str(s.get("ty", "")).endswith("EncodationType") and m is None:
                m = x
    need(m, rule, fn, "(match on mode)")
    rows, rest = T.enum_match_table(m, MODES)
    for vs, body, arm in rows:
        cs = [c for c in T.calls(body) if T.canon(T.callee_of(c)).startswith("decodation::decode_")]
        for v in vs:
            res[v] = (cs, arm, len(vs))
    wild = any(T.pat_variants(a["pat"]) is None for a in m["arms"])
    return res, rest, wild


def tab_dec(ctx):
    r = "TAB-DEC"
    f = ctx.facts()
    obs = []
    disp, rest, wild = _dec_parts_tables(f, r)
    tables = {}
    for mode in ("C40", "Text"):
        cs, arm, _n = disp.get(mode, ([], None, 0))
        ok = len(cs) == 1 and T.canon(T.callee_of(cs[0])) == "decodation::decode_c40_like"
        if ok:
            a2, a3 = T.sx(cs[0]["args"][2]), T.sx(cs[0]["args"][3])
            ok = a2[0] == "const" and a3[0] == "const" and isinstance(a2[2], tuple) and isinstance(a3[2], tuple)
            if ok:
                tables[mode] = (list(a2[2]), list(a3[2]))
    for mode, text in (("C40", False), ("Text", True)):
        need(mode in tables, r, "decode_parts", "(tables passed for %s)" % mode)
        base, sh3 = tables[mode]
        auto, site = dec_c40_automaton(f, r, base, sh3)
        ref = ref_c40_dec(text)
        for sh in range(4):
            for v in range(256):
                want = ref[(sh, v)]
                for up in (False, True):
                    got = auto[(sh, up, v)]
                    if want[0] == "shift":
                        exp = ((), want[1], up)
                    elif want[0] == "char":
                        exp = ((want[1] + (128 if up else 0),), 0, False)
                    elif want[0] == "upper":
                        exp = ((), 0, True)
                    elif want[0] == "fnc1":
                        exp = ("err", "NotImplemented")
                    else:
                        exp = ("err", "UnexpectedCharacter")
                    if v > 39 and sh == 0:
                        pass
                    obs.append(Ob(r, "%s:s%d:%s:%d" % (mode, sh, "U" if up else "-", v), got == exp,
                                  "%s decoder, shift set %d, value %d%s: %r; Annex C says %r" % (mode, sh, v, " after Upper Shift" if up else "", got, exp), site=site))
    # X12 values
    fn = "decodation::dec_x12_val"
    inv = {ref_x12(ch): ch for ch in range(256) if ref_x12(ch) is not None}
    if fn in f.thir:
        b = f.thir[fn]
        chp = b["params"][0]["pat"]["name"]
        for v in range(256):
            try:
                res = T.Folder(f, env={chp: v}, effects=True).run(b["body"])
                got = res.get("#0") if isinstance(res, dict) and res.get("__variant__") == "Ok" else ("err",)
            except (T.Trap, T.Undecidable) as ex:
                got = str(ex)
            want = inv.get(v, ("err",))
            obs.append(Ob(r, "x12:%d" % v, got == want, "X12 value %d decodes to %r; 5.2.7 says %r" % (v, got, want), site=T.span_str(b["span"])))
    else:
        # no per-value helper: the table is read off decode_x12 folded as a whole (values 0..=40 are all a codeword pair can carry)
        xtab, xsite = x12_dec_table(ctx, r)
        for v in range(256):
            want = inv.get(v, ("err",))
            if v > 40:
                obs.append(Ob(r, "x12:%d" % v, True, "X12 value %d cannot come out of a codeword pair (c1 <= 40, c2, c3 <= 39)" % v, site=xsite))
                continue
            got = xtab[v]
            exp = [want] * len(got)
            obs.append(Ob(r, "x12:%d" % v, got == exp and len(got) >= 1, "X12 value %d decodes to %r at the positions of a triple; 5.2.7 says %r" % (v, got, want), site=xsite))
    # EDIFACT values
    etab, esite = edifact_dec_table(ctx, r)
    unl = f.const("encodation::edifact::UNLATCH")
    for v in range(64):
        got = etab[v]
        want = v if v >= 32 else v + 64
        if v == unl:
            ok = got == [("stop", k) for k in range(4)]
            obs.append(Ob(r, "edifact:%d" % v, ok, "EDIFACT value %d is the unlatch: at each of the four positions of a triple the run stops there (%r)" % (v, got), site=esite))
        else:
            obs.append(Ob(r, "edifact:%d" % v, got == [want] * 4, "EDIFACT value %d decodes to %r at the four positions of a triple; 5.2.8 says %d" % (v, got, want), site=esite))
    # tuple unpacking
    fn = "decodation::decode_c40_tuple"
    need(fn in f.thir, r, fn)
    b = f.thir[fn]
    ps = [p["pat"]["name"] for p in b["params"]]
    edge = [0, 1, 2, 63, 64, 127, 128, 254, 255]
    bs = range(256) if ctx.tier == "thorough" else edge
    badt = None
    n = 0
    for a in range(256):
        for d in bs:
            n += 1
            try:
                res = T.Folder(f, env={ps[0]: a, ps[1]: d}, effects=True).run(b["body"])
            except T.Trap as ex:
                res = "TRAP " + str(ex)
            except T.Undecidable as ex:
                res = "undecidable " + str(ex)
            full = a * 256 + d
            if full == 0:
                ok = isinstance(res, dict) and res.get("__variant__") == "Err"
                want = "Err"
            else:
                x = full - 1
                want = (x // 1600, (x % 1600) // 40, x % 40)
                got = res.get("#0") if isinstance(res, dict) and res.get("__variant__") == "Ok" else res
                ok = tuple(got) == want if isinstance(got, (tuple, list)) else False
            if not ok and badt is None:
                badt = "decode_c40_tuple(%d,%d) = %r, expected %r" % (a, d, res if not isinstance(res, dict) else res.get("#0", res.get("__variant__")), want)
    obs.append(Ob(r, "unpack3", badt is None, "codeword pairs are unpacked as (v-1) div 1600, div 40, mod 40 and the pair (0,0) is rejected without trapping (%d pairs%s)%s" % (
        n, "" if ctx.tier == "thorough" else ": all first bytes x boundary second bytes", "" if not badt else ": " + badt), site=T.span_str(b["span"])))
    obs += _ascii_dec(ctx, r)
    obs += floor(obs, r, 2 * 4 * 256 * 2 + 256 + 64 + 1, "decoder rows")
    return obs


def ascii_dec_table(f, rule):
    """{(after upper shift?, codeword): step} of the ASCII decoder - read off the body of its `while let Ok(ch) = data.eat()` loop
    folded per (state, codeword); when the loop does not have that shape (no state flag, restructured arms), read off
    decode_ascii folded as a whole on the two- and three-codeword streams [cw, 'B'+1] and [235, cw, 'B'+1]"""
    from .core import AnchorMissing
    try:
        return _ascii_dec_table_loop(f, rule)
    except AnchorMissing as ex:
        tab = _ascii_dec_table_exec(f)
        if tab is None:
            raise ex
        return tab, T.span_str(f.thir["decodation::decode_ascii"]["span"])


def _ascii_dec_table_exec(f):
    fn = "decodation::decode_ascii"
    b = f.thir.get(fn)
    if b is None or len(b["params"]) != 3 or any((p_.get("pat") or {}).get("k") != "Bind" for p_ in b["params"]):
        return None
    ps = [p_["pat"]["name"] for p_ in b["params"]]
    NEXT = 67          # codeword of 'B'

    def run(stream):
        rd = {"__adt__": "decodation::Reader", "__variant__": "Reader", "0": list(stream), "#0": list(stream), "1": 4, "#1": 4}
        out = []

        def on_call(folder, c):
            if T.canon(T.callee_of(c)) == "decodation::read_eci":
                raise _Special("eci")
            return NotImplemented
        fo = T.Folder(f, env={ps[0]: rd, ps[1]: out, ps[2]: []}, on_call=on_call, effects=True, local_calls=3)
        res = fo.run(b["body"])
        left = None
        mode = None
        if isinstance(res, dict) and res.get("__variant__") == "Ok":
            tup = res.get("#0")
            if isinstance(tup, (tuple, list)) and len(tup) == 2 and isinstance(tup[0], dict):
                left = len(T._loaded(tup[0].get("#0", tup[0].get("0"))))
                mode = tup[1].get("__variant__") if isinstance(tup[1], dict) else tup[1]
            return ("ok", [T._loaded(x) for x in out], left, mode)
        if isinstance(res, dict) and res.get("__variant__") == "Err":
            inner = res.get("#0")
            return ("err", inner.get("__variant__") if isinstance(inner, dict) else None, [T._loaded(x) for x in out])
        return ("other",)
    tab = {}
    for up in (False, True):
        for v in range(256):
            pre = [235] if up else []
            try:
                if not up and v == 129:
                    tab[(up, v)] = ("loop", "pad checking")
                    continue
                got = run(pre + [v, NEXT])
                if got[0] == "err":
                    tab[(up, v)] = ("err", got[1])
                elif got[0] == "ok" and got[3] not in (None, "Ascii") and got[2] == 1:
                    # returned right after this codeword with a latch
                    tab[(up, v)] = ("latch", got[3], tuple(got[1]))
                elif got[0] == "ok" and got[3] == "Ascii" and got[2] == 0 and got[1][-1:] == [NEXT - 1]:
                    tab[(up, v)] = ("cont", tuple(got[1][:-1]), False)
                elif got[0] == "ok" and got[3] == "Ascii" and got[2] == 0 and got[1][-1:] == [NEXT - 1 + 128]:
                    # the following codeword came out shifted: this one set the upper-shift state
                    tab[(up, v)] = ("cont", tuple(got[1][:-1]), True)
                else:
                    tab[(up, v)] = ("other", repr(got)[:80])
            except _Special as sp:
                tab[(up, v)] = (sp.what,)
            except T.Trap as ex:
                tab[(up, v)] = ("trap", str(ex))
            except T.Undecidable as ex:
                tab[(up, v)] = ("undecidable", str(ex))
    return tab


def _ascii_dec_table_loop(f, rule):
    fn = "decodation::decode_ascii"
    need(fn in f.thir, rule, fn)
    b = f.thir[fn]
    then = None
    chname = None
    for pat_, scrut_, then_ in T.iflet_sites(b["body"]):
        if any(T.canon(T.callee_of(k)).endswith("Reader::eat") for k in T.calls(scrut_)):
            names = T.pat_names(pat_)
            if names and T._variant_pat(pat_) and T._variant_pat(pat_)[0] == "Ok":
                then = then_
                chname = names[0]
                break
    need(then is not None, rule, fn, "(while let Ok(ch) = data.eat())")
    upper_name = None
    for st in b["body"]["stmts"]:
        if st["k"] == "Let" and st["pat"].get("k") == "Bind" and T.is_mut_binding(st["pat"]) and T.strip(st.get("init") or {}).get("bool") is False and upper_name is None:
            upper_name = st["pat"]["name"]
    need(upper_name, rule, fn, "(upper_shift)")
    ps = [p["pat"]["name"] for p in b["params"]]
    tab = {}
    for up in (False, True):
        for v in range(256):
            sink = []

            def extra(folder, c, cc):
                if cc == "decodation::read_eci":
                    raise _Special("eci")
                return NotImplemented
            env = {chname: v, upper_name: up, ps[0]: "DATA", ps[1]: "OUT", ps[2]: "ECIS"}
            fo = T.Folder(f, env=env, on_call=_push_hook(sink, extra), effects=True)
            try:
                try:
                    fo.fold(then)
                except T.ContinueEx:
                    pass        # `continue` = on to the next codeword, like reaching the end of the body
                tab[(up, v)] = ("cont", tuple(sink), fo.env[upper_name])
            except T.ReturnEx as rx:
                rv = rx.value
                if isinstance(rv, dict) and rv.get("__variant__") == "Ok":
                    tup = rv.get("#0")
                    mode = tup[1].get("__variant__") if isinstance(tup, (tuple, list)) and isinstance(tup[1], dict) else tup
                    tab[(up, v)] = ("latch", mode, tuple(sink))
                else:
                    inner = rv.get("#0") if isinstance(rv, dict) else None
                    tab[(up, v)] = ("err", inner.get("__variant__") if isinstance(inner, dict) else None)
            except _Special as sp:
                tab[(up, v)] = (sp.what,)
            except T.Trap as ex:
                tab[(up, v)] = ("trap", str(ex))
            except T.Undecidable as ex:
                # the PAD arm contains the pad-checking loop
                tab[(up, v)] = ("loop", str(ex))
    return tab, T.span_str(b["span"])


class _Special(Exception):
    def __init__(self, what):
        super().__init__(what)
        self.what = what


def ref_ascii_dec(up, v):
    if up:
        if 1 <= v <= 128:
            return ("cont", (v + 127,), False)
        return ("err", "UnexpectedCharacter")
    if 1 <= v <= 128:
        return ("cont", (v - 1,), False)
    if v == 129:
        return ("loop",)
    if 130 <= v <= 229:
        d = v - 130
        return ("cont", (48 + d // 10, 48 + d % 10), False)
    if v == 230:
        return ("latch", "C40", ())
    if v == 231:
        return ("latch", "Base256", ())
    if v == 232:
        return ("cont", (29,), False)
    if v in (233, 234):
        return ("err", "NotImplemented")
    if v == 235:
        return ("cont", (), True)
    if v == 238:
        return ("latch", "X12", ())
    if v == 239:
        return ("latch", "Text", ())
    if v == 240:
        return ("latch", "Edifact", ())
    if v == 241:
        return ("eci",)
    return ("err", "UnexpectedCharacter")


def _ascii_dec(ctx, r):
    f = ctx.facts()
    tab, site = ascii_dec_table(f, r)
    obs = []
    for up in (False, True):
        for v in range(256):
            want = ref_ascii_dec(up, v)
            got = tab[(up, v)]
            ok = got[:len(want)] == want if want[0] == "loop" else got == want
            obs.append(Ob(r, "ascii:%s:%d" % ("U" if up else "-", v), ok, "ASCII codeword %d%s: decoder does %r; Table 2 says %r" % (v, " after Upper Shift" if up else "", got, want), site=site))
    return obs


def dec_mode(ctx):
    r = "DEC-MODE"
    f = ctx.facts()
    obs = []
    disp, rest, wild = _dec_parts_tables(f, r)
    obs.append(Ob(r, "exhaustive", not rest and not wild, "decode_parts dispatches all six modes without a wildcard arm", detail={"unmatched": rest, "wildcard": wild}))
    want = {"Ascii": "decodation::decode_ascii", "Base256": "decodation::decode_base256", "X12": "decodation::decode_x12",
            "Edifact": "decodation::decode_edifact", "C40": "decodation::decode_c40_like", "Text": "decodation::decode_c40_like"}
    tabs = {"C40": ("decodation::BASE_C40", "decodation::SHIFT3_C40"), "Text": ("decodation::BASE_TEXT", "decodation::SHIFT3_TEXT")}
    for mode in MODES:
        cs, arm, n = disp.get(mode, ([], None, 0))
        ok = len(cs) == 1 and T.canon(T.callee_of(cs[0])) == want[mode] and n == 1
        if ok and mode in tabs:
            a2, a3 = T.sx(cs[0]["args"][2]), T.sx(cs[0]["args"][3])
            ok = a2[:2] == ("const", tabs[mode][0]) and a3[:2] == ("const", tabs[mode][1])
        obs.append(Ob(r, "mode:" + mode, ok, "mode %s is decoded by %s%s" % (mode, want[mode].split("::")[-1], " with its own tables" if mode in tabs else ""),
                      site=T.span_str(arm["span"]) if arm else None))
    # every non-ASCII decoder hands control back to ASCII (also T-ALT of C05)
    for fn in ("decodation::decode_base256", "decodation::decode_x12", "decodation::decode_edifact", "decodation::decode_c40_like"):
        need(fn in f.thir, r, fn)
        sts = T.stmts(f.thir[fn]["body"], {"__noinline__": True})
        oks = [st for st in T.stmt_walk(sts) if (st[0] in ("return", "expr")) and st[1] is not None and st[1][0] == "adt" and st[1][2] == "Ok" and st[1][1] == "core::result::Result"]
        good = bool(oks)
        for st in oks:
            tup = st[1][3][0][1]
            good = good and tup[0] == "tuple" and tup[1][1][0] == "adt" and tup[1][1][2] == "Ascii"
        obs.append(Ob(r, "returns-ascii:" + fn.split("::")[-1], good, "%s always hands control back to ASCII mode" % fn.split("::")[-1]))
    obs += floor(obs, r, 1 + 6 + 4, "dispatch obligations")
    return obs


def _cmp_set(e, var_pred):
    """normalise `len OP const` to the set of satisfying lengths in 0..8"""
    if e[0] == "call" and e[1].endswith("Reader::is_empty"):
        return frozenset({0})
    if e[0] == "un" and e[1] == "Not":
        s = _cmp_set(e[2], var_pred)
        return None if s is None else frozenset(range(9)) - s
    if e[0] == "bin" and e[1] in ("Lt", "Le", "Gt", "Ge", "Eq", "Ne"):
        a, b = e[2], e[3]
        op = e[1]
        if var_pred(b) and a[0] == "lit":
            a, b = b, a
            op = {"Lt": "Gt", "Le": "Ge", "Gt": "Lt", "Ge": "Le", "Eq": "Eq", "Ne": "Ne"}[op]
        if var_pred(a) and b[0] == "lit" and isinstance(b[1], int):
            k = b[1]
            fn = {"Lt": lambda x: x < k, "Le": lambda x: x <= k, "Gt": lambda x: x > k, "Ge": lambda x: x >= k, "Eq": lambda x: x == k, "Ne": lambda x: x != k}[op]
            return frozenset(x for x in range(9) if fn(x))
    return None


def x12_dec_table(ctx, rule):
    """what decode_x12 (folded as a whole, with the crate's Reader and pair unpacking) appends for X12 value v at each position
    of a triple: {v: [byte | ("err",) | text]} (v = 40 only exists in the first position)"""
    f = ctx.facts()
    fn = "decodation::decode_x12"
    need(fn in f.thir, rule, fn)
    b = f.thir[fn]
    need(len(b["params"]) == 2 and all(p_.get("pat", {}).get("k") == "Bind" for p_ in b["params"]), rule, fn, "(data, out)")
    pn = [p_["pat"]["name"] for p_ in b["params"]]
    base = [14, 2, 30]          # 'A', CR-terminator class.., all valid X12 values with known images

    def compute():
        tab = {}
        for v in range(41):
            row = []
            for k in range(3 if v < 40 else 1):
                vals = list(base)
                vals[k] = v
                full = 1600 * vals[0] + 40 * vals[1] + vals[2] + 1
                raw = [full >> 8, full & 255, 254]
                rd = {"__adt__": "decodation::Reader", "__variant__": "Reader", "0": list(raw), "#0": list(raw), "1": 3, "#1": 3}
                out = []
                try:
                    res = T.Folder(f, env={pn[0]: rd, pn[1]: out}, effects=True, local_calls=3).run(b["body"])
                    if isinstance(res, dict) and res.get("__variant__") == "Err":
                        row.append(["err"])
                    elif len(out) == 3 and all(isinstance(x, int) for x in out):
                        others_ok = all(out[i] == {14: 65, 2: 62, 30: 81}[vals[i]] for i in range(3) if i != k)
                        row.append(out[k] if others_ok else "neighbouring values decode to %r" % (out,))
                    else:
                        row.append("appends %r" % (out,))
                except T.Trap as ex:
                    row.append("trap: %s" % ex)
                except T.Undecidable as ex:
                    row.append("cannot decide: %s" % ex)
            tab[str(v)] = row
        return tab
    tab = ctx.memo("x12_dec_table", compute)
    return {int(k): [tuple(x) if isinstance(x, list) else x for x in row] for k, row in tab.items()}, T.span_str(b["span"])


def edifact_dec_table(ctx, rule):
    """what decode_edifact (folded as a whole, with the crate's Reader) appends for six-bit value v placed at each of the four
    positions of a triple: {v: [byte | ("stop", k) | text]}; the triple is followed by one that starts with the unlatch value"""
    f = ctx.facts()
    fn = "decodation::decode_edifact"
    need(fn in f.thir, rule, fn)
    b = f.thir[fn]
    need(len(b["params"]) == 2 and all(p_.get("pat", {}).get("k") == "Bind" for p_ in b["params"]), rule, fn, "(data, out)")
    pn = [p_["pat"]["name"] for p_ in b["params"]]
    unl = f.const("encodation::edifact::UNLATCH")
    need(isinstance(unl, int), rule, "encodation::edifact::UNLATCH")
    others = [x for x in (33, 2, 50, 4) if x != unl]

    def compute():
        tab = {}
        for v in range(64):
            row = []
            for k in range(4):
                vals = list(others[:4])
                vals[k] = v
                w = (vals[0] << 18) | (vals[1] << 12) | (vals[2] << 6) | vals[3]
                raw = [(w >> 16) & 255, (w >> 8) & 255, w & 255, (unl << 2) & 255, 0, 0]
                rd = {"__adt__": "decodation::Reader", "__variant__": "Reader", "0": list(raw), "#0": list(raw), "1": 5, "#1": 5}
                out = []
                try:
                    T.Folder(f, env={pn[0]: rd, pn[1]: out}, effects=True, local_calls=3).run(b["body"])
                    want_prefix = [x if x >= 32 else x + 64 for x in vals[:k]]
                    if out[:k] != want_prefix:
                        row.append("values before position %d decode to %r" % (k, out[:k]))
                    elif len(out) == k:
                        row.append(["stop", k])
                    elif len(out) == 4 or v != unl:
                        row.append(out[k] if len(out) == 4 and isinstance(out[k], int) else "appends %r" % (out,))
                    else:
                        row.append("appends %r" % (out,))
                except T.Trap as ex:
                    row.append("trap: %s" % ex)
                except T.Undecidable as ex:
                    row.append("cannot decide: %s" % ex)
            tab[str(v)] = row
        return tab
    tab = ctx.memo("edifact_dec_table", compute)
    return {int(k): [tuple(x) if isinstance(x, list) else x for x in row] for k, row in tab.items()}, T.span_str(b["span"])


def _final_unlatch_by_fold(f, fn):
    """the statements of `fn` after its (one) loop, executed with the reader positioned on each short remainder: the set of
    remainder lengths L (remainder = L codewords, the first being 254) for which exactly that one codeword is consumed, provided
    nothing is consumed when the first codeword is not 254.  None if that code does not fold."""
    b = f.thir.get(fn)
    raw = b["body"].get("stmts", [])
    k_loop = None
    for k, st in enumerate(raw):
        node = st.get("init") if st["k"] == "Let" else st.get("expr")
        if node is not None and any(n.get("k") == "Loop" for n in T.walk(node)):
            k_loop = k
    if k_loop is None:
        return None
    suffix = raw[k_loop + 1:]
    pname = b["params"][0]["pat"]["name"] if b["params"] and b["params"][0].get("pat", {}).get("k") == "Bind" else None
    if pname is None:
        return None
    # variables declared before the loop are opaque after it, except the reader
    pre_names = [n for st in raw[:k_loop] if st["k"] == "Let" for n in T.pat_names(st["pat"])]

    def run(stream):
        rd = {"__adt__": "decodation::Reader", "__variant__": "Reader", "0": list(stream), "#0": list(stream), "1": 7, "#1": 7}
        env = {n: T.Token(n.split("#")[0]) for n in pre_names}
        for p_ in b["params"][1:]:
            if p_.get("pat", {}).get("k") == "Bind":
                env[p_["pat"]["name"]] = T.Token("out")
        env[pname] = rd
        fo = T.Folder(f, env=env, effects=True, local_calls=3)
        fo.exec_stmts(suffix)
        return len(stream) - len(fo.env[pname]["0"])
    try:
        ok_len = set()
        for L in range(0, 5):
            eaten = run([254] + [65] * (L - 1)) if L else run([])
            other = run([65] * L) if L else 0
            other2 = run([65] * (L - 1) + [254]) if L >= 2 else 0
            if other or other2:
                return frozenset({-1})         # consumes although the remainder does not start with a lone 254
            if eaten == 1:
                ok_len.add(L)
            elif eaten:
                return frozenset({-2})
        return frozenset(ok_len)
    except (T.Undecidable, T.Trap, KeyError, TypeError):
        return None


def dec_forms_exec(ctx):
    """the termination forms of the three packed-mode decoders read off the functions folded as a whole (crate's own Reader) on
    every stream shape of up to five codewords over the classes {254 (unlatch), a codeword of a valid pair / triple}:
    {decoder: {stream shape: (codewords consumed, bytes appended, result)}} -> obligations.  (dict | None)"""
    def compute():
        f = ctx.facts()
        out = {}
        # a codeword pair holding three plain values (base set: 'A','B','C' = 14,15,16): 1600*14+40*15+16+1
        full = 1600 * 14 + 40 * 15 + 16 + 1
        P = [full >> 8, full & 255]
        E3 = [(1 << 2) | (2 >> 4), ((2 & 15) << 4) | (3 >> 2), ((3 & 3) << 6) | 4]      # EDIFACT triple 1,2,3,4 (no unlatch)
        specs = {
            "decode_x12": ("decodation::decode_x12", [], {"[]": [], "[254]": [254], "[x]": [65], "[254,x]": [254, 65], "[254,x,y]": [254, 65, 66], "[P]": P, "[P,254]": P + [254], "[P,x]": P + [65],
                                                            "[P,P]": P + P, "[P,254,x]": P + [254, 65], "[P,P,254]": P + P + [254]}),
            "decode_c40_like": ("decodation::decode_c40_like", ["C40"], {"[]": [], "[254]": [254], "[x]": [65], "[254,x]": [254, 65], "[254,x,y]": [254, 65, 66], "[P]": P, "[P,254]": P + [254], "[P,x]": P + [65],
                                                                          "[P,P]": P + P, "[P,254,x]": P + [254, 65], "[P,P,254]": P + P + [254]}),
            "decode_edifact": ("decodation::decode_edifact", [], {"[]": [], "[x]": [E3[0]], "[x,y]": E3[:2], "[E3]": E3, "[E3,x]": E3 + [E3[0]], "[E3,x,y]": E3 + E3[:2], "[E3,E3]": E3 + E3,
                                                                  "[U..]": [31 << 2, 0, 0], "[E3,U..]": E3 + [31 << 2, 0, 0]}),
        }
        for key, (fn, extra, streams) in specs.items():
            b = f.thir.get(fn)
            if b is None or any((p_.get("pat") or {}).get("k") != "Bind" for p_ in b["params"]):
                return None
            ps = [p_["pat"]["name"] for p_ in b["params"]]
            rows = {}
            for nm, st in streams.items():
                rd = {"__adt__": "decodation::Reader", "__variant__": "Reader", "0": list(st), "#0": list(st), "1": 2, "#1": 2}
                o = []
                env = {ps[0]: rd, ps[1]: o}
                if extra:
                    if len(ps) != 4:
                        return None
                    env[ps[2]] = list(f.const("decodation::BASE_C40") or [])
                    env[ps[3]] = list(f.const("decodation::SHIFT3_C40") or [])
                try:
                    res = T.Folder(f, env=env, effects=True, local_calls=3).run(b["body"])
                except T.Trap as ex:
                    rows[nm] = ["trap", str(ex)]
                    continue
                except T.Undecidable as ex:
                    return None
                if isinstance(res, dict) and res.get("__variant__") == "Ok":
                    tup = res.get("#0")
                    left = len(T._loaded(tup[0].get("#0", tup[0].get("0")))) if isinstance(tup, (tuple, list)) and isinstance(tup[0], dict) else None
                    mode = tup[1].get("__variant__") if isinstance(tup, (tuple, list)) and isinstance(tup[1], dict) else None
                    rows[nm] = ["ok", len(st) - left if left is not None else None, len(o), mode]
                else:
                    rows[nm] = ["err"]
            out[key] = rows
        return out
    return ctx.memo("dec_forms_exec", compute)


DEC_FORMS_WANT = {
    # stream shape -> (codewords consumed, bytes appended); the next mode is always ASCII
    "pairs": {"[]": (0, 0), "[254]": (1, 0), "[x]": (0, 0), "[254,x]": (1, 0), "[254,x,y]": (1, 0), "[P]": (2, 3), "[P,254]": (3, 3), "[P,x]": (2, 3), "[P,P]": (4, 6), "[P,254,x]": (3, 3), "[P,P,254]": (5, 6)},
    "edifact": {"[]": (0, 0), "[x]": (0, 0), "[x,y]": (0, 0), "[E3]": (3, 4), "[E3,x]": (3, 4), "[E3,x,y]": (3, 4), "[E3,E3]": (6, 8), "[U..]": (1, 0), "[E3,U..]": (4, 4)},
}


def _forms_fallback(ctx, obs, r):
    """obligations of DEC-THRESH whose statement shape was not recognised are decided from the folded termination forms"""
    if all(o.ok for o in obs):
        return obs
    forms = dec_forms_exec(ctx)
    if not forms:
        return obs
    verdict = {}
    for dec, want in (("decode_x12", DEC_FORMS_WANT["pairs"]), ("decode_c40_like", DEC_FORMS_WANT["pairs"]), ("decode_edifact", DEC_FORMS_WANT["edifact"])):
        rows = forms.get(dec, {})
        bad = [nm for nm, w in want.items() if list(rows.get(nm, []))[:4] != ["ok", w[0], w[1], "Ascii"]]
        verdict[dec] = (not bad, bad)
    out = []
    for o in obs:
        if o.ok:
            out.append(o)
            continue
        key = o.key.split(":", 1)[1]
        dec = "decode_edifact" if key.startswith("edifact") else key.split(":")[0]
        ok, bad = verdict.get(dec, (False, ["?"]))
        if ok:
            out.append(Ob(r, key, True, o.what + " (statement shape not recognised; decided by folding %s on every stream shape of up to five codewords: consumed / appended counts as specified)" % dec, site=o.site))
        else:
            out.append(o)
    return out


def dec_thresh(ctx):
    r = "DEC-THRESH"
    from .core import AnchorMissing
    try:
        obs = _dec_thresh_shape(ctx)
    except (AnchorMissing, KeyError, IndexError, TypeError) as ex:
        obs = [Ob(r, k0, False, "%s - statement shape not recognised (%s)" % (k0, str(ex)[:80])) for k0 in
               ("edifact-rest", "decode_c40_like:continue", "decode_c40_like:final-unlatch", "decode_c40_like:unlatch", "decode_x12:continue", "decode_x12:final-unlatch", "decode_x12:unlatch")]
    return _forms_fallback(ctx, obs, r)


def _dec_thresh_shape(ctx):
    r = "DEC-THRESH"
    f = ctx.facts()
    obs = []

    def is_len(x):
        return x[0] == "call" and x[1].endswith("Reader::len")

    def is_empty_call(x):
        return x[0] == "call" and x[1].endswith("Reader::is_empty")
    # EDIFACT: hands the rest to ASCII iff len <= 2
    sts = T.stmts(f.thir["decodation::decode_edifact"]["body"], {"__noinline__": True})
    # lengths at which the chunk loop stops before touching a codeword: the complement of the while condition, plus leading
    # `if <len test> { break }` statements of the body
    found = None
    loops = [s0 for s0 in sts if s0[0] == "loop"]
    if len(loops) == 1 and loops[0][1] and loops[0][1][0][0] == "if" and any(x[0] == "break" for x in loops[0][1][0][3]):
        c = _cmp_set(loops[0][1][0][1], is_len)
        if c is not None:
            found = frozenset(range(9)) - c
            for st in loops[0][1][0][2]:
                s = _cmp_set(st[1], is_len) if st[0] == "if" and isinstance(st[1], tuple) and st[1][0] != "iflet" else None
                if s is not None and len(st[2]) == 1 and st[2][0][0] == "break" and not st[3]:
                    found = found | s
                else:
                    break
    obs.append(Ob(r, "edifact-rest", found == frozenset({0, 1, 2}), "EDIFACT: the remaining codewords are left to ASCII iff at most 2 remain (end-of-symbol rule)", detail=sorted(found) if found is not None else None))
    # C40/Text/X12: triple decoding continues iff len > 1; a single trailing 254 is consumed iff len == 1
    for fn in ("decodation::decode_c40_like", "decodation::decode_x12"):
        sts = T.stmts(f.thir[fn]["body"], {"__noinline__": True})
        loops = [s for s in sts if s[0] == "loop"]
        cont = None
        if loops and loops[0][1] and loops[0][1][0][0] == "if":
            cont = _cmp_set(loops[0][1][0][1], is_len)
        obs.append(Ob(r, "%s:continue" % fn.split("::")[-1], cont == frozenset(range(2, 9)),
                      "%s: pairs are decoded while more than one codeword remains (a single trailing codeword is ASCII)" % fn.split("::")[-1], detail=sorted(cont) if cont is not None else None))
        tail = _final_unlatch_by_fold(f, fn)
        if tail is not None:
            obs.append(Ob(r, "%s:final-unlatch" % fn.split("::")[-1], tail == frozenset({1}),
                          "%s: a final single codeword 254 is consumed as unlatch iff exactly one codeword remains (code after the pair loop folded against the reader for every short remainder)" % fn.split("::")[-1], detail=sorted(tail)))
            brk = False
            if loops:
                for st in T.stmt_walk(loops[0][1]):
                    if st[0] == "if" and st[1][0] == "bin" and st[1][1] == "Eq" and any(x[0] == "const" and x[1] == "encodation::UNLATCH" for x in T.sx_walk(st[1])) and any(x[0] == "break" for x in st[2]):
                        brk = True
            obs.append(Ob(r, "%s:unlatch" % fn.split("::")[-1], brk, "%s: codeword 254 in first position of a pair returns to ASCII" % fn.split("::")[-1]))
            continue
        tail = None
        # (the test may live in a private helper that is called, as a statement, with the reader)
        top = list(sts)
        for st in sts:
            if st[0] == "expr" and st[1][0] == "call" and st[1][1].startswith("decodation::") and not st[1][1].startswith("decodation::Reader"):
                hs, _ = T.fn_stmts(f, next((n for n in f.thir if T.canon(n) == st[1][1]), ""))
                if hs:
                    top += hs
        for st in top:
            if st[0] == "if" and st[1][0] == "logic" and st[1][1] == "And":
                s = _cmp_set(st[1][2], is_len)
                unl = any(x[0] == "const" and x[1] == "encodation::UNLATCH" for x in T.sx_walk(st[1][3])) and any(x[0] == "call" and x[1].endswith("Reader::peek") for x in T.sx_walk(st[1][3]))
                eats = [x for s2 in T.stmt_walk(st[2]) for e in T.stmt_exprs(s2) for x in T.sx_calls(e, "Reader::eat")]
                if s is not None and unl and len(eats) == 1:
                    tail = s
        obs.append(Ob(r, "%s:final-unlatch" % fn.split("::")[-1], tail == frozenset({1}),
                      "%s: a final single codeword 254 is consumed as unlatch iff exactly one codeword remains" % fn.split("::")[-1], detail=sorted(tail) if tail is not None else None))
        # explicit unlatch as first codeword of a pair breaks the loop
        brk = False
        if loops:
            for st in T.stmt_walk(loops[0][1]):
                if st[0] == "if" and st[1][0] == "bin" and st[1][1] == "Eq" and any(x[0] == "const" and x[1] == "encodation::UNLATCH" for x in T.sx_walk(st[1])) and any(x[0] == "break" for x in st[2]):
                    brk = True
        obs.append(Ob(r, "%s:unlatch" % fn.split("::")[-1], brk, "%s: codeword 254 in first position of a pair returns to ASCII" % fn.split("::")[-1]))
    obs += floor(obs, r, 7, "termination forms")
    return obs


# ---- composition: decoder table o encoder table = identity -------------------------------------

def tab_codec(ctx):
    r = "TAB-CODEC"
    f = ctx.facts()
    obs = []
    c40low, _ = enc_c40_low_table(f, r)
    textlow, _ = enc_text_low_table(f, r, c40low)
    enc = {"C40": enc_to_vals_table(f, r, c40low)[0], "Text": enc_to_vals_table(f, r, textlow)[0]}
    disp, rest, wild = _dec_parts_tables(f, r)
    for mode in ("C40", "Text"):
        cs, arm, _n = disp.get(mode, ([], None, 0))
        need(len(cs) == 1, r, "decode_parts", "(%s arm)" % mode)
        a2, a3 = T.sx(cs[0]["args"][2]), T.sx(cs[0]["args"][3])
        need(a2[0] == "const" and a3[0] == "const" and isinstance(a2[2], tuple), r, "decode_parts", "(%s tables)" % mode)
        auto, site = dec_c40_automaton(f, r, list(a2[2]), list(a3[2]))
        for ch in range(256):
            seq = enc[mode].get(ch)
            out = []
            sh, up = 0, False
            ok = isinstance(seq, list)
            if ok:
                for v in seq:
                    step = auto.get((sh, up, v))
                    if not step or step[0] in ("err", "trap", "undecidable"):
                        ok = False
                        out = step
                        break
                    out.extend(step[0])
                    sh, up = step[1], step[2]
                ok = ok and out == [ch] and sh == 0 and up is False
            obs.append(Ob(r, "%s:0x%02X" % (mode, ch), ok, "%s: the values %r the encoder emits for byte 0x%02X are mapped back by the decoder's tables to %r" % (mode, seq, ch, out), site=site))
    # X12
    x12, _ = enc_x12_table(f, r)
    b = f.thir.get("decodation::dec_x12_val")
    xtab = None
    if b is None:
        xtab, _xs = x12_dec_table(ctx, r)
    else:
        chp = b["params"][0]["pat"]["name"]
    for ch in range(256):
        v = x12.get(ch)
        if v is None:
            continue
        if xtab is not None:
            row = xtab.get(v, []) if isinstance(v, int) else []
            got = row[0] if row and all(x == row[0] for x in row) and isinstance(row[0], int) else None
        else:
            try:
                res = T.Folder(f, env={chp: v}, effects=True).run(b["body"])
                got = res.get("#0") if isinstance(res, dict) and res.get("__variant__") == "Ok" else None
            except (T.Trap, T.Undecidable):
                got = None
        obs.append(Ob(r, "X12:0x%02X" % ch, got == ch, "X12: value %r of byte 0x%02X decodes back to %r" % (v, ch, got)))
    # EDIFACT: the encoder keeps the low six bits (write4 masks), the decoder restores bit 6
    etab, _esite = edifact_dec_table(ctx, r)
    enc_ok = pred_table(f, "encodation::edifact::is_encodable", r)
    unl = f.const("encodation::edifact::UNLATCH")
    for ch in range(256):
        if enc_ok.get(ch) is not True:
            continue
        v = ch & 0x3F
        got = etab[v][0] if etab[v] == [etab[v][0]] * 4 else etab[v]
        obs.append(Ob(r, "EDIFACT:0x%02X" % ch, got == ch and v != unl, "EDIFACT: six-bit value %d of byte 0x%02X decodes back to %r and is not the unlatch value" % (v, ch, got)))
    # ASCII
    tab, site = ascii_dec_table(f, r)
    for ch in range(256):
        if ch < 128:
            step = tab[(False, ch + 1)]
            ok = step == ("cont", (ch,), False)
        else:
            s1 = tab[(False, 235)]
            s2 = tab[(True, ch - 128 + 1)]
            ok = s1 == ("cont", (), True) and s2 == ("cont", (ch,), False)
        obs.append(Ob(r, "ASCII:0x%02X" % ch, ok, "ASCII: the codeword(s) for byte 0x%02X decode back to it" % ch, site=site))
    obs += _edifact_pack(ctx, r)
    obs += floor(obs, r, 256 * 3 + 40 + 63, "codec composition rows")
    return obs


def _edifact_pack(ctx, r):
    """write4's bit layout against the 4-values-in-3-codewords layout of 5.2.8 (each field over all 64 values,
    other fields all-zeros and all-ones; lengths 1..4)"""
    f = ctx.facts()
    fn = "encodation::edifact::write4"
    need(fn in f.thir, r, fn)
    b = f.thir[fn]
    sname = b["params"][1]["pat"]["name"]
    bad = None
    n = 0

    def run(vals):
        sink = []

        def extra(folder, c, cc):
            last = cc.split("::")[-1]
            if last == "len":
                return len(vals)
            if last == "get":
                i = folder.fold(c["args"][1])
                if i < len(vals):
                    return {"__adt__": "core::option::Option", "__variant__": "Some", "#0": vals[i], "0": vals[i]}
                return {"__adt__": "core::option::Option", "__variant__": "None"}
            if last == "copied":
                return folder.fold(c["args"][0])
            if last == "unwrap_or":
                o = folder.fold(c["args"][0])
                return o["#0"] if o.get("__variant__") == "Some" else folder.fold(c["args"][1])
            if last in ("index", "deref"):
                if last == "deref":
                    return folder.fold(c["args"][0])
                base = folder.fold(c["args"][0])
                return base[folder.fold(c["args"][1])]
            return NotImplemented
        fo = T.Folder(f, env={sname: list(vals), b["params"][0]["pat"]["name"]: "CTX"}, on_call=_push_hook(sink, extra), effects=True)
        fo.views = True
        fo.run(b["body"])
        return sink
    try:
        for length in (1, 2, 3, 4):
            for pos in range(length):
                for fill in (0, 63):
                    for v in range(64):
                        vals = [fill] * length
                        vals[pos] = v
                        # the encoder stores raw bytes whose low six bits are the value
                        raw = [x | 0x40 if x < 32 else x for x in vals]
                        got = run(raw)
                        n += 1
                        full = vals + [0] * (4 - length)
                        bits = (full[0] << 18) | (full[1] << 12) | (full[2] << 6) | full[3]
                        want = [(bits >> 16) & 255, (bits >> 8) & 255, bits & 255][:{1: 1, 2: 2, 3: 3, 4: 3}[length]]
                        if got != want and bad is None:
                            bad = "write4(%r) pushes %r, 5.2.8 layout gives %r" % (raw, got, want)
    except T.Trap as ex:
        bad = "trap: %s" % ex
    except T.Undecidable as ex:
        bad = "cannot decide: %s" % ex
    return [Ob(r, "edifact-pack", bad is None, "EDIFACT packs up to four six-bit values into three codewords, first value in the top bits (%d field patterns)%s" % (n, "" if not bad else ": " + bad), site=T.span_str(b["span"]))]
