"""END-X12: the loop-free tail of the X12 encoder (what happens after the last complete triple) extracted as a decision
table over an abstract context and compared with ISO/IEC 16022 5.2.7.2 / 5.2.5.2."""
from .core import Ob, need, floor
from . import thirlib as T

X12 = "encodation::x12::encode"


def _tail(f, rule, fn):
    b = f.thir.get(fn)
    need(b, rule, fn)
    raw = b["body"].get("stmts", [])
    k_loop = None
    for k, st in enumerate(raw):
        node = st.get("init") if st["k"] == "Let" else st.get("expr")
        if node is not None and any(n.get("k") == "Loop" for n in T.walk(node)):
            k_loop = k
    need(k_loop is not None, rule, fn, "(the triple loop)")
    need(not any(n.get("k") == "Loop" for st in raw[k_loop + 1:] for n in T.walk(st)), rule, fn, "(loop-free tail)")
    pre = raw[:k_loop]
    flags = [st["pat"]["name"] for st in pre if st["k"] == "Let" and st["pat"].get("k") == "Bind" and T.strip(st.get("init") or {}).get("bool") is False]
    lst = raw[k_loop]
    if not flags and lst["k"] == "Let" and lst["pat"].get("k") == "Bind" and lst["pat"].get("ty") == "bool":
        flags = [lst["pat"]["name"]]        # `let switched = loop { .. break true .. }`
    return b, raw[k_loop + 1:], flags


def end_x12(ctx):
    r = "END-X12"
    f = ctx.facts()
    b, tail, flags = _tail(f, r, X12)
    need(len(flags) == 1, r, X12, "(one `switched` flag set by the loop)")
    cname = b["params"][0]["pat"]["name"]
    obs = []
    LEN = 10                      # codewords written so far (any number: only the distances to the capacities matter)
    bad = None
    n = 0

    def run(rest, caps, switched):
        ev = []

        def space(k):
            fit = [c for c in caps if c >= LEN + len([e for e in ev if e[0] == "push"]) + k]
            return (min(fit) - (LEN + len([e for e in ev if e[0] == "push"]) + k)) if fit else None

        def opt(v):
            if v is None:
                return {"__adt__": "core::option::Option", "__variant__": "None"}
            return {"__adt__": "core::option::Option", "__variant__": "Some", "#0": v, "0": v}

        def on_call(folder, c):
            cc = T.canon(T.callee_of(c))
            last = cc.split("::")[-1]
            if last == "characters_left":
                return len(rest)
            if last == "has_more_characters":
                return len(rest) > 0
            if last == "rest":
                return list(rest)
            if cc.endswith("ascii::encoding_size"):
                v = folder.fold(c["args"][0])
                return _ascii_size(v)
            if last == "symbol_size_left":
                return opt(space(folder.fold(c["args"][1])))
            if last == "set_ascii_until_end":
                ev.append(("ascii-until-end",))
                return None
            if last == "push":
                ev.append(("push", folder.fold(c["args"][1])))
                return None
            return NotImplemented
        fo = T.Folder(f, env={cname: T.Token("ctx"), flags[0]: switched}, on_call=on_call, effects=True)
        try:
            fo.exec_stmts(tail)
            res = fo.fold(b["body"]["expr"]) if "expr" in b["body"] else None
        except T.ReturnEx as ex:
            res = ex.value
        return ev, res

    def reference(rest, caps, switched):
        a = _ascii_size(rest)
        fit1 = [c for c in caps if c >= LEN + 1]
        # 5.2.7.2: one symbol character left in the symbol, and the rest of the data fits it as one ASCII codeword
        if len(rest) <= 2 and a == 1 and fit1 and min(fit1) == LEN + 1:
            return [("ascii-until-end",)], "ok"
        fit0 = [c for c in caps if c >= LEN]
        if rest:
            # more data follows in another mode: the run must be closed by UNLATCH
            return ([] if switched else [("ascii-until-end",)]) + [("push", 254)], "ok"
        if not fit0:
            return None, "err"
        if min(fit0) > LEN:
            # end of data with room left: UNLATCH, then padding
            return ([] if switched else [("ascii-until-end",)]) + [("push", 254)], "ok"
        return [], "ok"            # end of data, symbol exactly full

    rests = [[], [65], [200], [49, 50], [65, 66], [65, 200], [49, 65], [65, 66, 67]]
    capsets = [[10], [11], [12], [10, 11], [10, 12], [11, 12], [10, 11, 12], [14], [10, 14], [11, 14], []]
    try:
        for rest in rests:
            for caps in capsets:
                for switched in (False, True):
                    if switched and not rest:
                        continue          # a planned switch leaves characters for the next mode
                    if len(rest) >= 3 and not switched:
                        continue          # the loop only leaves three or more characters behind after a mode switch
                    ev, res = run(rest, caps, switched)
                    kind = res.get("__variant__") if isinstance(res, dict) else None
                    got = (ev, "ok") if kind == "Ok" else (None, "err") if kind == "Err" else (ev, "?")
                    want = reference(rest, caps, switched)
                    n += 1
                    # when no symbol of the list can hold what is still to come, reporting the error here or later is the same
                    hopeless = not any(c >= LEN + (1 if rest else 0) for c in caps)
                    if want[1] == "err":
                        okk = got[1] == "err"
                    else:
                        okk = (got[1] == "ok" and got[0] == want[0]) or (hopeless and got[1] == "err")
                    if not okk and bad is None:
                        bad = "rest %r, symbol capacities %r (codewords so far %d), mode switch %s: encoder does %r, 5.2.7.2 says %r" % (rest, caps, LEN, switched, got, want)
    except (T.Undecidable, T.Trap) as ex:
        bad = "cannot decide: the tail of x12::encode does not fold (%s)" % ex
    obs.append(Ob(r, "tail", bad is None, "after the last triple the X12 encoder follows 5.2.7.2: no unlatch iff one ASCII codeword finishes the data in the last symbol character; otherwise UNLATCH whenever data follows or room is left (%d contexts)%s" % (n, "" if bad is None else ": " + bad),
                  site=T.span_str(b["span"])))
    obs += floor(obs, r, 1, "x12 tail")
    return obs


def _ascii_size(bs):
    """number of ASCII-encodation codewords for the byte list (digit pairs 1, bytes >= 128 cost 2)"""
    n = i = 0
    while i < len(bs):
        if i + 1 < len(bs) and 48 <= bs[i] <= 57 and 48 <= bs[i + 1] <= 57:
            n += 1
            i += 2
        else:
            n += 2 if bs[i] >= 128 else 1
            i += 1
    return n


C40_END = "encodation::c40::handle_end"


def end_c40(ctx):
    """END-C40: handle_end of the C40/Text encoder (loop-free) as a decision table over an abstract context, against the
    end-of-data rules of ISO/IEC 16022 5.2.5.2 (cases b, c, d; otherwise pad the pending values, unlatch when data follows
    or room is left; two final digits finish as one ASCII codeword, with an unlatch only if it fits)."""
    r = "END-C40"
    f = ctx.facts()
    b = f.thir.get(C40_END)
    need(b, r, C40_END)
    need(not any(n.get("k") == "Loop" for n in T.walk(b["body"])), r, C40_END, "(loop-free)")
    binds = [p_["pat"] for p_ in b["params"] if p_.get("pat", {}).get("k") == "Bind"]
    need(len(binds) == len(b["params"]) and len(binds) in (2, 3), r, C40_END, "(parameters ctx, [last_ch,] buf)")
    # parameters by role: the context comes first, the pending values are the ArrayVec, the last character (if passed at all) the u8
    p_ctx = binds[0]["name"]
    p_buf = [x["name"] for x in binds[1:] if "ArrayVec" in str(x.get("ty", ""))]
    p_last = [x["name"] for x in binds[1:] if str(x.get("ty", "")) == "u8"]
    need(len(p_buf) == 1 and len(p_last) == len(binds) - 2, r, C40_END, "(parameters ctx, [last_ch,] buf)")
    LEN = 10
    obs = []

    def run(buf, last_ch, rest, caps):
        ev = []
        st = {"backed": 0}
        rest = list(rest)

        def written():
            return LEN + sum(1 for e in ev if e[0] == "push")

        def opt(v):
            if v is None:
                return {"__adt__": "core::option::Option", "__variant__": "None"}
            return {"__adt__": "core::option::Option", "__variant__": "Some", "#0": v, "0": v}

        def on_call(folder, c):
            cc = T.canon(T.callee_of(c))
            last = cc.split("::")[-1]
            if cc.startswith("arrayvec::") or "ArrayVec" in cc:
                if last == "new" and not c["args"]:
                    return []
                v = folder.fold(c["args"][0]) if c["args"] else None
                if last == "push" and isinstance(v, list):
                    v.append(folder.fold(c["args"][1]))
                    return None
                if last == "len" and isinstance(v, list):
                    return len(v)
                if last == "is_empty" and isinstance(v, list):
                    return not v
                if last in ("deref", "deref_mut", "as_slice") and isinstance(v, list):
                    return v
            if last == "characters_left":
                return len(rest)
            if last == "has_more_characters":
                return len(rest) > 0
            if last == "rest":
                return list(rest)
            if cc.endswith("ascii::encoding_size"):
                return _ascii_size(folder.fold(c["args"][0]))
            if cc.endswith("ascii::two_digits_coming"):
                v = folder.fold(c["args"][0])
                return len(v) >= 2 and 48 <= v[0] <= 57 and 48 <= v[1] <= 57
            if last == "symbol_size_left":
                k = folder.fold(c["args"][1])
                fit = [x for x in caps if x >= written() + k]
                return opt(min(fit) - (written() + k) if fit else None)
            if last == "set_ascii_until_end":
                ev.append(("ascii-until-end",))
                return None
            if last == "backup":
                k = folder.fold(c["args"][1])
                ev.append(("backup", k))
                # the read cursor moves back: the character(s) consumed last are ahead again (only the last one is modelled)
                if k == 1 and st["backed"] == 0:
                    rest.insert(0, last_ch)
                    st["backed"] = 1
                elif k != 0:
                    raise T.Undecidable("backup(%r) beyond the last character" % (k,))
                return None
            if last == "push" and not (cc.startswith("arrayvec::") or "ArrayVec" in cc):
                ev.append(("push", folder.fold(c["args"][1])))
                return None
            return NotImplemented
        env = {p_ctx: T.Token("ctx"), p_buf[0]: list(buf)}
        if p_last:
            env[p_last[0]] = last_ch
        fo = T.Folder(f, env=env, on_call=on_call, effects=True)
        res = fo.run(b["body"])
        kind = res.get("__variant__") if isinstance(res, dict) else None
        return ev, kind

    def pack(c1, c2, c3):
        v = 1600 * c1 + 40 * c2 + c3 + 1
        return [("push", v >> 8), ("push", v & 255)]

    def reference(buf, last_ch, rest, caps):
        p = len(buf)
        ev = []
        w = LEN
        more = bool(rest)

        def room(extra):
            fit = [x for x in caps if x >= w + extra]
            return (min(fit) - w) if fit else None      # symbol characters left in the symbol that holds `extra` more
        if not more:
            R = room(p)
            if R is None:
                return None, "Err"
            if (R, p) == (2, 2):
                return pack(buf[0], buf[1], 0), "Ok"                                            # case b
            if (R, p) == (2, 1):
                return [("push", 254), ("ascii-until-end",), ("backup", 1)], "Ok"               # case c
            if (R, p) == (1, 1) and _ascii_size([last_ch]) == 1:
                return [("ascii-until-end",), ("backup", 1)], "Ok"                              # case d
        if p:
            ev += pack(buf[0], 1, 30) if p == 1 else pack(buf[0], buf[1], 1)                    # pad with Shift 2 (+ Upper Shift)
            w += 2
            if not more:
                ev.append(("ascii-until-end",))
        if more:
            if len(rest) == 2 and all(48 <= x <= 57 for x in rest):
                R = room(1)
                if R is None:
                    return None, "Err"
                ev.append(("ascii-until-end",))
                if R >= 2:
                    ev.append(("push", 254))
                return ev, "Ok"
            ev.append(("push", 254))
            return ev, "Ok"
        R = room(0)
        if R is None:
            return None, "Err"
        if R > 0:
            ev.append(("push", 254))
            ev.append(("ascii-until-end",))
        return ev, "Ok"

    bad = None
    n = 0
    capsets = [[10], [11], [12], [13], [14], [10, 11], [10, 12], [11, 12], [11, 13], [12, 14], [10, 11, 12, 13, 14], [16], []]
    try:
        for buf in ([], [14], [14, 15]):
            for last_ch in (65, 200, 97):
                for rest in ([], [66], [49, 50], [49, 50, 51], [49, 66]):
                    for caps in capsets:
                        if not buf and last_ch != 65:
                            continue
                        ev, kind = run(buf, last_ch, rest, caps)
                        want, wk = reference(buf, last_ch, rest, caps)
                        n += 1
                        # `ascii-until-end` may be recorded once or twice on the same path (idempotent): compare as a set + pushes
                        def norm(e):
                            return ([x for x in e if x[0] == "push"], sorted(set(x for x in e if x[0] != "push"))) if e is not None else None
                        okk = (wk == "Err" and kind == "Err") or (wk == "Ok" and kind == "Ok" and norm(ev) == norm(want))
                        hopeless = not any(c >= LEN + len(buf) + (1 if rest else 0) for c in caps)
                        if not okk and not (hopeless and kind == "Err") and bad is None:
                            bad = "pending values %r, last character %d, rest %r, symbol capacities %r (codewords so far %d): handle_end does %r/%s, 5.2.5.2 says %r/%s" % (
                                buf, last_ch, rest, caps, LEN, ev, kind, want, wk)
    except (T.Undecidable, T.Trap) as ex:
        bad = "cannot decide: c40::handle_end does not fold (%s)" % ex
    obs.append(Ob(r, "table", bad is None, "C40/Text end of data follows 5.2.5.2 in %d contexts (cases b, c, d; padding of pending values; unlatch iff data follows or room is left; two final digits)%s" % (
        n, "" if bad is None else ": " + bad), site=T.span_str(b["span"])))
    obs += floor(obs, r, 1, "c40 end table")
    return obs


EDI_END = "encodation::edifact::handle_end"


def end_edifact(ctx):
    """END-EDIFACT: handle_end of the EDIFACT encoder (loop-free) as a decision table, against ISO/IEC 16022 5.2.8.2:
    the run ends without unlatch iff the rest of the data fits, ASCII encoded, into the at most two symbol characters that
    are left; otherwise the unlatch value (31) follows the pending values (a bare unlatch codeword when none is pending),
    omitted only at the end of data when the symbol is exactly full and fewer than three values are pending."""
    r = "END-EDIFACT"
    f = ctx.facts()
    b = f.thir.get(EDI_END)
    need(b, r, EDI_END)
    # (loops over the at most four pending / unread characters are unrolled by the folder)
    pn = [p_["pat"]["name"] for p_ in b["params"] if p_.get("pat", {}).get("k") == "Bind"]
    need(len(pn) == 2, r, EDI_END, "(parameters ctx, symbols)")
    LEN = 10
    obs = []

    def run(symbols, rest, caps):
        ev = []

        def written():
            return LEN + sum(1 for e in ev if e[0] == "push")

        def opt(v):
            if v is None:
                return {"__adt__": "core::option::Option", "__variant__": "None"}
            return {"__adt__": "core::option::Option", "__variant__": "Some", "#0": v, "0": v}

        def on_call(folder, c):
            cc = T.canon(T.callee_of(c))
            last = cc.split("::")[-1]
            if cc.startswith("arrayvec::") or "ArrayVec" in cc:
                if last == "new" and not c["args"]:
                    return []
                v = folder.fold(c["args"][0]) if c["args"] else None
                if last == "push" and isinstance(v, list):
                    v.append(folder.fold(c["args"][1]))
                    return None
                if last == "len" and isinstance(v, list):
                    return len(v)
                if last == "is_empty" and isinstance(v, list):
                    return not v
                if last in ("deref", "deref_mut", "as_slice") and isinstance(v, list):
                    return v
            if cc.endswith("edifact::write4"):
                ev.append(("write4", tuple(folder.fold(c["args"][1]))))
                for _ in range(min(3, len(folder.fold(c["args"][1])))):
                    ev.append(("push", "packed"))
                return None
            if last == "characters_left":
                return len(rest)
            if last == "has_more_characters":
                return len(rest) > 0
            if last == "rest":
                return list(rest)
            if cc.endswith("ascii::encoding_size"):
                return _ascii_size(folder.fold(c["args"][0]))
            if last == "symbol_size_left":
                k = folder.fold(c["args"][1])
                fit = [x for x in caps if x >= written() + k]
                return opt(min(fit) - (written() + k) if fit else None)
            if last == "set_ascii_until_end":
                ev.append(("ascii-until-end",))
                return None
            if last == "backup":
                ev.append(("backup", folder.fold(c["args"][1])))
                return None
            if last == "push":
                ev.append(("push", folder.fold(c["args"][1])))
                return None
            return NotImplemented
        fo = T.Folder(f, env={pn[0]: T.Token("ctx"), pn[1]: list(symbols)}, on_call=on_call, effects=True)
        res = fo.run(b["body"])
        kind = res.get("__variant__") if isinstance(res, dict) else None
        return [e for e in ev if not (e[0] == "push" and e[1] == "packed")], kind

    def reference(symbols, rest, caps):
        p = len(symbols)
        more = bool(rest)

        def room(extra):
            fit = [x for x in caps if x >= LEN + extra]
            return (min(fit) - LEN) if fit else None
        # the ASCII end-of-symbol form: the rest (pending + unread characters) fits the last one or two symbol characters
        if p + len(rest) <= 4:
            a = _ascii_size(list(symbols) + list(rest))
            if a <= 2:
                R = room(a)
                if R is not None and R <= 2 and a <= R:
                    return [("backup", p), ("ascii-until-end",)], "Ok"
        if p == 0:
            if not more:
                R = room(0)
                if R is None:
                    return None, "Err"
                if R > 0:
                    return [("push", 31 << 2), ("ascii-until-end",)], "Ok"
                return [], "Ok"
            return [("push", 31 << 2)], "Ok"
        if not more:
            R = room(p)
            if R is None:
                return None, "Err"
            # codewords needed for p values without unlatch: p (1->1, 2->2, 3->3); room beyond them, or a full triple, takes the unlatch
            if R - p > 0 or p == 3:
                return [("ascii-until-end",), ("write4", tuple(symbols) + (31,))], "Ok"
            return [("write4", tuple(symbols))], "Ok"
        return [("write4", tuple(symbols) + (31,))], "Ok"

    bad = None
    n = 0
    capsets = [[10], [11], [12], [13], [14], [10, 11], [10, 12], [11, 12], [11, 13], [12, 13], [10, 11, 12, 13, 14], [16], []]
    try:
        for symbols in ([], [65], [65, 66], [65, 66, 67], [49], [49, 50], [65, 49, 50]):
            for rest in ([], [68], [49, 50], [97], [68, 69], [49, 50, 51, 52]):
                for caps in capsets:
                    ev, kind = run(symbols, rest, caps)
                    want, wk = reference(symbols, rest, caps)
                    n += 1

                    def norm(e):
                        return (sorted(set(x for x in e if x[0] == "ascii-until-end")), [x for x in e if x[0] != "ascii-until-end"]) if e is not None else None
                    okk = (wk == "Err" and kind == "Err") or (wk == "Ok" and kind == "Ok" and norm(ev) == norm(want))
                    hopeless = not any(c >= LEN + (1 if (symbols or rest) else 0) for c in caps)
                    if not okk and not (hopeless and kind == "Err") and bad is None:
                        bad = "pending %r, rest %r, symbol capacities %r (codewords so far %d): handle_end does %r/%s, 5.2.8.2 says %r/%s" % (symbols, rest, caps, LEN, ev, kind, want, wk)
    except T.Trap as ex:
        bad = "handle_end can trap: %s" % ex
    except T.Undecidable as ex:
        bad = "cannot decide: edifact::handle_end does not fold (%s)" % ex
    obs.append(Ob(r, "table", bad is None, "EDIFACT end of data follows 5.2.8.2 in %d contexts%s" % (n, "" if bad is None else ": " + bad), site=T.span_str(b["span"])))
    obs += floor(obs, r, 1, "edifact end table")
    return obs
