"""Macro / FNC1 / cursor rules: DOM-MACRO, FLD-INPUT, DEC-MACRO, FNC1 (C16; FLD-INPUT shared by C01, C14)."""
from .core import Ob, need, floor
from . import mirlib as M
from . import thirlib as T
from .p_modes import find_body, field_writers, GDE, agg_sites

HEAD05 = (91, 41, 62, 30, 48, 53, 29)   # [)>RS05GS
HEAD06 = (91, 41, 62, 30, 48, 54, 29)   # [)>RS06GS
TRAIL = (30, 4)                         # RS EOT


def _has_field(e, field):
    return any(isinstance(x, tuple) and x[0] == "field" and x[2] == field for x in M.walk(e))


def _consts_in(e):
    return [x for x in M.walk(e) if isinstance(x, tuple) and x[0] == "const"]


def macro_consts(ctx):
    r = "DOM-MACRO"
    f = ctx.facts()
    obs = []
    vals = {
        "encodation::MACRO05": 236, "encodation::MACRO06": 237,
        "encodation::MACRO05_HEAD": list(HEAD05), "encodation::MACRO06_HEAD": list(HEAD06), "encodation::MACRO_TRAIL": list(TRAIL),
    }
    for k, v in vals.items():
        obs.append(Ob(r, "const:" + k.split("::")[-1], f.const(k) == v, "%s has the standard's value %r (found %r)" % (k, v, f.const(k))))
    # head and trailer cannot overlap: no proper suffix of a head is a prefix of the trailer
    for name, h in (("MACRO05_HEAD", HEAD05), ("MACRO06_HEAD", HEAD06)):
        hv = f.const("encodation::" + name) or []
        tv = f.const("encodation::MACRO_TRAIL") or []
        overlap = [k for k in range(1, min(len(hv), len(tv)) + 1) if list(hv[-k:]) == list(tv[:k])]
        obs.append(Ob(r, "no-overlap:" + name, not overlap,
                      "no proper suffix of %s is a prefix of MACRO_TRAIL, so starts_with(head) && ends_with(trail) implies len >= head+trail (the re-slice bounds hold)" % name, detail=overlap))
    return obs


EDI = "data::encode_data_internal"


def dispatch_traces(f, rule):
    """{(use_macros, eci): [encoder calls in order]} of encode_data_internal, by folding its loop-free body"""
    b = f.thir.get(EDI)
    need(b, rule, EDI)
    names = {}
    for p_ in b["params"]:
        pat = p_.get("pat") or {}
        need(pat.get("k") == "Bind", rule, EDI, "(plain parameters)")
        names[pat["name"].split("#")[0]] = pat["name"]
    need("use_macros" in names and "eci" in names, rule, EDI, "(parameters use_macros, eci)")
    out = {}
    watch = ["GenericDataEncoder::with_size", "GenericDataEncoder::use_macro_if_possible", "GenericDataEncoder::write_eci", "GenericDataEncoder::codewords"]
    # the ECI numbers to try: the form boundaries plus every integer the function itself mentions (pattern constants, range
    # bounds, literals) and its neighbours - the function can only tell ECI values apart through those
    mentioned = set()
    for n_ in T.walk(b):
        if n_.get("k") == "Const" and isinstance(n_.get("val"), int):
            mentioned.add(n_["val"])
        if n_.get("k") == "Range":
            mentioned.update(x for x in (n_.get("lo"), n_.get("hi")) if isinstance(x, int))
        if n_.get("k") == "Lit" and isinstance(n_.get("int"), int):
            mentioned.add(n_["int"])
    domain = {0, 3, 26, 27, 126, 127, 16382, 16383, 999999}
    for v_ in mentioned:
        domain.update(x for x in (v_ - 1, v_, v_ + 1) if 0 <= x <= 999999)
    for um in (False, True):
        for eci in [None] + sorted(domain):
            env = {full: T.Token(short) for short, full in names.items()}
            env[names["use_macros"]] = um
            env[names["eci"]] = {"__adt__": "core::option::Option", "__variant__": "None"} if eci is None else \
                {"__adt__": "core::option::Option", "__variant__": "Some", "#0": eci, "0": eci}
            try:
                tr, _res = T.call_trace(f, EDI, env, watch)
                out[(um, eci)] = [(w.split("::")[-1], a) for w, a in tr]
            except (T.Undecidable, T.Trap) as ex:
                out[(um, eci)] = "cannot decide: %s" % ex
    return out


def encoder_dispatch(f, rule):
    tr = dispatch_traces(f, rule)
    det = {"%s/%s" % k: ([n for n, _a in v] if isinstance(v, list) else v) for k, v in tr.items()}
    if not all(isinstance(v, list) for v in tr.values()):
        return False, False, det
    ok = all(([n for n, _a in v].count("use_macro_if_possible") == (1 if um else 0)) for (um, _e), v in tr.items())
    order = True
    for (um, eci), v in tr.items():
        ns = [n for n, _a in v]
        if um:
            i0 = ns.index("use_macro_if_possible") if "use_macro_if_possible" in ns else -1
            later = [k for k, n in enumerate(ns) if n in ("write_eci", "codewords")]
            order = order and i0 >= 0 and all(k > i0 for k in later) and ns[:1] == ["with_size"]
        order = order and ns.count("codewords") == 1 and ns[-1] == "codewords"
    return ok, order, det


def macro_exec(ctx):
    """use_macro_if_possible folded on a real encoder value for every combination of (header: 05 / 06 / damaged / truncated / none,
    trailer: RS EOT / partial / none / swapped, body: empty / short / ending like a trailer / a nested envelope, codewords: empty /
    [FNC1]): the macro codeword of the matched header is pushed and .data / .input become the body exactly when the codeword
    vector is empty and the data starts with a complete header and ends with the trailer; otherwise nothing changes.
    (ok | None, detail)"""
    return ctx.memo("macro_exec", lambda: list(_macro_exec(ctx)))


def _macro_exec(ctx):
    f = ctx.facts()
    fn = next((n for n in f.thir if T.canon(n).endswith("GenericDataEncoder::use_macro_if_possible")), None)
    adt = f.adts.get(GDE)
    if fn is None or not adt:
        return None, "use_macro_if_possible / GenericDataEncoder not found"
    b = f.thir[fn]
    if len(b["params"]) != 1 or (b["params"][0].get("pat") or {}).get("k") != "Bind":
        return None, "unexpected parameters"
    selfn = b["params"][0]["pat"]["name"]
    fields = [x["name"] for x in adt["variants"][0]["fieldtys"]]
    heads = {"05": list(HEAD05), "06": list(HEAD06), "damaged": list(HEAD05[:5]) + [55, 29], "truncated": list(HEAD05[:6]), "none": []}
    trails = {"RS EOT": list(TRAIL), "RS": [30], "none": [], "swapped": [4, 30]}
    bodies = {"empty": [], "short": [65], "digits": [49, 50, 51], "trailer-like": [65, 30, 4], "nested": list(HEAD05) + [66] + list(TRAIL)}
    n = 0
    for hn, head in heads.items():
        for tn, trail in trails.items():
            for bn, body in bodies.items():
                for cws in ([], [232]):
                    data = head + body + trail
                    me = {"__adt__": GDE, "__variant__": "GenericDataEncoder"}
                    for i, nm in enumerate(fields):
                        v = T.Token(nm)
                        if nm in ("data", "input"):
                            v = list(data)
                        if nm == "codewords":
                            v = list(cws)
                        me[nm] = v
                        me["#%d" % i] = v
                    fo = T.Folder(f, env={selfn: me}, effects=True, local_calls=2)
                    try:
                        fo.run(b["body"])
                    except T.Trap as ex:
                        return False, "header %s, trailer %s, body %s, codewords %r: traps: %s" % (hn, tn, bn, cws, ex)
                    except T.Undecidable as ex:
                        return None, "use_macro_if_possible does not fold (%s)" % ex
                    n += 1
                    full = data[:7] in (list(HEAD05), list(HEAD06)) and not cws and data[-2:] == list(TRAIL) and len(data) >= 9
                    want_cw = cws + ([236 if data[:7] == list(HEAD05) else 237] if full else [])
                    want_data = data[7:-2] if full else data

                    def ld(x):
                        x = T._loaded(x)
                        return [T._loaded(y) for y in x] if isinstance(x, list) else x
                    got = (ld(me["codewords"]), ld(me["data"]), ld(me["input"]))
                    if got != (want_cw, want_data, want_data):
                        what = "codewords" if got[0] != want_cw else "data" if got[1] != want_data else "input"
                        return False, "header %s, trailer %s, body %s, codewords before %r: afterwards %s is %r, expected %r" % (
                            hn, tn, bn, cws, what, got[{"codewords": 0, "data": 1, "input": 2}[what]][:12], {"codewords": want_cw, "data": want_data, "input": want_data}[what][:12])
    return True, "%d (header, trailer, body, codewords) combinations" % n


def dom_macro(ctx):
    """DOM-MACRO: guards by MIR dominance (cheap, names the missing guard); what the dominance analysis cannot recognise inside
    use_macro_if_possible is decided by folding the function on a grid of inputs (macro_exec)"""
    obs = _dom_macro_shape(ctx)
    inner = ("guards-present", "pairing", "if-direction", "at-most-once")
    failed = [o for o in obs if not o.ok and (o.key.split(":", 1)[1] in inner or o.key.split(":")[1] in ("push", "reslice"))]
    if not failed:
        return obs
    okx, detx = macro_exec(ctx)
    if not okx:
        return obs
    return [o if o not in failed else Ob("DOM-MACRO", o.key.split(":", 1)[1], True, o.what + " (guard structure not recognised; decided by folding use_macro_if_possible: " + str(detx) + ")", site=o.site)
            for o in obs]


def _dom_macro_shape(ctx):
    r = "DOM-MACRO"
    f = ctx.facts()
    obs = macro_consts(ctx)
    body = find_body(f, "GenericDataEncoder::use_macro_if_possible", r)

    def guard(suffix, pred):
        out = []
        for b, t in body.calls(lambda c, _t: T.canon(c).endswith(suffix)):
            args = [body.deep(body.expr_of_operand, a) for a in t["args"]]
            if pred(args):
                e = body.bool_edges_of_call(b)
                if e:
                    out.append((b, e[0], e[1], args))
        return out

    g_empty = guard("Vec::is_empty", lambda a: _has_field(a[0], "codewords"))
    g_ends = guard("::ends_with", lambda a: _has_field(a[0], "data") and any(c[1] == TRAIL for c in _consts_in(a[1])))
    g_starts = guard("::starts_with", lambda a: _has_field(a[0], "data"))
    # `strip_suffix` / `strip_prefix` spell the same tests with the stripped slice as a by-product: the `Some` edge of the
    # match on their result is the true edge of ends_with / starts_with
    def strip_guard(suffix, pred):
        out = []
        for b, t in body.calls(lambda c, _t: T.canon(c).endswith(suffix)):
            args = [body.deep(body.expr_of_operand, a) for a in t["args"]]
            if pred(args) and not t["dest"]["p"]:
                ve = body.variant_edges(t["dest"]["l"])
                if 1 in ve and (0 in ve or "otherwise" in ve):
                    out.append((b, ve[1], ve.get(0) or ve["otherwise"], args))
        return out
    if not g_ends:
        g_ends = strip_guard("::strip_suffix", lambda a: _has_field(a[0], "data") and any(c[1] == TRAIL for c in _consts_in(a[1])))
    strip_form = False
    if not g_starts:
        # the receiver is self.data or the slice strip_suffix returned for self.data
        g_starts = strip_guard("::strip_prefix", lambda a: _has_field(a[0], "data") or any(isinstance(x, tuple) and x[0] == "call" and T.canon(x[1]).endswith("::strip_suffix") for x in M.walk(a[0])))
        strip_form = bool(g_starts)
    find_form = False
    if not g_starts:
        # `table.into_iter().find(|(head, _)| data.starts_with(head))`: the header test is the predicate of a `find` over the
        # table, and the `Some` edge of the match on its result plays the role of the test's true edge
        for b, t in body.calls(lambda c, _t: T.canon(c).endswith("Iterator::find")):
            cl = body.expr_of_operand(t["args"][1])
            if not (cl[0] == "closure" and cl[1] in f.mir) or t["dest"]["p"]:
                continue
            cb = M.Body(f.mir[cl[1]])
            sc = cb.calls(lambda c, _t: T.canon(c).endswith("::starts_with"))
            other = [x for x in cb.calls() if x not in sc]
            if len(sc) != 1 or other or sc[0][1]["dest"]["l"] != 0 or sc[0][1]["dest"]["p"]:
                continue   # the closure must return exactly the starts_with result
            a = [cb.deep(cb.expr_of_operand, x) for x in sc[0][1]["args"]]

            def peel(x):
                while x[0] in ("ref", "deref"):
                    x = x[1]
                return x
            recv, needle = peel(a[0]), peel(a[1])
            # receiver: captured variable k of the closure environment (_1.k); needle: .0 of the element (_2.0)
            if not (recv[0] == "field" and peel(recv[1])[:2] == ("arg", "_1") and needle[0] == "field" and needle[2] == "0" and peel(needle[1])[:2] == ("arg", "_2")):
                continue
            k = int(recv[2]) if str(recv[2]).isdigit() else None
            if k is None or k >= len(cl[2]):
                continue
            outer = set()
            for o in body.origins(cl[2][k]):
                outer.add(peel(o))
            if not outer or not all(_has_field(o, "data") and "self" in repr(o) for o in outer):
                continue
            ve = body.variant_edges(t["dest"]["l"])
            if 1 in ve and (0 in ve or "otherwise" in ve):
                elem = ("downcast", M._freeze_t(body.expr_of_call(t)), "Some")
                g_starts.append((b, ve[1], ve.get(0) or ve["otherwise"], [sorted(outer, key=repr)[0], ("field", ("field", elem, "0"), "0")]))
                find_form = True
    obs.append(Ob(r, "guards-present", bool(g_empty) and bool(g_ends) and bool(g_starts),
                  "use_macro_if_possible tests codewords.is_empty(), data.ends_with(MACRO_TRAIL) and data.starts_with(head)",
                  detail={"is_empty": len(g_empty), "ends_with": len(g_ends), "starts_with": len(g_starts)}))
    # sites
    pushes = [(b, t) for b, t in body.calls(lambda c, _t: T.canon(c).endswith("Vec::push")) if _has_field(body.expr_of_operand(t["args"][0]), "codewords")]
    writes = [w for w in field_writers(f, GDE, "data") if T.canon(w[1]).endswith("use_macro_if_possible") and w[0] == "assign"]
    need(pushes, r, "macro codeword push")
    need(writes, r, "macro re-slice")
    sites = [("push", b, M.fmt_span(t["span"])) for b, t in pushes] + [("reslice", w[3], M.fmt_span(w[5]["span"])) for w in writes]
    for kind, b, site in sites:
        for gname, gs in (("codewords.is_empty()", g_empty), ("data.ends_with(MACRO_TRAIL)", g_ends), ("data.starts_with(head)", g_starts)):
            ok = any(body.dominated_by_edge(b, g[1]) for g in gs)
            obs.append(Ob(r, "%s:%s" % (kind, gname.split("(")[0].split(".")[-1]), ok,
                          "the macro %s is dominated by the true edge of %s" % (kind, gname), site=site))
    # head/codeword pairing: the pushed codeword and the tested head are the two halves of one table entry
    pair_ok = False
    det = None
    for b, t in pushes:
        cw = body.deep(body.expr_of_operand, t["args"][1])
        for g in g_starts:
            hd = g[3][1]
            # both are projections .0 / .1 of the same `next()` element
            while hd[0] in ("ref", "deref"):
                hd = hd[1]
            while cw[0] in ("ref", "deref"):
                cw = cw[1]
            det = (M.show(cw, 120), M.show(hd, 120))
            if find_form:
                # the pushed codeword is .1 of the element `find` returned; the predicate tested that element's .0
                cws = {o for o in body.origins(body.expr_of_operand(t["args"][1]))}
                if cws and all(o == ("field", hd[1], "1") for o in cws) and hd[0] == "field" and hd[2] == "0":
                    pair_ok = True
                continue
            # both are the two halves (.1 / .0) of the same element produced by the table iterator's next()
            if cw[0] == "field" and hd[0] == "field" and cw[2] == "1" and hd[2] == "0" and cw[1] == hd[1] \
                    and any(isinstance(x, tuple) and x[0] == "call" and x[1].endswith("::next") for x in M.walk(cw[1])):
                pair_ok = True
    # the table itself pairs HEAD05 with 236 and HEAD06 with 237
    tbl = []
    for b, blk in enumerate(body.blocks):
        for st in blk["stmts"]:
            if st["k"] == "Assign" and st["rv"]["k"] == "Aggregate" and st["rv"].get("agg") == "Tuple":
                e = body.expr_of_rvalue(st["rv"])
                cs = _consts_in(e)
                if len(cs) == 2:
                    tbl.append((cs[0][1], cs[1][1]))
    tbl_ok = sorted(tbl) == sorted([(HEAD05, 236), (HEAD06, 237)])
    obs.append(Ob(r, "pairing", pair_ok and tbl_ok, "the pushed codeword is paired with the matched header: (MACRO05_HEAD, 236), (MACRO06_HEAD, 237)", detail={"table": tbl, "flow": det}))
    # "if" direction: once the header test succeeds nothing else is consulted before the macro codeword is pushed
    straight = True
    for b, t in pushes:
        ok1 = False
        for g in g_starts:
            cur = g[1][1]   # target of the true edge
            hops = 0
            # straight-line continuation: blocks with exactly one (non-unwind) successor and no branch
            while cur != b and hops < 12:
                nxt = body.succ(cur)
                if body.term(cur)["k"] in ("SwitchInt",) or len(nxt) != 1:
                    break
                if body.term(cur)["k"] == "Call" and T.canon(body.term(cur).get("resolved") or body.term(cur).get("callee") or "").endswith(("::starts_with", "::ends_with", "::is_empty", "::contains")):
                    break
                cur = nxt[0]
                hops += 1
            ok1 = ok1 or cur == b
        straight = straight and ok1
    obs.append(Ob(r, "if-direction", straight and bool(pushes), "on the true edge of the header test the macro codeword is pushed without any further condition"))
    # at most one macro codeword: no path from a push back to a push
    once = True
    for b, t in pushes:
        nxt = t.get("target")
        reach = body.reachable(nxt) if nxt is not None else set()
        if any(pb in reach for pb, _t in pushes):
            once = False
    obs.append(Ob(r, "at-most-once", once, "after a macro codeword has been pushed no path leads to another macro push (one macro codeword, first position only)"))
    # called only under use_macros, before the ECI header and before encoding starts: the dispatch function is folded
    # for the four combinations of (use_macros, eci) and the order of the encoder calls is read off
    ok, order_ok, det = encoder_dispatch(f, r)
    obs.append(Ob(r, "only-if-enabled", ok, "encode_data_internal calls use_macro_if_possible exactly when `use_macros` is set", detail=det))
    obs.append(Ob(r, "before-eci", order_ok, "macro detection runs before write_eci() and codewords() (so `codewords` holds at most the FNC1 codeword)", detail=det))
    obs += floor(obs, r, 7 + 6 + 4, "macro obligations")
    return obs


def fld_input(ctx):
    r = "FLD-INPUT"
    f = ctx.facts()
    obs = []
    ws = [w for w in field_writers(f, GDE, "data")]
    wi = [w for w in field_writers(f, GDE, "input")]
    n = 0

    def same_value_as_data_write(fn_name, body_, val_):
        """the value stored to .input is the very value this function stores to .data (e.g. both from one local `body`)"""
        mine = body_.origins(val_)
        for k3, fn3, body3, b3, i3, st3, val3 in ws:
            if fn3 == fn_name and k3 == "assign" and mine and mine == body3.origins(body3.expr_of_rvalue(st3["rv"])):
                return True
        return False
    for kind, fn, body, b, i, st, val in ws:
        fnc = T.canon(fn)
        last = fnc.split("::")[-1]
        site = M.fmt_span(st["span"])
        n += 1
        if kind == "borrow":
            obs.append(Ob(r, "data:borrow:" + last, False, "GenericDataEncoder.data is mutably borrowed in %s" % fnc, site=site))
            continue
        if kind == "construct":
            rv = st["rv"]
            di, ii = rv["fields"].index("data"), rv["fields"].index("input")
            same = body.expr_of_operand(rv["ops"][di]) == body.expr_of_operand(rv["ops"][ii])
            obs.append(Ob(r, "data:%s:construct" % last, same, "%s initialises .data and .input from the same slice" % last, site=site))
            continue
        e = body.deep(body.expr_of_rvalue, st["rv"])
        calls = [x for x in M.walk(e) if isinstance(x, tuple) and x[0] == "call"]
        cls = None
        for c in calls:
            cc = T.canon(c[1])
            if cc.endswith("split_first") and _has_field(c[2][0], "data"):
                cls = "tail-of-data"
            if cc.endswith("::index") and len(c[2]) == 2:
                rng = c[2][1]
                if rng[0] == "adt" and rng[1] == "core::ops::RangeFrom" and _has_field(c[2][0], "input"):
                    cls = "suffix-of-input"
                elif rng[0] == "adt" and rng[1] == "core::ops::RangeFrom" and _has_field(c[2][0], "data"):
                    cls = "tail-of-data"
                elif rng[0] == "adt" and _has_field(c[2][0], "data"):
                    cls = "subslice-of-data"
        if cls is None:
            # a slice pattern `[first, ref tail @ ..]` on self.data: the subslice projection from index >= 0 to the end
            for x in M.walk(e):
                if isinstance(x, tuple) and x[0] == "proj" and _has_field(x[1], "data") and "sub_from" in str(x[2]) and ("'from_end': False" in str(x[2]) or "sub_to': 0" in str(x[2])):
                    cls = "tail-of-data"
        if cls in ("tail-of-data", "suffix-of-input"):
            obs.append(Ob(r, "data:%s:%s" % (last, cls), True, "%s sets .data to a %s (still a suffix of .input)" % (last, cls.replace("-", " ")), site=site))
        else:
            # any other write must be followed, on every path to return, by `self.input = self.data`
            resync = []
            for k2, fn2, body2, b2, i2, st2, val2 in wi:
                if fn2 == fn and k2 == "assign":
                    v = body2.expr_of_rvalue(st2["rv"])
                    if v[0] == "field" and v[2] == "data" or (v[0] == "deref" and _has_field(v, "data")) or same_value_as_data_write(fn2, body2, v):
                        resync.append((b2, i2))
            ok = False
            if resync:
                # same block after the write, or every path from the write's block to return crosses a resync block
                same_blk = any(b2 == b and i2 > i for b2, i2 in resync)
                ok = same_blk or body.must_pass_blocks(b, body.return_blocks(), [b2 for b2, _ in resync if b2 != b])
                # no further write to .data between (conservative: none other in this function)
            obs.append(Ob(r, "data:%s:resync" % last, ok,
                          "%s narrows .data to %s; .input must be re-synchronised (`self.input = self.data`) on every path to return, "
                          "otherwise backup() re-reads the wrong bytes" % (last, cls or M.show(e, 80)), site=site))
    for kind, fn, body, b, i, st, val in wi:
        fnc = T.canon(fn)
        last = fnc.split("::")[-1]
        if kind == "construct":
            continue
        ok = kind == "assign" and (val[0] == "field" and val[2] == "data" or (val[0] == "deref" and _has_field(val, "data")) or same_value_as_data_write(fn, body, val))
        obs.append(Ob(r, "input:%s" % last, ok, "%s writes .input only as a copy of .data" % last, site=M.fmt_span(st["span"]), detail=M.show(val)))
    # backup() is the reader of the coupling
    bk = find_body(f, "EncodingContext>::backup", r)
    obs.append(Ob(r, "backup-anchor", True, "backup() found (recomputes .data from .input)", info=True))
    obs += floor(obs, r, 4, "cursor writers")
    return obs


def dec_macro(ctx):
    """DEC-MACRO: the loop-free part of decode_parts before its main loop and the part after it are folded for every class
    of leading codewords (236 / 237 / 232 / other / none, followed by 232 / other / none), raw and non-raw, against a model
    reader; the header, the consumed codewords and the trailer are read off."""
    r = "DEC-MACRO"
    f = ctx.facts()
    fn = "decodation::decode_parts"
    b = f.thir.get(fn)
    need(b, r, fn)
    obs = []
    raw_stmts = b["body"].get("stmts", [])
    k_loop = None
    for k, st in enumerate(raw_stmts):
        node = st.get("init") if st["k"] == "Let" else st.get("expr")
        if node is not None and any(n.get("k") == "Loop" for n in T.walk(node)):
            k_loop = k
            break
    need(k_loop is not None, r, fn, "(main loop)")
    prefix, loop_st, suffix = raw_stmts[:k_loop], raw_stmts[k_loop], raw_stmts[k_loop + 1:]
    need(not any(n.get("k") == "Loop" for st in prefix + suffix for n in T.walk(st)), r, fn, "(exactly one loop)")
    # the macro codeword is only looked for before the main loop
    peeks_in_loop = [c for c in T.calls(loop_st.get("expr") or loop_st.get("init")) if T.canon(T.callee_of(c)).endswith("Reader::peek")]
    heads_late = [c for st in [loop_st] + suffix for c in T.calls(st.get("expr") or st.get("init") or {"k": "Tuple", "fields": []})
                  if T.canon(T.callee_of(c)).endswith("extend_from_slice") and any(x[0] == "const" and x[2] in (HEAD05, HEAD06) for x in T.sx_walk(T.sx(c)))]
    obs.append(Ob(r, "first-position", not peeks_in_loop and not heads_late, "the macro codeword is only looked for before the main loop; no header is produced later"))
    pnames = [p_["pat"]["name"] for p_ in b["params"] if p_.get("pat", {}).get("k") == "Bind"]
    need(len(pnames) == 2, r, fn, "(parameters data, raw)")
    assigned_in_loop = {T.strip(n["lhs"]).get("name") for n in T.walk(loop_st.get("expr") or loop_st.get("init")) if n.get("k") in ("Assign", "AssignOp")}

    def scenario(raw, stream, vec_empty):
        st = {"pos": 0}
        ev = []

        def opt(v):
            if v is None:
                return {"__adt__": "core::option::Option", "__variant__": "None"}
            return {"__adt__": "core::option::Option", "__variant__": "Some", "#0": v, "0": v}

        def on_call(folder, c):
            cc = T.canon(T.callee_of(c))
            last = cc.split("::")[-1]
            if cc.endswith("Reader::peek"):
                i = folder.fold(c["args"][1])
                p = st["pos"] + i
                return opt(stream[p] if p < len(stream) else None)
            if cc.endswith("Reader::eat"):
                if st["pos"] < len(stream):
                    v = stream[st["pos"]]
                    st["pos"] += 1
                    ev.append(("eat", v))
                    return {"__adt__": "core::result::Result", "__variant__": "Ok", "#0": v, "0": v}
                return {"__adt__": "core::result::Result", "__variant__": "Err", "#0": T.Token("UnexpectedEnd")}
            if cc.endswith("Reader::is_empty"):
                return st["pos"] >= len(stream)
            if cc.endswith("Reader::len"):
                return len(stream) - st["pos"]
            if last == "extend_from_slice":
                try:
                    v = folder.fold(c["args"][1])
                except T.Undecidable:
                    v = "?"
                if isinstance(v, list) and v and all(isinstance(x, (tuple, list)) for x in v):
                    # several (position, charset) spans appended at once
                    for x in v:
                        ev.append(("push", tuple(str(y) if isinstance(y, T.Token) else y for y in x)))
                    return None
                ev.append(("extend", tuple(v) if isinstance(v, list) else v))
                return None
            if last == "is_empty" and "Vec" in cc:
                return vec_empty
            if last == "push" and "Vec" in cc and len(c["args"]) == 2:
                try:
                    v = folder.fold(c["args"][1])
                except T.Undecidable:
                    v = "?"
                ev.append(("push", tuple(str(x) if isinstance(x, T.Token) else x for x in v) if isinstance(v, (tuple, list)) else v))
                return None
            r0 = folder._builtin(c)
            if r0 is not NotImplemented:
                return r0
            if cc.startswith("core::panicking"):
                return NotImplemented
            for a in c["args"]:
                try:
                    folder.fold(a)
                except T.Undecidable:
                    pass
            return T.Token(last + "()")
        fo = T.Folder(f, env={pnames[0]: T.Token("data"), pnames[1]: raw}, on_call=on_call, effects=True)
        fo.exec_stmts(prefix)
        pre = list(ev)
        del ev[:]
        for n in assigned_in_loop:
            if n:
                fo.env[n] = T.Token(n)
        # buffers the main loop can fill (any list-valued local it mentions) have unknown content afterwards: a decision of the
        # suffix that looks at them cannot be folded and is reported
        used_in_loop = {n0.get("name") for n0 in T.walk(loop_st.get("expr") or loop_st.get("init")) if n0.get("k") in ("Var", "Upvar")}
        for n in used_in_loop:
            if n in fo.env and isinstance(fo.env[n], list):
                fo.env[n] = T.Token(n.split("#")[0])
        fo.exec_stmts(suffix)
        if "expr" in b["body"]:
            try:
                fo.fold(b["body"]["expr"])
            except T.Undecidable:
                pass
        return pre, list(ev)

    bad = {"arm:236": None, "arm:237": None, "arm:other": None, "trailer-iff": None, "fnc1-strip": None, "eci-span": None, "eci-span:raw": None}
    utf8 = f.const("decodation::eci::ECI_UTF8") if f.const("decodation::eci::ECI_UTF8") is not None else 26
    n = 0
    try:
        for raw in (False, True):
            for vec_empty in (False, True):
                for first in (236, 237, 232, 65, None):
                    for second in (232, 65, None):
                        if first is None and second is not None:
                            continue
                        stream = [x for x in (first, second) if x is not None] + ([66] if second is not None else [])
                        pre, post = scenario(raw, stream, vec_empty)
                        n += 1
                        is_macro = first in (236, 237)
                        want_head = [HEAD05] if first == 236 else [HEAD06] if first == 237 else []
                        nxt = second if is_macro else first
                        want_eats = ([first] if is_macro else []) + ([232] if nxt == 232 else [])
                        got_head = [e[1] for e in pre if e[0] == "extend"]
                        got_eats = [e[1] for e in pre if e[0] == "eat"]
                        key = "arm:%d" % first if is_macro else "arm:other"
                        if got_head != want_head and bad[key] is None:
                            bad[key] = "first codewords %r (raw=%s): the decoder emits %r before the main loop, expected %r" % (stream[:2], raw, got_head, want_head)
                        if got_eats[:1] != want_eats[:1] and is_macro and bad[key] is None:
                            bad[key] = "first codewords %r: consumed %r before the main loop, expected %r" % (stream[:2], got_eats, want_eats)
                        if got_eats != want_eats and bad["fnc1-strip"] is None and (not is_macro or got_eats[:1] == want_eats[:1]):
                            bad["fnc1-strip"] = "first codewords %r: consumed %r before the main loop, expected %r" % (stream[:2], got_eats, want_eats)
                        # character-set spans: when spans are in use (the list is not empty) the re-created trailer gets its own
                        # UTF-8 span, opened right before it; otherwise the suffix opens none
                        spans = [e[1] for e in post if e[0] == "push"]
                        want_spans = 1 if (is_macro and not vec_empty) else 0
                        ok_span = len(spans) == want_spans and all(isinstance(x, tuple) and len(x) == 2 and x[1] == utf8 for x in spans) \
                            and (not spans or [e[0] for e in post if e[0] in ("push", "extend")][:2] == ["push", "extend"])
                        # string mode opens the header's spans itself: "no span so far" cannot be the state at the trailer then
                        infeasible = vec_empty and any(e[0] == "push" for e in pre)
                        skey = "eci-span:raw" if raw else "eci-span"
                        if not ok_span and not infeasible and bad[skey] is None:
                            bad[skey] = "first codewords %r (raw=%s, spans in use: %s): after the main loop the decoder opens the spans %r, expected %s" % (
                                stream[:2], raw, not vec_empty, spans, "one UTF-8 span right before the trailer" if want_spans else "none")
                        got_trail = [e[1] for e in post if e[0] == "extend"]
                        if got_trail != ([TRAIL] if is_macro else []) and bad["trailer-iff"] is None:
                            bad["trailer-iff"] = "first codewords %r (raw=%s): after the main loop the decoder appends %r, expected %r" % (stream[:2], raw, got_trail, [TRAIL] if is_macro else [])
    except (T.Undecidable, T.Trap) as ex:
        for k in bad:
            bad[k] = bad[k] or "cannot decide: the code around the main loop does not fold (%s)" % ex
    for cw in (236, 237):
        obs.append(Ob(r, "arm:%d" % cw, bad["arm:%d" % cw] is None, "codeword %d in first position re-creates its own header, consumes the codeword and requests the trailer" % cw, detail=bad["arm:%d" % cw]))
    obs.append(Ob(r, "arm:other", bad["arm:other"] is None, "any other first codeword adds nothing", detail=bad["arm:other"]))
    obs.append(Ob(r, "trailer-iff", bad["trailer-iff"] is None, "RS EOT is appended after the loop exactly when a macro codeword was seen", detail=bad["trailer-iff"]))
    obs.append(Ob(r, "fnc1-strip", bad["fnc1-strip"] is None and f.const("encodation::ascii::FNC1") == 232, "a leading 232 (after an optional macro codeword) is stripped once, nothing else is consumed before the main loop", detail=bad["fnc1-strip"]))
    obs.append(Ob(r, "eci-span", bad["eci-span"] is None, "string mode: when character-set spans are in use, the re-created macro trailer gets its own UTF-8 span (opened right before it), whatever the last span was; otherwise no span is opened", detail=bad["eci-span"]))
    obs.append(Ob(r, "eci-span:raw", bad["eci-span:raw"] is None, "raw mode: the re-created macro trailer opens a character-set span only when spans are already in use (a span makes decode_data refuse the stream)", detail=bad["eci-span:raw"]))
    obs.append(Ob(r, "scenarios", n >= 40, "%d combinations of leading codewords, raw flag and ECI-list state folded" % n))
    obs += floor(obs, r, 7, "decoder macro obligations")
    return obs


def _is_ref_to(body, op, name):
    e = body.expr_of_operand(op, 3)
    return any(isinstance(x, tuple) and x[0] == "var" and x[1] == name for x in M.walk(e))


def fnc1(ctx):
    r = "FNC1"
    f = ctx.facts()
    obs = []
    ws = find_body(f, "GenericDataEncoder::with_size", r)
    # codewords = if start_with_fnc1 { vec![FNC1] } else { vec![] }
    sw = None
    for b in range(ws.n):
        s = ws.switch_on(b)
        if s and s[0][0] in ("arg", "var") and s[0][1] == "start_with_fnc1":
            sw = (b, s)
    ok = False
    det = None
    if sw:
        b, s = sw
        t_edge, f_edge = (b, s[2]), (b, s[1].get(0))
        # every materialisation of the FNC1 codeword lies on the true edge; nothing else is ever put into `codewords`
        sites = []
        for bb, blk in enumerate(ws.blocks):
            for st in blk["stmts"]:
                if st["k"] == "Assign":
                    e = ws.expr_of_rvalue(st["rv"])
                    if any(c[2] == "encodation::ascii::FNC1" or (c[1] == 232) for c in _consts_in(e)):
                        sites.append(bb)
            t = ws.term(bb)
            if t["k"] == "Call":
                for a in t["args"]:
                    e = ws.expr_of_operand(a, 2)
                    if any(c[2] == "encodation::ascii::FNC1" or c[1] == 232 for c in _consts_in(e)):
                        sites.append(bb)
        pushes = [(bb, t) for bb, t in ws.calls(lambda c, _t: T.canon(c).endswith("Vec::push")) if ws.local_name((t["args"][0].get("move") or t["args"][0].get("copy") or {"l": 0})["l"]) in ("codewords",) or _is_ref_to(ws, t["args"][0], "codewords")]
        push_ok = all(any(c[2] == "encodation::ascii::FNC1" or c[1] == 232 for c in _consts_in(ws.expr_of_operand(t["args"][1]))) and ws.dominated_by_edge(bb, t_edge) for bb, t in pushes)
        ok = bool(sites) and all(ws.dominated_by_edge(x, t_edge) for x in sites) and push_ok
        # the FNC1 value must actually reach `codewords` on the true edge (vec![FNC1] literal or push)
        reach = bool(pushes) or any(ws.local_name(t["dest"]["l"]) == "codewords" and ws.dominated_by_edge(bb, t_edge) for bb, t in ws.calls())
        ok = ok and reach
        det = {"fnc1_sites": sorted(set(sites)), "pushes": [bb for bb, _t in pushes]}
    obs.append(Ob(r, "with_size", ok, "with_size seeds the codewords with [FNC1] iff start_with_fnc1, else with an empty vector", detail=det))
    # wiring: encode_data_internal(.., fnc1_start) -> with_size(.., fnc1_start); encode_eci passes self.fnc1_start
    edi = find_body(f, "data::encode_data_internal", r)
    c = edi.calls(lambda c, _t: T.canon(c).endswith("GenericDataEncoder::with_size"))
    ok = len(c) == 1 and edi.expr_of_operand(c[0][1]["args"][3])[1] == "fnc1_start"
    obs.append(Ob(r, "wire:encode_data_internal", ok, "encode_data_internal forwards its fnc1_start parameter"))
    ee = find_body(f, "DataMatrixBuilder::encode_eci", r)
    c = ee.calls(lambda c, _t: T.canon(c).endswith("data::encode_data_internal"))
    def from_self_field(op, field):
        # every value that can reach the operand is self.<field> (directly or through a destructured / copied local)
        srcs = ee.origins(ee.expr_of_operand(op))
        return bool(srcs) and all(_has_field(x, field) and "self" in repr(x) for x in srcs)
    ok = len(c) == 1 and from_self_field(c[0][1]["args"][5], "fnc1_start") and from_self_field(c[0][1]["args"][4], "use_macros")
    obs.append(Ob(r, "wire:encode_eci", ok, "encode_eci passes self.use_macros and self.fnc1_start"))
    ed = find_body(f, "data::encode_data", r)
    c = ed.calls(lambda c, _t: T.canon(c).endswith("data::encode_data_internal"))
    e5 = ed.expr_of_operand(c[0][1]["args"][5]) if len(c) == 1 else None
    obs.append(Ob(r, "wire:encode_data", e5 is not None and e5[:2] == ("const", 0), "data::encode_data requests no FNC1 start", detail=str(e5)))
    # writers of DataMatrixBuilder.fnc1_start
    ws2 = field_writers(f, "DataMatrixBuilder", "fnc1_start")
    okw = True
    det = []
    for kind, fn, body, b, i, st, val in ws2:
        last = T.canon(fn).split("::")[-1]
        det.append((last, kind, M.show(val, 60)))
        if last == "clone":
            okw = okw and _has_field(val, "fnc1_start")
        elif last == "new":
            okw = okw and val[:2] == ("const", 0)
        elif last == "with_fnc1_start":
            okw = okw and val[0] in ("arg", "var") and val[1] == "fnc1_start"
        elif kind == "construct" and (val[0] == "field" and val[2] == "fnc1_start"):
            pass  # `..self` copies
        else:
            okw = False
    obs.append(Ob(r, "builder-field", okw and len(ws2) >= 2, "DataMatrixBuilder.fnc1_start is false by default and set only by with_fnc1_start", detail=det))
    # every builder setter changes exactly its own field, from its own parameter (BUILDER-SETTERS)
    FIELDS = ["encodation_types", "symbol_list", "use_macros", "fnc1_start"]
    setters = {"with_encodation_types": "encodation_types", "with_symbol_list": "symbol_list", "with_macros": "use_macros", "with_fnc1_start": "fnc1_start"}
    seen_setters = set()
    for name, raw in f.mir.items():
        cn = T.canon(name)
        if not cn.startswith("DataMatrixBuilder::"):
            continue
        last = cn.split("::")[-1]
        body = M.Body(raw)
        for b, i, v, st in agg_sites(body, "DataMatrixBuilder"):
            vals = {fld: body.expr_of_operand(op) for fld, op in zip(st["rv"]["fields"], st["rv"]["ops"])}
            if last in setters:
                seen_setters.add(last)
                own = setters[last]
                bad = []
                for fld in FIELDS:
                    e = vals.get(fld)
                    if fld == own:
                        uses_param = any(isinstance(x, tuple) and x[0] in ("arg", "var") and x[1] not in ("self",) for x in M.walk(e)) and not _has_field(e, fld)
                        if not uses_param:
                            bad.append("%s not taken from the parameter: %s" % (fld, M.show(e, 60)))
                    else:
                        if not (e is not None and e[0] == "field" and e[2] == fld and e[1][0] in ("arg", "var") and e[1][1] == "self"):
                            bad.append("%s is not copied from self: %s" % (fld, M.show(e, 60) if e else None))
                obs.append(Ob(r, "setter:" + last, not bad, "%s changes only `%s`, from its parameter; every other option is carried over unchanged" % (last, own), site=M.fmt_span(st["span"]), detail=bad))
            elif last == "new":
                # (a default bound to a temporary first is looked through)
                e = {fld: body.deep(body.expr_of_operand, op) for fld, op in zip(st["rv"]["fields"], st["rv"]["ops"])}
                ok = e.get("use_macros", ("x",))[:2] == ("const", 1) and e.get("fnc1_start", ("x",))[:2] == ("const", 0) \
                    and any(isinstance(x, tuple) and x[0] == "call" and T.canon(x[1]).endswith("EncodationType::all") for x in M.walk(e.get("encodation_types"))) \
                    and any(isinstance(x, tuple) and x[0] == "call" and T.canon(x[1]).endswith("Default>::default") for x in M.walk(e.get("symbol_list")))
                obs.append(Ob(r, "builder-defaults", ok, "DataMatrixBuilder::new(): all modes, default symbol list, macros on, no FNC1 start", site=M.fmt_span(st["span"])))
    # the `mut self` spelling: `self.<own> = param; self` - no struct is rebuilt, exactly one field of self is stored to
    for name, raw in f.mir.items():
        cn = T.canon(name)
        last = cn.split("::")[-1]
        if not cn.startswith("DataMatrixBuilder::") or last not in setters or last in seen_setters:
            continue
        body = M.Body(raw)
        own = setters[last]
        bad = []
        stores = {}
        for fld in FIELDS:
            for kind, fn, _b, bb, i, st, val in field_writers(f, "DataMatrixBuilder", fld):
                if fn == name and not _b.blocks[bb].get("cleanup"):     # (drop-and-replace repeats the store on the unwind path)
                    stores.setdefault(fld, []).append((kind, val, st))
        for fld, lst in stores.items():
            if fld != own:
                bad.append("%s is written as well" % fld)
        mine = stores.get(own, [])
        if len(mine) != 1 or mine[0][0] != "assign":
            bad.append("%s is not stored exactly once" % own)
        else:
            e = mine[0][1]
            base = mine[0][2]["place"]["l"]
            if base != 1:
                bad.append("the store is not into `self`")
            if not any(isinstance(x, tuple) and x[0] in ("arg", "var") and x[1] not in ("self",) for x in M.walk(body.deep(body.expr_of_rvalue, mine[0][2]["rv"]))) or _has_field(e, own):
                bad.append("%s not taken from the parameter: %s" % (own, M.show(e, 60)))
        rets = body.origins(("var", "_0", 0))
        if not rets or not all(x[:2] in (("arg", "self"), ("partial", "self")) for x in rets):
            bad.append("does not return self: %s" % [M.show(x, 40) for x in rets])
        seen_setters.add(last)
        obs.append(Ob(r, "setter:" + last, not bad, "%s changes only `%s`, from its parameter; every other option is carried over unchanged" % (last, own), site=M.fmt_span(raw["span"]), detail=bad))
    obs.append(Ob(r, "setters-found", seen_setters == set(setters), "all four builder setters analysed", detail=sorted(seen_setters)))
    gs = find_body(f, "DataMatrix::encode_gs1", r)
    c = gs.calls(lambda c, _t: T.canon(c).endswith("with_fnc1_start"))
    ok = len(c) == 1 and gs.expr_of_operand(c[0][1]["args"][1])[:2] == ("const", 1)
    obs.append(Ob(r, "encode_gs1", ok, "encode_gs1 requests the FNC1 start"))
    return obs
