"""Mode discipline rules (C13, shared by C18): DOM-MODE, FLD-ENC, LATCH-USE."""
from .core import Ob, need, floor
from . import mirlib as M
from . import thirlib as T

ET = "encodation::encodation_type::EncodationType"
PI = "encodation::planner::generic::PlanImpl"
GDE = "encodation::GenericDataEncoder"
MODES = ["Ascii", "C40", "Text", "X12", "Edifact", "Base256"]


def find_body(f, suffix, rule):
    hits = [n for n in f.mir if T.canon(n).endswith(suffix)]
    need(len(hits) == 1, rule, suffix, "(found %d)" % len(hits))
    return M.Body(f.mir[hits[0]])


def agg_sites(body, adt):
    """(bb, idx, variant) of every aggregate construction of `adt` in the body"""
    out = []
    for b, blk in enumerate(body.blocks):
        for i, st in enumerate(blk["stmts"]):
            if st["k"] == "Assign" and st["rv"]["k"] == "Aggregate" and st["rv"].get("agg") == "Adt" and st["rv"]["adt"] == adt:
                out.append((b, i, st["rv"]["variant"], st))
    return out


def contains_guards(body):
    """[(bb, flag_expr, set_expr, true_edge, false_edge, term)] for FlagSet::contains calls"""
    out = []
    for b, t in body.calls(lambda c, _t: T.canon(c).endswith("FlagSet::contains")):
        edges = body.bool_edges_of_call(b)
        set_e = body.expr_of_operand(t["args"][0])
        flag_e = body.expr_of_operand(t["args"][1])
        out.append((b, flag_e, set_e, edges[0] if edges else None, edges[1] if edges else None, t))
    return out


def flag_variant(e):
    if e[0] == "adt" and e[1] == ET:
        return e[2]
    return None


def dom_mode(ctx):
    r = "DOM-MODE"
    f = ctx.facts()
    obs = []
    body = find_body(f, "GenericPlan::add_switches", r)
    guards = contains_guards(body)
    param_ok = all(g[2][0] in ("arg", "var") and g[2][1] == "enabled_modes" for g in guards)
    obs.append(Ob(r, "add_switches:set", param_ok and len(guards) >= 6,
                  "every contains() test in add_switches is on the caller's enabled_modes (%d tests)" % len(guards),
                  detail=[M.show(g[2]) for g in guards]))
    guard_blocks = {g[0] for g in guards}
    by_variant = {}
    for g in guards:
        v = flag_variant(g[1])
        if v and g[3]:
            by_variant.setdefault(v, []).append(g)
    n_sites = 0
    for adt, what in ((PI, "plan"), (ET, "switch entry")):
        for b, i, v, st in agg_sites(body, adt):
            if adt == ET and b in guard_blocks:
                # operand of the guard itself
                t = body.term(b)
                if any((a.get("move") or a.get("copy") or {}).get("l") == st["place"]["l"] for a in t["args"]):
                    continue
            n_sites += 1
            ok = any(body.dominated_by_edge(b, g[3]) for g in by_variant.get(v, []))
            obs.append(Ob(r, "add_switches:%s:%s:%d" % (what.replace(" ", "-"), v, sum(1 for o in obs if (":%s:%s:" % (what.replace(" ", "-"), v)) in o.key)),
                          ok, "add_switches: construction of a %s for mode %s is dominated by the true edge of enabled_modes.contains(%s)" % (what, v, v),
                          site=M.fmt_span(st["span"])))
    for v in MODES:
        has = any(o.key.startswith("%s:add_switches:plan:%s:" % (r, v)) for o in obs)
        obs.append(Ob(r, "add_switches:covers:%s" % v, has, "add_switches has a guarded plan construction for mode %s" % v))
    # add_switches steps the new plan before pushing it (used by SYNC in C18) - informational here
    # optimize(): start plan
    ob = find_body(f, "planner::shortest_path::optimize", r)
    gs = contains_guards(ob)
    pushes = ob.calls(lambda c, _t: T.canon(c).endswith("Vec::push"))
    k = 0
    for b, t in pushes:
        val = ob.expr_of_operand(t["args"][1])
        ty = None
        pl = t["args"][1].get("move") or t["args"][1].get("copy")
        if pl:
            ty = ob.local_ty(pl["l"])
        if not ty or "GenericPlan" not in ty:
            continue
        k += 1
        # classify the pushed plan by where its value comes from, not by what the local is called
        srcs = ob.origins(val)
        fm = [x for x in srcs if x[0] == "call" and T.canon(x[1]).endswith("GenericPlan::for_mode")]
        drained = [x for x in srcs if any(isinstance(y, tuple) and y and y[0] == "call" and T.canon(y[1]).endswith("::next") for y in M.walk(x))
                   and any(isinstance(y, tuple) and y and y[0] == "call" and "drain" in T.canon(y[1]).lower() for y in M.walk(x))]
        if srcs and len(fm) == len(srcs):
            ok = False
            for g in gs:
                if g[1][0] in ("arg", "var") and g[1][1] == "mode" and g[2][0] in ("arg", "var") and g[2][1] == "enabled_modes" and g[3]:
                    ok = ok or ob.dominated_by_edge(b, g[3])
            obs.append(Ob(r, "optimize:start-plan", ok, "optimize: the plan for the start mode is only used if enabled_modes.contains(mode)", site=M.fmt_span(t["span"])))
            okf = all(len(x[2]) >= 1 and x[2][0][0] in ("arg", "var") and x[2][0][1] == "mode" for x in fm)
            obs.append(Ob(r, "optimize:for_mode", okf, "optimize: the start plan is GenericPlan::for_mode(mode, ..)"))
        elif srcs and len(drained) == len(srcs):
            obs.append(Ob(r, "optimize:push-stepped:%d" % k, True, "optimize: re-pushes a plan drained from the previous generation", site=M.fmt_span(t["span"]), info=True))
        else:
            obs.append(Ob(r, "optimize:push-unknown:%d" % k, False, "optimize: pushes a plan of unknown origin: %s" % [M.show(x, 80) for x in srcs], site=M.fmt_span(t["span"])))
    if not any(o.key == "optimize:for_mode" or o.key.endswith(":optimize:for_mode") for o in obs):
        obs.append(Ob(r, "optimize:for_mode", False, "optimize: no push of a GenericPlan::for_mode(mode, ..) start plan found"))
    # every add_switches call passes the caller's enabled_modes
    calls = ob.calls(lambda c, _t: T.canon(c).endswith("GenericPlan::add_switches"))
    for j, (b, t) in enumerate(calls):
        e = ob.expr_of_operand(t["args"][4])
        obs.append(Ob(r, "optimize:add_switches-modes:%d" % j, e[0] in ("arg", "var") and e[1] == "enabled_modes",
                      "optimize: add_switches is called with the caller's enabled_modes", site=M.fmt_span(t["span"]), detail=M.show(e)))
    obs += floor(obs, r, 12 + 6 + 1 + 3, "mode guard obligations")
    return obs


def _local_by_name(body, name):
    for l, n in body.names.items():
        if n == name:
            return l
    return None


def field_writers(f, adt, field):
    """every MIR statement, crate wide, that writes <adt>.<field> (assignment, aggregate construction,
    or a mutable borrow handed to a call)"""
    out = []
    for name, raw in f.mir.items():
        body = M.Body(raw)
        for b, blk in enumerate(body.blocks):
            for i, st in enumerate(blk["stmts"]):
                if st["k"] != "Assign":
                    continue
                pl = st["place"]
                proj = [p for p in pl["p"] if isinstance(p, dict) and "f" in p]
                if proj and proj[-1].get("name") == field and proj[-1].get("adt") == adt and pl["p"][-1] is proj[-1]:
                    out.append(("assign", name, body, b, i, st, body.expr_of_rvalue(st["rv"])))
                rv = st["rv"]
                if rv["k"] == "Aggregate" and rv.get("agg") == "Adt" and rv["adt"] == adt and field in rv.get("fields", []):
                    idx = rv["fields"].index(field)
                    out.append(("construct", name, body, b, i, st, body.expr_of_operand(rv["ops"][idx])))
                if rv["k"] == "Ref" and rv.get("mut"):
                    p2 = [p for p in rv["place"]["p"] if isinstance(p, dict) and "f" in p]
                    if p2 and p2[-1].get("name") == field and p2[-1].get("adt") == adt and rv["place"]["p"][-1] is p2[-1]:
                        # where does the borrow go?
                        dest = st["place"]["l"]
                        users = []
                        repl = []
                        # reborrows / moves of the borrow (`_b = &mut *_a`, `_b = move _a`) carry the same reference
                        same_ref = {dest}
                        for _round in range(3):
                            for blk2 in body.blocks:
                                for st2 in blk2["stmts"]:
                                    if st2["k"] != "Assign" or st2["place"]["p"]:
                                        continue
                                    rv2 = st2["rv"]
                                    src = None
                                    if rv2["k"] == "Ref" and rv2["place"]["l"] in same_ref and all(p0 == "deref" or (isinstance(p0, dict) and p0.get("k") == "deref") or p0 == "*" for p0 in rv2["place"]["p"]):
                                        src = rv2["place"]["l"]
                                    elif rv2["k"] == "Use":
                                        op = rv2.get("op") or {}
                                        pl2 = op.get("move") or op.get("copy")
                                        if pl2 and pl2["l"] in same_ref and not pl2["p"]:
                                            src = pl2["l"]
                                    if src is not None:
                                        same_ref.add(st2["place"]["l"])
                        for b2, t in body.calls():
                            for a in t["args"]:
                                apl = a.get("move") or a.get("copy")
                                if apl and apl["l"] in same_ref and not apl["p"]:
                                    users.append(T.canon(t.get("resolved") or t.get("callee") or "?"))
                                    if users[-1] in ("core::mem::replace",) and a is t["args"][0] and len(t["args"]) == 2:
                                        repl.append((b2, t))
                                elif apl:
                                    # reborrow through a temp
                                    e = body.expr_of_operand(a, 3)
                                    if any(isinstance(x, tuple) and x[0] == "field" and x[2] == field for x in M.walk(e)) and apl["l"] != dest:
                                        pass
                        if len(users) == 1 and len(repl) == 1:
                            # `mem::replace(&mut self.<field>, v)` stores v into the field: a plain writer
                            out.append(("assign", name, body, repl[0][0], 0, st, body.expr_of_operand(repl[0][1]["args"][1])))
                            continue
                        out.append(("borrow", name, body, b, i, st, tuple(sorted(set(users)))))
    return out


def fld_enc(ctx):
    r = "FLD-ENC"
    f = ctx.facts()
    obs = []
    # --- encodation
    ws = field_writers(f, GDE, "encodation")
    for kind, fn, body, b, i, st, val in ws:
        fnc = T.canon(fn)
        site = M.fmt_span(st["span"])
        if kind == "borrow":
            obs.append(Ob(r, "encodation:borrow:%s" % fnc.split("::")[-1], False, "GenericDataEncoder.encodation is mutably borrowed in %s (flows to %s)" % (fnc, val), site=site))
            continue
        is_ascii = val[0] == "adt" and val[1] == ET and val[2] == "Ascii"
        if is_ascii:
            obs.append(Ob(r, "encodation:%s:ascii" % fnc.split("::")[-1], True, "%s sets the mode to the constant Ascii" % fnc, site=site))
        elif fnc.endswith("maybe_switch_mode"):
            # every value that can reach the store is the mode (.1) of the entry removed from the front of
            # planned_switches, or the current mode itself
            srcs = sorted(body.origins(val), key=repr)

            def from_plan(e):
                return e[0] == "field" and e[2] == "1" and e[1][0] == "call" and T.canon(e[1][1]).endswith("Vec::remove") and len(e[1][2]) == 2 \
                    and any(isinstance(x, tuple) and x[0] == "field" and x[2] == "planned_switches" for x in M.walk(e[1][2][0])) \
                    and e[1][2][1][:2] == ("const", 0)

            def from_self(e):
                return e[0] == "field" and e[2] == "encodation" and e[1][0] in ("arg", "deref") and "self" in repr(e[1])
            okv = bool(srcs) and all(from_plan(e) or from_self(e) for e in srcs)
            obs.append(Ob(r, "encodation:maybe_switch_mode", okv and any(from_plan(e) for e in srcs),
                          "maybe_switch_mode sets the mode only to the mode of the planned switch it removes (or keeps the current one)", site=site, detail=[M.show(e) for e in srcs]))
        else:
            obs.append(Ob(r, "encodation:%s:other" % fnc.split("::")[-1], False,
                          "unexpected writer of GenericDataEncoder.encodation in %s: %s" % (fnc, M.show(val)), site=site))
    # --- planned_switches
    ws = field_writers(f, GDE, "planned_switches")
    for kind, fn, body, b, i, st, val in ws:
        fnc = T.canon(fn)
        site = M.fmt_span(st["span"])
        last = fnc.split("::")[-1]
        if kind == "borrow":
            ok = set(val) <= {"alloc::vec::Vec::remove"}
            obs.append(Ob(r, "planned_switches:borrow:%s" % last, ok, "planned_switches is only consumed by Vec::remove in %s (%s)" % (last, ", ".join(val)), site=site))
            continue
        ok = False
        why = M.show(val)
        if last == "codewords":
            # try: optimize(self.data, len, Ascii, self.symbol_list, self.enabled_modes).ok_or(..)?
            calls = [x for x in M.walk(val) if isinstance(x, tuple) and x[0] == "call" and T.canon(x[1]).endswith("planner::shortest_path::optimize")]
            if not calls:
                # value comes out of the `?` match: look at the optimize call in the body
                oc = body.calls(lambda c, _t: T.canon(c).endswith("planner::shortest_path::optimize"))
                if len(oc) == 1:
                    args = [body.expr_of_operand(a) for a in oc[0][1]["args"]]
                    ok = args[2][0] == "adt" and args[2][2] == "Ascii" \
                        and any(isinstance(x, tuple) and x[0] == "field" and x[2] == "enabled_modes" for x in M.walk(args[4])) \
                        and any(isinstance(x, tuple) and x[0] == "field" and x[2] == "symbol_list" for x in M.walk(args[3])) \
                        and any(isinstance(x, tuple) and x[0] == "field" and x[2] == "data" for x in M.walk(args[0]))
                    why = "optimize(%s)" % ", ".join(M.show(a, 60) for a in args)
            obs.append(Ob(r, "planned_switches:codewords", ok, "codewords() stores the plan returned by planner::optimize(self.data, .., Ascii, self.symbol_list, self.enabled_modes)", site=site, detail=why))
        elif last in ("set_ascii_until_end", "with_size"):
            # vec![(0, Ascii)] or vec![]
            mentions_non_ascii = any(isinstance(x, tuple) and x[0] == "adt" and x[1] == ET and x[2] != "Ascii" for x in M.walk(val))
            others = [v for (_b, _i, v, _s) in agg_sites(body, ET) if v != "Ascii"]
            ok = not mentions_non_ascii and not others
            obs.append(Ob(r, "planned_switches:%s" % last, ok, "%s installs a plan naming no mode other than Ascii" % last, site=site, detail=why))
        else:
            obs.append(Ob(r, "planned_switches:%s:other" % last, False, "unexpected writer of planned_switches in %s: %s" % (fnc, why), site=site))
    # --- new_mode
    ws = field_writers(f, GDE, "new_mode")
    for kind, fn, body, b, i, st, val in ws:
        fnc = T.canon(fn)
        last = fnc.split("::")[-1]
        site = M.fmt_span(st["span"])
        if kind == "borrow":
            ok = set(val) <= {"core::option::Option::take"}
            obs.append(Ob(r, "new_mode:borrow:%s" % last, ok, "new_mode is only consumed by Option::take in %s (%s)" % (last, ", ".join(val)), site=site))
        elif val[0] == "adt" and val[2] == "None":
            obs.append(Ob(r, "new_mode:%s:none" % last, True, "%s clears new_mode" % last, site=site))
        elif last == "maybe_switch_mode" and val[0] == "adt" and val[2] == "Some":
            inner = val[3][0]
            # latch_from_ascii(x) where x is the very value this function stores into self.encodation
            ok = inner[0] == "call" and T.canon(inner[1]).endswith("EncodationType::latch_from_ascii") and len(inner[2]) == 1
            if ok:
                arg = inner[2][0]
                while arg[0] in ("ref", "deref"):
                    arg = arg[1]
                mode_stores = [w for w in field_writers(f, GDE, "encodation") if w[1] == fn and w[0] == "assign"]
                a_or = body.origins(arg)
                ok = len(mode_stores) == 1 and bool(a_or) and a_or == body.origins(mode_stores[0][6])
            obs.append(Ob(r, "new_mode:maybe_switch_mode", ok, "the pending latch is latch_from_ascii() of the mode just switched to", site=site, detail=M.show(val)))
        else:
            obs.append(Ob(r, "new_mode:%s:other" % last, False, "unexpected writer of new_mode in %s: %s" % (fnc, M.show(val)), site=site))
    # --- enabled_modes is written only at construction, from the constructor's parameter
    ws = field_writers(f, GDE, "enabled_modes")
    ok = len(ws) == 1 and ws[0][0] == "construct" and ws[0][6][0] in ("arg", "var") and ws[0][6][1] == "enabled_modes"
    obs.append(Ob(r, "enabled_modes:writers", ok, "GenericDataEncoder.enabled_modes is set once, from with_size's parameter", detail=[(w[0], T.canon(w[1])) for w in ws]))
    # --- optimize's result is its chosen plan's switch list plus a terminator naming the plan's own mode
    ob = find_body(f, "planner::shortest_path::optimize", r)
    # (the final selection may live in a private helper of the module that optimize calls)
    bodies = [ob]
    for _b0, t0 in ob.calls():
        cn0 = T.canon(t0.get("resolved") or t0.get("callee") or "")
        if cn0.startswith("encodation::planner::shortest_path::") and not cn0.endswith("::optimize"):
            raw0 = next((m0 for n0, m0 in f.mir.items() if T.canon(n0) == cn0), None)
            if raw0 is not None and all(bb.raw is not raw0 for bb in bodies if hasattr(bb, "raw")):
                bodies.append(M.Body(raw0))
    pushes = [(bd, b, t) for bd in bodies for b, t in bd.calls(lambda c, _t: T.canon(c).endswith("Vec::push"))
              if "EncodationType" in bd.local_ty((t["args"][1].get("move") or t["args"][1].get("copy") or {"l": 0})["l"])]
    ok = len(pushes) == 1
    if ok:
        e = pushes[0][0].expr_of_operand(pushes[0][2]["args"][1])
        ok = e[0] == "tuple" and e[1][0][:2] == ("const", 0) and e[1][1][0] == "call" and T.canon(e[1][1][1]).endswith("GenericPlan::current")
    obs.append(Ob(r, "optimize:terminator", ok, "optimize appends exactly one entry to the chosen plan: (0, plan.current())", detail=[M.show(bd.expr_of_operand(t["args"][1])) for bd, _b, t in pushes]))
    obs += floor(obs, r, 10, "field writer obligations")
    return obs


LATCHES = {"LATCH_C40": 230, "LATCH_BASE256": 231, "LATCH_X12": 238, "LATCH_TEXT": 239, "LATCH_EDIFACT": 240}


def latch_use(ctx):
    r = "LATCH-USE"
    f = ctx.facts()
    obs = []
    allowed = {"encodation::encodation_type::EncodationType::latch_from_ascii", "decodation::decode_ascii"}
    for name, val in LATCHES.items():
        users = set()
        for fn, b in f.thir.items():
            for n in T.exprs(b["body"], "NamedConst"):
                if n["def"] == "encodation::ascii::" + name:
                    users.add(T.canon(fn))
            for n in T.walk(b["body"]):
                if n.get("k") == "Const" and False:
                    pass
        bad = sorted(users - allowed)
        obs.append(Ob(r, "users:" + name, not bad and "encodation::encodation_type::EncodationType::latch_from_ascii" in users,
                      "%s is referenced only by latch_from_ascii (encoder side) and decode_ascii" % name, detail=sorted(users)))
        obs.append(Ob(r, "value:" + name, f.const("encodation::ascii::" + name) == val, "%s == %d (ISO/IEC 16022 Table 2)" % (name, val)))
    # no literal latch codeword in the encoder
    lits = []
    for fn, b in f.thir.items():
        if not fn.startswith("encodation::") and "GenericDataEncoder" not in fn:
            continue
        if fn.startswith("encodation::planner::"):
            continue
        for n in T.exprs(b["body"], "Lit"):
            if n.get("int") in LATCHES.values() and n["ty"] == "u8":
                lits.append("%s @%s" % (fn, T.span_str(n["span"])))
    obs.append(Ob(r, "no-literal-latch", not lits, "no u8 literal equal to a latch codeword occurs in the encoder", detail=lits))
    # latch_from_ascii maps each mode to its own latch
    fn = "encodation::encodation_type::EncodationType::latch_from_ascii"
    b = f.thir.get(fn)
    need(b, r, fn)
    m = T.top_match(b["body"])
    need(m, r, fn, "(match on self)")
    rows, rest = T.enum_match_table(m, MODES)
    want = {"C40": "LATCH_C40", "Text": "LATCH_TEXT", "X12": "LATCH_X12", "Edifact": "LATCH_EDIFACT", "Base256": "LATCH_BASE256"}
    for vs, body, arm in rows:
        for v in vs:
            e = T.sx(body)
            if v == "Ascii":
                continue
            ok = e[0] == "const" and e[1] == "encodation::ascii::" + want[v]
            obs.append(Ob(r, "latch_from_ascii:" + v, ok, "latch_from_ascii(%s) = %s" % (v, want[v]), site=T.span_str(arm["span"]), detail=T.sx_show(e)))
    # the only encoder push of a pending latch: codewords() pushes new_mode.take()
    cw = [n for n in f.thir if T.canon(n).endswith("GenericDataEncoder::codewords")]
    need(len(cw) == 1, r, "GenericDataEncoder::codewords")
    deep = T.fn_stmts_deep(f, cw[0], only=lambda c: "GenericDataEncoder" in c)
    found = False
    for s in (x for _n, ss in deep for x in T.stmt_walk(ss)):
        if s[0] == "if" and s[1][0] == "iflet" and s[1][3] == "Some":
            src = s[1][1]
            if src[0] == "call" and src[1].endswith("Option::take") and src[2][0][0] == "field" and src[2][0][2] == "new_mode":
                bound = s[1][2][0].split("#")[0]
                pushes = [x for st in T.stmt_walk(s[2]) for e in T.stmt_exprs(st) for x in T.sx_calls(e, "::push")]
                found = len(pushes) == 1 and pushes[0][2][1][:2] == ("var", bound)
    obs.append(Ob(r, "pending-latch-push", found, "codewords() emits the pending latch exactly as stored (if let Some(m) = self.new_mode.take() { self.push(m) })"))
    obs += floor(obs, r, 5 + 5 + 1 + 5 + 1, "latch obligations")
    return obs
