"""C05 / C11 / C15 panic-freedom and termination rules:
RESIDUE (Engine B + ledger), INV-* (table invariants the ledger's `table-invariant` classes rely on),
DIV-GUARD (GF division census), T-ALT / T-LOOPS (termination of the decoding loops)."""
import re
import json
import os
from collections import defaultdict

from .core import Ob, need, floor, VERIF
from . import thirlib as T
from . import mirlib as M
from . import residue as R
from . import p_symbols
from .p_modes import field_writers
from .p_rs import is_var, strip_into_iter, adt_fields


def load_ledger():
    with open(os.path.join(VERIF, "ledger", "panic_sites.json")) as fh:
        return json.load(fh)


def _residue_groups(ctx):
    f = ctx.facts()
    key = ("residue", f.path)
    if not hasattr(ctx, "_resid"):
        ctx._resid = {}
    if key not in ctx._resid:
        g = R.call_graph(f)
        a = R.attributed(f, ctx.repo)
        grp = defaultdict(dict)
        for x in a:
            owner = x["owner"]
            if str(x.get("std_loc") or "").startswith(("alloc/", "core/", "std/")) and not owner.startswith("(std)"):
                # the failing check's own Location lies inside alloc/core (not #[track_caller]): an invariant of the
                # instantiated std generic, whichever crate frame happens to be nearest in the debug info
                owner = "(std) " + owner
            grp[(owner, x["kind"])].setdefault(x["pos"] if not owner.startswith("(std)") or x["pos"] == "-" else x["pos"] + "@" + str(x.get("std_loc")), x)
        uni = R.universe(f)
        ctx._resid[key] = (g, grp, uni, len(a))
    return ctx._resid[key]


def family(kind):
    """residual sites are compared per family: rewriting `2 * t` as `t + t`, `.expect(..)` as an explicit `panic!`, or
    `assert!(c)` as `if !c { panic!() }` moves a site between kinds of one family without adding an unproved failure"""
    if kind.startswith("overflow-"):
        return "overflow"
    if kind in ("panic", "expect", "unwrap", "assert"):
        return "explicit"
    return kind


_CLOS = re.compile(r"(::\{closure#\d+\})+$")


def parent_fn(owner):
    """closures are accounted with the function that contains them (`.map(Into::into)` vs `.map(|c| c.into())` moves
    the nearest crate frame of std-internal checks into a closure)"""
    return _CLOS.sub("", owner)


def _merge_ledger(entries):
    led = {}
    for e in entries:
        k = (parent_fn(e["owner"]), family(e["kind"]))
        if k not in led:
            led[k] = dict(e, kind=k[1], snippets=list(e.get("snippets", [])))
        else:
            m = led[k]
            m["snippets"] += e.get("snippets", [])
            # the merged budget is the number of distinct reviewed expressions, not the sum (one expression can carry checks
            # of two kinds; summing would leave slack that hides a new site)
            m["max_sites"] = len(set(m["snippets"])) if m["snippets"] else m["max_sites"] + e["max_sites"]
            if e["class"] != m["class"]:
                # undecided if any merged entry is undecided
                if e["class"].startswith("not-decided") and not m["class"].startswith("not-decided"):
                    m["class"], m["reason"] = e["class"] + " + " + m["class"], e["reason"]
                else:
                    m["class"] = m["class"] + " + " + e["class"]
    return led


def residue_rule(scope, owner_filter=None, rule="RESIDUE"):
    entries = {"decode": R.DECODE_ENTRIES, "encode": R.ENCODE_ENTRIES}[scope]

    def run(ctx):
        r = rule
        f = ctx.facts()
        g, grp0, uni, total = _residue_groups(ctx)
        fns, missing = R.reachable(g, entries)
        grp = defaultdict(dict)
        for (owner, kind), sites in grp0.items():
            if owner.startswith("(std)") or owner in fns:
                grp[(parent_fn(owner), family(kind))].update(sites)
        fns = set(fns) | {parent_fn(o) for o in fns}
        obs = []
        obs.append(Ob(r, "%s:entries" % scope, not missing, "all %s entry points found in the call graph" % scope, detail=missing))
        ledger = load_ledger()
        led = _merge_ledger(ledger["entries"])
        # universe size in scope (how many potential panic sites the compiler had to consider)
        uni_in = sum(1 for k, v in uni.items() if any(o in fns for o, _k, _s in v))
        floor_uni = 250 if scope == "decode" and owner_filter is None else 1
        obs.append(Ob(r, "%s:universe" % scope, uni_in >= floor_uni, "%d potential panic sites (MIR asserts and panicking calls) lie in the %s scope of %d functions" % (uni_in, scope, len(fns))))
        n_res = 0
        n_std = 0
        # file-level budgets: distinct residual expressions per (file, kind), ledger vs now
        owner_file = {}
        for (owner, kind), sites in grp.items():
            for pos in sites:
                if pos != "-":
                    owner_file.setdefault(owner, pos.rsplit(":", 2)[0])
        file_led = defaultdict(int)
        for e0 in led.values():
            fl = e0.get("file")
            if fl:
                file_led[(fl, e0["kind"])] += e0["max_sites"]
        file_now = defaultdict(int)
        for (owner, kind), sites in grp.items():
            if owner.startswith("(std)"):
                continue
            fl = owner_file.get(owner)
            if fl:
                file_now[(fl, kind)] += len({(s0.get("snippet") or s0.get("std_loc") or s0["pos"])[:100] for s0 in sites.values()})
        for (owner, kind), sites in sorted(grp.items()):
            if owner.startswith("(std)"):
                # invariant checks inside instantiated alloc/core generics with no crate frame (BTree nodes, sort, RangeFrom
                # overflow, allocation failure): not attributable to a crate site; counted, never compared
                n_std += len(sites)
                continue
            if owner not in fns:
                continue
            if owner_filter and not owner_filter(owner):
                continue
            n_res += len(sites)
            # distinct residual *expressions* (source snippets): duplicating an already reviewed expression inside the same
            # function is neutral, a new unproved expression is not
            snips = {(s.get("snippet") or s.get("std_loc") or s["pos"])[:100] for s in sites.values()}
            if kind == "alloc":
                # allocation failure / capacity overflow of a collection: out of the property's reach (DESIGN §3), counted only
                obs.append(Ob(r, "%s|alloc" % owner, True, "%d allocation-failure path(s) in %s (handle_alloc_error / capacity overflow): not a decoding panic" % (len(sites), owner), info=True))
                continue
            if kind == "cleanup":
                # panic_in_cleanup is the landing pad's abort while unwinding from another panic: never a first failure
                obs.append(Ob(r, "%s|cleanup" % owner, True, "%d unwind-cleanup abort path(s) in %s: only reachable after another panic" % (len(sites), owner), info=True))
                continue
            e = led.get((owner, kind))
            descr = "; ".join(sorted(x[:70] for x in snips))[:300]
            where = sorted(sites)[0]
            fkey = (where.rsplit(":", 2)[0], kind)
            if (e is None or len(snips) > e["max_sites"]) and file_now.get(fkey, 0) <= file_led.get(fkey, 0):
                # the function is new (or grew) but its file has no more residual expressions of this kind than the reviewed
                # ledger allows for that file: sites moved between functions of one file (helper extracted / inlined)
                obs.append(Ob(r, "%s|%s" % (owner, kind), True,
                              "%d residual %s expression(s) in %s: within the file-level budget of the ledger (%d <= %d for %s) - moved between functions of the same file" % (
                                  len(snips), kind, owner, file_now.get(fkey, 0), file_led.get(fkey, 0), fkey[0]), site=where, undecided=True))
                continue
            if e is None:
                obs.append(Ob(r, "%s|%s" % (owner, kind), False,
                              "%d residual %s site(s) in %s that the compiler cannot prove unreachable and the ledger does not list: %s" % (len(sites), kind, owner, descr), site=where))
                continue
            known = set(e.get("snippets", []))
            new = sorted(snips - known)
            if len(snips) > e["max_sites"] and new:
                obs.append(Ob(r, "%s|%s" % (owner, kind), False,
                              "%d distinct residual %s expressions in %s, the reviewed ledger allows %d (class %s); new: %s" % (
                                  len(snips), kind, owner, e["max_sites"], e["class"], "; ".join(x[:80] for x in new)[:300]),
                              site=sorted(s2["pos"] for s2 in sites.values() if (s2.get("snippet") or s2.get("std_loc") or s2["pos"])[:100] in new)[0]))
                continue
            undec = e["class"].startswith("not-decided")
            obs.append(Ob(r, "%s|%s" % (owner, kind), True,
                          "%d residual %s expression(s) in %s within the ledger (%d): %s - %s" % (len(snips), kind, owner, e["max_sites"], e["class"], e["reason"][:160]),
                          site=where, undecided=undec))
        ctx.note("%s scope: %d residual sites inside instantiated std generics without a crate frame (std-internal / alloc-failure), not compared" % (scope, n_std))
        obs.append(Ob(r, "%s:residue" % scope, True, "%d distinct residual sites in scope; every other potential site was deleted by the optimiser as unreachable" % n_res, info=True))
        ctx.note("%s scope: %d functions, %d potential panic sites, %d residual" % (scope, len(fns), uni_in, n_res))
        return obs
    return run


def invariants(ctx):
    r = "INV"
    f = ctx.facts()
    obs = []
    # tables < 128 (text + 128 cannot overflow)
    for name in ("decodation::BASE_C40", "decodation::BASE_TEXT", "decodation::SHIFT3_C40", "decodation::SHIFT3_TEXT", "decodation::SHIFT2"):
        v = f.const(name)
        obs.append(Ob(r, "tables<128:" + name.split("::")[-1], v is not None and max(v) < 128, "every entry of %s is < 128 (max %s)" % (name, max(v) if v else None)))
    for name, n in (("decodation::BASE_C40", 37), ("decodation::BASE_TEXT", 37), ("decodation::SHIFT3_C40", 32), ("decodation::SHIFT3_TEXT", 32), ("decodation::SHIFT2", 27)):
        v = f.const(name)
        obs.append(Ob(r, "table-len:" + name.split("::")[-1], v is not None and len(v) == n, "%s has %d entries (index ranges of the decoder arms stay inside: TAB-DEC folds every index)" % (name, n)))
    log = f.const("errorcode::galois::LOG") or []
    alog = f.const("errorcode::galois::ANTI_LOG") or []
    obs.append(Ob(r, "log-range", len(alog) == 255 and log and max(log) <= 254, "LOG values are <= 254 and ANTI_LOG has 255 entries, so ANTI_LOG[(ia - ib) mod 255] is in range"))
    t = p_symbols.tables(ctx)
    bad = []
    for v in t["variants"]:
        su, d = t["setup"].get(v), t["data"].get(v)
        if not (isinstance(su, dict) and isinstance(d, int) and d >= su["num_ecc_blocks"] >= 1 and su["num_ecc_per_block"] >= 1 and su["width"] <= 144 and su["height"] <= 144):
            bad.append(v)
    obs.append(Ob(r, "data>=blocks", not bad, "every size has data codewords >= blocks >= 1, k >= 1 and dimensions <= 144", detail=bad))
    return obs


def invariants_encode(ctx):
    """INV (encode scope): invariants the encode-scope ledger classes rely on"""
    r = "INV"
    f = ctx.facts()
    obs = []
    t = p_symbols.tables(ctx)
    # the planner's cost counter: twelfths of a codeword; the dearest mode costs 8/3 codewords per input byte and input up to
    # the largest capacity().max is admitted before any plan is priced, so the counter must hold 12 * 3 * max capacity
    frac = f.adts.get("encodation::planner::frac::Frac")
    need(frac, r, "encodation::planner::frac::Frac")
    fty = [x["ty"] for x in frac["variants"][0].get("fieldtys", [])]
    bits = {"u8": 8, "u16": 16, "u32": 32, "u64": 64, "usize": 64, "u128": 128, "i8": 7, "i16": 15, "i32": 31, "i64": 63, "isize": 63, "i128": 127}
    caps = [c["max"] for c in t["capacity"].values() if isinstance(c, dict) and isinstance(c.get("max"), int)]
    need_val = 12 * 3 * (max(caps) if caps else 0)
    okf = len(fty) == 1 and fty[0] in bits and caps and need_val < 2 ** bits[fty[0]]
    obs.append(Ob(r, "frac-width", bool(okf), "the planner's cost counter (%s) can hold 12 * 3 * %s = %d twelfths - the value-range argument behind the ledger's Frac entries" % (
        fty[0] if fty else "?", max(caps) if caps else "?", need_val), detail=fty))
    return obs


GF_DIV = ("<errorcode::galois::GF as core::ops::Div>::div", "<errorcode::galois::GF as core::ops::DivAssign>::div_assign")

# reviewed: unguarded divisions per function (divisor not syntactically compared with GF(0) on a dominating edge)
DIV_REVIEWED = {
    "errorcode::decoding::syndrome_based::find_inv_error_locations_levinson_durbin": (
        5, "syn[v-1] is the first non-zero syndrome by construction of v (take_while == 0) and v <= t is checked; sigma_m is selected non-zero by find_map; sigma[0] = sigma_m"),
    "errorcode::decoding::syndrome_based::find_error_values_bp": (
        3, "Chien roots are non-zero (a zero root is rejected before) and pairwise distinct, so z, x_loc[j] - x_loc[j-k-1] and x_loc[i] are non-zero"),
}


def _zero(x):
    return x[0] == "adt" and x[1] == "errorcode::galois::GF" and len(x[3]) == 1 and x[3][0][1] == ("lit", 0)


def _strip_conv(x):
    while isinstance(x, tuple) and x[0] == "call" and (x[1].endswith("Into<U>>::into") or x[1].endswith("::deref") or x[1].endswith("From<T>>::from") or x[1].endswith("Clone>::clone")):
        x = x[2][0]
    return x


def _nonzero_facts(cond, pol, out):
    """collect expressions known non-zero when `cond` has truth value `pol`"""
    if cond[0] == "un" and cond[1] == "Not":
        return _nonzero_facts(cond[2], not pol, out)
    if cond[0] == "logic":
        if (cond[1] == "And" and pol) or (cond[1] == "Or" and not pol):
            _nonzero_facts(cond[2], pol, out)
            _nonzero_facts(cond[3], pol, out)
        return
    if cond[0] == "call" and (cond[1].endswith("::ne") or cond[1].endswith("::eq")):
        is_ne = cond[1].endswith("::ne")
        a, b = _strip_conv(cond[2][0]), _strip_conv(cond[2][1])
        if (is_ne and pol) or (not is_ne and not pol):
            if _zero(b):
                out.append(a)
            elif _zero(a):
                out.append(b)


def div_guard(ctx):
    r = "DIV-GUARD"
    f = ctx.facts()
    g, grp, uni, total = _residue_groups(ctx)
    fns, _ = R.reachable(g, R.DECODE_ENTRIES)
    obs = []
    total_div = 0
    per_fn = defaultdict(list)
    local_names = {T.canon(n) for n in f.thir}
    call_args = defaultdict(list)      # callee -> [[argument known non-zero at the call site?, ..] per call site]
    params_of = {}
    for name, b in f.thir.items():
        cn = T.canon(name)
        if cn not in fns or cn.startswith("<errorcode::galois::GF as "):
            continue   # the operator impls only forward their operand
        sts = T.stmts(b["body"], {"__noinline__": True})
        params_of[cn] = [(p_.get("pat") or {}).get("name", "#").split("#")[0] if (p_.get("pat") or {}).get("k") == "Bind" else None for p_ in b["params"]]

        def visit(stl, known):
            known = list(known)
            for s in stl:
                for e in T.stmt_exprs(s):
                    for x in T.sx_walk(e):
                        if isinstance(x, tuple) and x[0] == "call" and x[1] in local_names and x[1] not in GF_DIV:
                            call_args[x[1]].append([any(_strip_conv(a0) == k for k in known) for a0 in x[2]])
                        if isinstance(x, tuple) and x[0] == "call" and x[1] in GF_DIV:
                            d = _strip_conv(x[2][1])
                            guarded = any(d == k for k in known) or (d[0] == "adt" and d[1] == "errorcode::galois::GF" and d[3][0][1][0] == "lit" and d[3][0][1][1] != 0)
                            per_fn[cn].append((guarded, T.sx_show(d, 80), s[-1] if isinstance(s[-1], str) else "?"))
                if s[0] == "if":
                    kt, kf = [], []
                    c = s[1]
                    if c[0] != "iflet":
                        _nonzero_facts(c, True, kt)
                        _nonzero_facts(c, False, kf)
                    visit(s[2], known + kt)
                    visit(s[3], known + kf)
                    # early exit: `if x == 0 { return/break/continue }` makes x non-zero afterwards
                    if s[2] and s[2][-1][0] in ("return", "break", "continue") and not s[3]:
                        known = known + kf
                elif s[0] == "for":
                    visit(s[3], known)
                elif s[0] == "loop":
                    visit(s[1], known)
                elif s[0] == "match":
                    for _p, body, _g in s[2]:
                        visit(body, known)
        visit(sts, [])
    # a divisor that is a parameter of a private helper is guarded when every call site passes a value already known to be non-zero
    for cn, lst in per_fn.items():
        ps = params_of.get(cn, [])
        sites = call_args.get(cn, [])
        for k0, (guarded, dshow, where) in enumerate(lst):
            if not guarded and dshow in ps and sites:
                i0 = ps.index(dshow)
                if all(len(cs) > i0 and cs[i0] for cs in sites):
                    lst[k0] = (True, dshow + " (non-zero at every call site)", where)
    # per-file budget: a reviewed division that moved into a helper of the same file (or two that were merged into one helper)
    # is the same reviewed division
    file_of = {}
    for name, b in f.thir.items():
        file_of[T.canon(name)] = b["span"]["file"]
    file_allowed, file_now = defaultdict(int), defaultdict(int)
    for cn, (n_allowed, _why) in DIV_REVIEWED.items():
        file_allowed[file_of.get(cn, "src/errorcode/decoding/syndrome_based.rs")] += n_allowed
    for cn, lst in per_fn.items():
        file_now[file_of.get(cn)] += sum(1 for x in lst if not x[0])
    for cn, lst in sorted(per_fn.items()):
        total_div += len(lst)
        ung = [x for x in lst if not x[0]]
        allowed, reason = DIV_REVIEWED.get(cn, (0, ""))
        fl = file_of.get(cn)
        moved = len(ung) > allowed and file_now[fl] <= file_allowed[fl]
        ok = len(ung) <= allowed or moved
        obs.append(Ob(r, cn, ok, "%s: %d GF divisions, %d with a divisor not compared against GF(0) on a dominating edge; reviewed allowance %d%s%s%s" % (
            cn.split("::")[-1], len(lst), len(ung), allowed, (" (" + reason + ")") if reason and ung else "",
            (" - within the reviewed number of unguarded divisions of %s (%d <= %d): moved between functions of that file" % (fl, file_now[fl], file_allowed[fl])) if moved else "",
            "" if ok else " - unguarded: " + "; ".join("%s @%s" % (u[1], u[2]) for u in ung)),
            site=ung[0][2] if ung else None, undecided=bool(ung) and ok))
    obs.append(Ob(r, "census", total_div >= 8, "%d GF divisions in the decode scope were classified" % total_div))
    return obs


def t_alt(ctx):
    r = "T-ALT"
    f = ctx.facts()
    obs = []
    fn = "decodation::decode_ascii"
    need(fn in f.thir, r, fn)
    sts = T.stmts(f.thir[fn]["body"], {"__noinline__": True})
    loops = [s for s in sts if s[0] == "loop"]
    ok = len(loops) == 1
    inside_ok = after_ok = False
    if ok:
        body = loops[0][1]
        # while let Ok(ch) = data.eat()
        first = body[0] if body else None
        is_eat_loop = first is not None and first[0] == "if" and first[1][0] == "iflet" and first[1][1][0] == "call" and first[1][1][1].endswith("Reader::eat") and first[1][3] == "Ok" \
            and any(x[0] == "break" for x in first[3])
        rets_in_loop = [st for st in T.stmt_walk(body) if st[0] == "return"]
        rets_in_then = [st for st in T.stmt_walk(first[2])] if is_eat_loop else []
        inside_ok = is_eat_loop and all(any(st is x for x in rets_in_then) for st in rets_in_loop)
        idx = sts.index(loops[0])
        before = [st for st in T.stmt_walk(sts[:idx]) if st[0] == "return"]
        after_ok = not before
    obs.append(Ob(r, "ascii-consumes", ok and inside_ok and after_ok,
                  "decode_ascii returns from inside its loop only after a successful eat(); otherwise it returns when eat() failed, i.e. the input is exhausted"))
    # Reader only shrinks
    ws = field_writers(f, "decodation::Reader", "0")
    okw = True
    det = []
    for kind, name, body, b, i, st, val in ws:
        cn = T.canon(name)
        det.append((cn, kind))
        if kind == "construct":
            continue
        if cn.endswith("Reader::eat") and kind == "assign":
            e = body.deep(body.expr_of_rvalue, st["rv"])
            okw = okw and any(isinstance(x, tuple) and x[0] == "call" and T.canon(x[1]).endswith("split_first") for x in M.walk(e))
        else:
            okw = False
    obs.append(Ob(r, "reader-shrinks", okw and len(ws) >= 1, "Reader's slice is written only by eat(), which stores the tail returned by split_first", detail=det))
    # decode_parts main loop: exits iff the reader is empty, and assigns the decoder's rest/mode
    fn = "decodation::decode_parts"
    sts = T.stmts(f.thir[fn]["body"], {"__noinline__": True})
    loops = [s for s in sts if s[0] == "loop"]
    ok = len(loops) == 1 and loops[0][1] and loops[0][1][0][0] == "if"
    if ok:
        c = loops[0][1][0][1]
        ok = c[0] == "un" and c[1] == "Not" and c[2][0] == "call" and c[2][1].endswith("Reader::is_empty")
        body = loops[0][1][0][2]
        assigns = [st for st in body if st[0] == "assign"]
        # roles: the reader is the variable tested by the loop condition, the mode is the scrutinee of the dispatch; both are
        # re-assigned from the (reader, mode) pair the dispatched decoder returned
        reader = c[2][2][0][1] if ok and c[2][2][0][0] == "var" else None
        pair = [st for st in body if st[0] == "letpat" and len(st[1]) == 2 and st[2] is not None and st[2][0] == "match" and st[2][1][0] == "var"]
        # ... or of a private dispatch helper called with (mode, reader, ..): `(reader, mode) = decode_segment(mode, reader, ..)?`
        pair2 = [st for st in body if st[0] == "letpat" and len(st[1]) == 2 and st[2] is not None and st[2][0] == "try" and st[2][1][0] == "call"
                 and st[2][1][1].startswith("decodation::") and any(is_var(x, reader) for x in st[2][1][2])]
        if ok and reader and len(pair) == 1:
            n_rest, n_mode = [n.split("#")[0] for n in pair[0][1]]
            modev = pair[0][2][1][1]
            ok = any(is_var(a[1], reader) and is_var(a[2], n_rest) for a in assigns) and any(is_var(a[1], modev) and is_var(a[2], n_mode) for a in assigns)
        elif ok and reader and len(pair2) == 1:
            full = pair2[0][1]
            modes = [x[1] for x in pair2[0][2][1][2] if x[0] == "var" and x[1] != reader]
            # the two results are stored back, by unique binding, into the reader and into the mode variable passed in
            ok = any(is_var(a[1], reader) and a[2][0] == "var" and a[2][2] == full[0] for a in assigns) and \
                any(a[1][0] == "var" and a[1][1] in modes and a[2][0] == "var" and a[2][2] == full[1] for a in assigns)
        else:
            ok = False
    obs.append(Ob(r, "main-loop", ok, "decode_parts loops while the reader is non-empty and continues with exactly the reader and mode the decoder returned"))
    return obs


LOOP_REVIEWED = {
    # function -> (number of while/loop statements, reason)
    "decodation::decode_parts": (1, "T-ALT: every non-ASCII decoder returns to ASCII and decode_ascii consumes >= 1 codeword when the reader is non-empty"),
    "decodation::decode_ascii": (2, "both loops are `while let Ok(ch) = data.eat()`: one codeword per iteration"),
    "decodation::decode_edifact": (1, "each iteration breaks or eats the first codeword of a chunk"),
    "decodation::decode_x12": (1, "each iteration eats two codewords or breaks"),
    "decodation::decode_c40_like": (1, "each iteration eats two codewords or breaks"),
    "errorcode::decoding::syndrome_based::find_inv_error_locations_levinson_durbin": (1, "`while v < t`: v is increased on both arms (v += 1 / v = n + 1 > v) or the loop breaks"),
    "placement::IndexTraversal::run": (3, "the Annex F sweeps: equal to the reference program (TAB-PLC), which terminates for every catalogue size"),
}


ENC_LOOP_REVIEWED = {
    "encodation::GenericDataEncoder::codewords": (1, "`while has_more_characters()`: every iteration either writes more than one codeword or counts towards the no-progress limit of 5 (then it panics: not-decided assertion, never an endless loop)"),
    "encodation::ascii::encode": (1, "each iteration returns (mode switch / end of data) or eats one or two characters"),
    "encodation::ascii::encoding_size": (1, "each iteration shortens `rest` by one or two bytes or breaks"),
    "encodation::c40::encode_generic": (2, "`while let Some(ch) = ctx.eat()` and `while buf.len() >= 3` (drains three values per iteration)"),
    "encodation::x12::encode": (1, "`while characters_left() >= 3`: eats three characters per iteration or breaks"),
    "encodation::edifact::encode": (1, "`while let Some(ch) = ctx.eat()`"),
    "encodation::base256::encode": (1, "each iteration eats a character while characters are left, and returns when none are left or the mode switches"),
    # remove_hopeless_cases (`while start + 1 < list.len()`) and C40LikePlan::step (`while self.values >= 3 { .. -= 3 }`) are decided by
    # variant_loop() from their shape and need no reviewed budget
    "encodation::planner::shortest_path::remove_hopeless_cases": (0, ""),
    "<encodation::planner::c40::C40LikePlan<T, U> as encodation::planner::Plan>::step": (0, ""),
    "encodation::planner::c40::unbeatable_strike": (0, ""),
}


LOOP_FILE = {
    "decodation::decode_parts": "src/decodation/mod.rs", "decodation::decode_ascii": "src/decodation/mod.rs",
    "decodation::decode_edifact": "src/decodation/mod.rs", "decodation::decode_x12": "src/decodation/mod.rs",
    "decodation::decode_c40_like": "src/decodation/mod.rs",
    "errorcode::decoding::syndrome_based::find_inv_error_locations_levinson_durbin": "src/errorcode/decoding/syndrome_based.rs",
    "placement::IndexTraversal::run": "src/placement.rs",
    "encodation::GenericDataEncoder::codewords": "src/encodation/mod.rs", "encodation::ascii::encode": "src/encodation/ascii.rs",
    "encodation::ascii::encoding_size": "src/encodation/ascii.rs", "encodation::c40::encode_generic": "src/encodation/c40.rs",
    "encodation::x12::encode": "src/encodation/x12.rs", "encodation::edifact::encode": "src/encodation/edifact.rs",
    "encodation::base256::encode": "src/encodation/base256.rs",
    "encodation::planner::shortest_path::remove_hopeless_cases": "src/encodation/planner/shortest_path.rs",
    "<encodation::planner::c40::C40LikePlan<T, U> as encodation::planner::Plan>::step": "src/encodation/planner/c40.rs",
    "encodation::planner::c40::unbeatable_strike": "src/encodation/planner/c40.rs",
}


_P_BYVALUE = {"index", "index_mut", "remove", "swap_remove", "get", "get_mut", "from", "into", "min", "max", "cmp", "lt", "le", "gt", "ge", "eq", "ne",
              "add", "sub", "mul", "div", "rem", "try_from", "try_into", "clone", "split_at", "nth", "skip", "take"}
_V_NOGROW = {"len", "index", "index_mut", "is_empty", "iter", "iter_mut", "get", "get_mut", "first", "last", "deref", "deref_mut", "as_slice",
             "remove", "swap_remove", "pop", "truncate", "clear", "retain", "dedup", "dedup_by_key", "sort", "sort_unstable", "sort_by_key",
             "sort_unstable_by_key", "sort_by", "sort_unstable_by", "swap", "contains", "binary_search"}
_V_SHRINK = {"remove", "swap_remove", "pop"}


def _callee_keeps_len(f, callee, argi, depth=2):
    """a crate-local callee that receives the vector as argument `argi`: its body only uses it through calls that cannot grow it
    (and hands it on only to callees for which the same holds)"""
    if f is None or depth <= 0:
        return False
    body = next((b for n, b in f.thir.items() if T.canon(n) == callee), None)
    if body is None or argi >= len(body["params"]):
        return False
    pat = body["params"][argi].get("pat") or {}
    if pat.get("k") != "Bind" or "sub" in pat:
        return False
    v = pat["name"]
    for st in T.stmt_walk(T.stmts(body["body"], {"__noinline__": True})):
        if st[0] == "assign" and any(isinstance(x, tuple) and x[0] == "var" and len(x) > 2 and x[2] == v for x in T.sx_walk(st[1])) and st[1][0] != "index" \
                and not (st[1][0] == "call" and st[1][1].endswith(("::index_mut", "::index"))):
            return False
        for e in T.stmt_exprs(st):
            for x in T.sx_walk(e):
                if isinstance(x, tuple) and x and x[0] == "closure":
                    return False
                if isinstance(x, tuple) and x and x[0] == "call":
                    last = x[1].split("::")[-1]
                    for i, a in enumerate(x[2]):
                        a0 = strip_into_iter(a) if isinstance(a, tuple) else a
                        if isinstance(a0, tuple) and a0 and a0[0] == "var" and len(a0) > 2 and a0[2] == v and last not in _V_NOGROW:
                            if not _callee_keeps_len(f, x[1], i, depth - 1):
                                return False
    return True


def variant_loop(lp, f=None):
    """Termination of a `while` loop decided from its shape: the condition is `p < E` / `p <= E` (or `p + c < E`) with E a literal,
    an immutable local or `v.len()`, and every path through the body either raises p by a positive literal, removes an element
    of v (`remove` / `swap_remove` / `pop`; then E - p still drops), or leaves the loop; nothing in the body assigns p otherwise,
    passes it on by reference, or can grow v.  The mirrored form `p >= c` / `p > c` with `p -= k` (k small enough not to wrap) is
    accepted too.  Returns a description of the variant, or None when the loop is not of this shape."""
    body = lp[1]
    if not (len(body) == 1 and body[0][0] == "if" and len(body[0][3]) == 1 and body[0][3][0][0] == "break"):
        return None
    cond, then = body[0][1], body[0][2]
    if not (isinstance(cond, tuple) and cond[0] == "bin" and cond[1] in ("Lt", "Le", "Ge", "Gt")):
        return None
    L, Rr = cond[2], cond[3]
    down = cond[1] in ("Ge", "Gt")
    if L[0] == "bin" and L[1] == "Add" and L[3][0] == "lit" and not down:
        L = L[2]
    grow = None
    if not down and L[0] == "call" and L[1].endswith("::len") and len(L[2]) == 1:
        # `while v.len() < E { .. v.push(x) .. }`: the length is the counter
        gv = strip_into_iter(L[2][0])
        while gv[0] == "call" and gv[1].split("::")[-1] in ("deref", "deref_mut", "as_slice") and len(gv[2]) == 1:
            gv = gv[2][0]
        if gv[0] in ("var", "field") and Rr[0] in ("lit", "var"):
            return _grow_loop(lp, cond, gv, Rr, then, f)
        return None
    if L[0] not in ("var", "field"):
        return None
    p = L
    vec = None
    bound = None
    if Rr[0] == "lit" and isinstance(Rr[1], int):
        bound = Rr[1]
    elif down and Rr[0] == "var":
        # `while p > k` / `p >= k` with k a local the body never writes: p only goes down by literals, and p > k >= 0 (or, for
        # `>=`, the step must not pass below k: only step 1 with `>` is accepted)
        if cond[1] != "Gt" or any(st[0] in ("assign", "assignop") and (st[1] if st[0] == "assign" else st[2])[:2] == Rr[:2] for st in T.stmt_walk(then)):
            return None
        bound = 0
    elif Rr[0] == "call" and Rr[1].endswith("::len") and len(Rr[2]) == 1 and not down:
        vec = strip_into_iter(Rr[2][0])
        while vec[0] == "call" and vec[1].split("::")[-1] in ("deref", "deref_mut", "as_slice") and len(vec[2]) == 1:
            vec = vec[2][0]
        if vec[0] not in ("var", "field"):
            return None
    else:
        return None
    bad = []

    def same(a, b):
        return a[:2] == b[:2] if a[0] == "var" and b[0] == "var" else a == b

    def scan(stl):
        for st in T.stmt_walk(stl):
            if st[0] == "assign" and (same(st[1], p) or (vec is not None and (same(st[1], vec) or (st[1][0] == "deref" and same(st[1][-1], vec))))):
                bad.append("assignment to %s" % T.sx_show(st[1]))
            if st[0] == "assignop" and same(st[2], p):
                okop = st[3][0] == "lit" and isinstance(st[3][1], int) and st[3][1] >= 1 and ((st[1] == "AddAssign" and not down) or (
                    st[1] == "SubAssign" and down and st[3][1] <= (bound if cond[1] == "Ge" else bound + 1)))
                if not okop:
                    bad.append("%s %s" % (st[1], T.sx_show(st[3])))
            for e in T.stmt_exprs(st):
                for x in T.sx_walk(e):
                    if isinstance(x, tuple) and x and x[0] == "call":
                        last = x[1].split("::")[-1]
                        for a in x[2]:
                            a0 = strip_into_iter(a) if isinstance(a, tuple) else a
                            if isinstance(a0, tuple) and a0 and a0[0] in ("var", "field"):
                                if same(a0, p) and last not in _P_BYVALUE:
                                    bad.append("%s passed to %s" % (T.sx_show(p), last))
                                if vec is not None and same(a0, vec) and last not in _V_NOGROW and not _callee_keeps_len(f, x[1], list(x[2]).index(a)):
                                    bad.append("%s passed to %s" % (T.sx_show(vec), last))
                    if isinstance(x, tuple) and x and x[0] == "closure":
                        bad.append("closure in the loop body")
    scan(then)

    def progress_stmt(st):
        if st[0] == "assignop" and same(st[2], p):
            return True
        e = st[1] if st[0] == "expr" else (st[3] if st[0] == "let" and len(st) > 3 else None)
        if vec is not None and isinstance(e, tuple) and e and e[0] == "call" and e[1].split("::")[-1] in _V_SHRINK and e[2] and same(strip_into_iter(e[2][0]), vec):
            return True
        return False

    def outs(stl):
        cur = {"neutral"}
        for st in stl:
            nxt = set()
            for o in cur:
                if o in ("exit", "stuck"):
                    nxt.add(o)
                    continue
                for o2 in stmt_outs(st):
                    if o2 == "continue":
                        nxt.add("exit" if o == "progress" else "stuck")
                    elif o2 in ("exit", "stuck"):
                        nxt.add(o2)
                    else:
                        nxt.add("progress" if "progress" in (o, o2) else "neutral")
            cur = nxt
        return cur

    def stmt_outs(st):
        if progress_stmt(st):
            return {"progress"}
        if st[0] in ("break", "return"):
            return {"exit"}
        if st[0] == "continue":
            return {"continue"}
        if st[0] == "if":
            return outs(st[2]) | outs(st[3] or [])
        if st[0] == "match":
            o = set()
            for arm in st[2]:
                o |= outs(arm[1])
            return o or {"neutral"}
        if st[0] in ("loop", "for"):
            inner = st[1] if st[0] == "loop" else st[3]
            return {"neutral"} | ({"exit"} if any(x[0] == "return" for x in T.stmt_walk(inner)) else set())
        if st[0] in ("let", "letpat") and len(st) > 3 and isinstance(st[-2], list):
            # let .. else { diverges }
            return {"neutral", "exit"}
        return {"neutral"}
    res = outs(then)
    if bad or not res <= {"progress", "exit"}:
        return None
    return "`while %s`: every path through the body %s%s or leaves the loop; nothing else writes %s%s" % (
        T.sx_show(cond, 60), ("lowers " if down else "raises ") + T.sx_show(p), (" or removes an element of " + T.sx_show(vec)) if vec is not None else "",
        T.sx_show(p), (" or can grow " + T.sx_show(vec)) if vec is not None else "")


def _grow_loop(lp, cond, vec, bound, then, f=None):
    """`while v.len() < E`: every path through the body pushes onto v (or leaves); nothing in the body removes from v or writes E"""
    def same(a, b):
        return a[:2] == b[:2] if a[0] == "var" and b[0] == "var" else a == b

    def owner_push(callee):
        """a crate-local `fn push(&mut self, x) { self.<field>.push(x) }` on the owner of the vector field"""
        if f is None or vec[0] != "field":
            return False
        b = next((b0 for n0, b0 in f.thir.items() if n0 == callee or T.canon(n0) == callee), None)
        if b is None or len(b["params"]) != 2:
            return False
        sts0 = T.stmts(b["body"], {"__noinline__": True})
        if len(sts0) != 1 or sts0[0][0] != "expr":
            return False
        e0 = sts0[0][1]
        return e0[0] == "call" and e0[1].endswith("Vec::push") and e0[2][0][0] == "field" and e0[2][0][2] == vec[2] and e0[2][0][1][0] == "var" and e0[2][1][0] == "var"

    bad = []
    for st in T.stmt_walk(then):
        if st[0] in ("assign", "assignop"):
            tgt = st[1] if st[0] == "assign" else st[2]
            if same(tgt, vec) or (bound[0] == "var" and same(tgt, bound)):
                bad.append("write")
        for e in T.stmt_exprs(st):
            for x in T.sx_walk(e):
                if isinstance(x, tuple) and x and x[0] == "closure":
                    bad.append("closure")
                if isinstance(x, tuple) and x and x[0] == "call":
                    last = x[1].split("::")[-1]
                    for a in x[2]:
                        a0 = strip_into_iter(a) if isinstance(a, tuple) else a
                        if isinstance(a0, tuple) and a0 and a0[0] in ("var", "field") and same(a0, vec) and last not in ("len", "push", "index", "is_empty", "iter", "get", "first", "last", "deref", "as_slice", "extend_from_slice", "capacity"):
                            bad.append(last)
                        if bound[0] == "var" and isinstance(a0, tuple) and a0 and a0[0] == "var" and same(a0, bound) and last not in _P_BYVALUE:
                            bad.append(last)
                        # the owner of the vector field handed to anything but its own push method could shrink the vector
                        if vec[0] == "field" and isinstance(a0, tuple) and a0 and a0[0] == "var" and same(a0, vec[1]) and not (last == "push" and owner_push(x[1])):
                            bad.append("owner passed to " + last)
    if bad:
        return None

    def pushes(st):
        e = st[1] if st[0] == "expr" else None
        if not (isinstance(e, tuple) and e and e[0] == "call" and e[1].split("::")[-1] == "push" and e[2]):
            return False
        a0 = strip_into_iter(e[2][0])
        return same(a0, vec) or (vec[0] == "field" and same(a0, vec[1]) and owner_push(e[1]))

    def outs(stl):
        cur = {"neutral"}
        for st in stl:
            nxt = set()
            for o in cur:
                if o in ("exit", "stuck"):
                    nxt.add(o)
                    continue
                if pushes(st):
                    so = {"progress"}
                elif st[0] in ("break", "return"):
                    so = {"exit"}
                elif st[0] == "continue":
                    so = {"continue"}
                elif st[0] == "if":
                    so = outs(st[2]) | outs(st[3] or [])
                elif st[0] == "match":
                    so = set()
                    for arm in st[2]:
                        so |= outs(arm[1])
                    so = so or {"neutral"}
                elif st[0] in ("loop", "for"):
                    so = {"neutral"}
                else:
                    so = {"neutral"}
                for o2 in so:
                    if o2 == "continue":
                        nxt.add("exit" if o == "progress" else "stuck")
                    elif o2 in ("exit", "stuck"):
                        nxt.add(o2)
                    else:
                        nxt.add("progress" if "progress" in (o, o2) else "neutral")
            cur = nxt
        return cur
    if not outs(then) <= {"progress", "exit"}:
        return None
    return "`while %s`: every path through the body pushes onto %s or leaves the loop; nothing removes from it or writes the bound" % (T.sx_show(cond, 60), T.sx_show(vec))


def _loop_budget(table, found):
    """found: {fn: (file, number of while/loop statements)}.  A loop that moved into a helper of the same file is the
    same reviewed loop: per file, the reviewed number of loops is compared when the per-function comparison fails."""
    led, now = defaultdict(int), defaultdict(int)
    for fn, (n, _why) in table.items():
        led[LOOP_FILE.get(fn)] += n
    for fn, (fl, n) in found.items():
        now[fl] += n
    return led, now


def t_loops_encode(ctx):
    """T-LOOPS (encode scope): every while/loop in the encoder has a reviewed progress argument; for loops are bounded,
    except the planner's `for iteration in 0..` whose exit (every plan reports end after data.len() steps) is NOT decided."""
    r = "T-LOOPS-ENC"
    f = ctx.facts()
    g, grp, uni, total = _residue_groups(ctx)
    fns, _ = R.reachable(g, R.ENCODE_ENTRIES)
    dec, _ = R.reachable(g, R.DECODE_ENTRIES)
    obs = []
    n = 0
    found = {}
    for name, b in f.thir.items():
        cn = T.canon(name)
        if cn in fns and cn not in dec:
            k = sum(1 for s in T.stmt_walk(T.stmts(b["body"], {"__noinline__": True})) if s[0] == "loop" and not variant_loop(s, f))
            if k and not (cn.endswith("shortest_path::optimize") and k == 1):
                found[cn] = (b["span"]["file"], k)
    led, now = _loop_budget(ENC_LOOP_REVIEWED, found)
    for name, b in sorted(f.thir.items()):
        cn = T.canon(name)
        if cn not in fns or cn in dec:
            continue
        sts = T.stmts(b["body"], {"__noinline__": True})
        loops = [s for s in T.stmt_walk(sts) if s[0] == "loop"]
        for k, s in enumerate(loops):
            why = variant_loop(s, f)
            if why:
                n += 1
                obs.append(Ob(r, "variant:%s:%d" % (cn, k), True, "%s terminates - %s" % (cn.split("::")[-1], why), site=s[-1] if isinstance(s[-1], str) else None))
        loops = [s for s in loops if not variant_loop(s, f)]
        fors = [s for s in T.stmt_walk(sts) if s[0] == "for"]
        for s in fors:
            n += 1
            unb = [x for x in T.sx_walk(s[2]) if (x[0] == "adt" and x[1] == "core::ops::RangeFrom") or (x[0] == "call" and (x[1].endswith("Iterator::cycle") or x[1].endswith("iter::repeat")))]
            bounded = not unb or any(x[0] == "call" and (x[1].endswith("Iterator::zip") or x[1].endswith("Iterator::take")) for x in T.sx_walk(s[2]))
            if unb:
                und = cn.endswith("shortest_path::optimize")
                obs.append(Ob(r, "for:%s" % cn, bounded or und, "for loop in %s over %s%s" % (cn.split("::")[-1], T.sx_show(s[2], 80),
                              " - the planner's character loop: leaves by `return` when every plan reports end or none survives (NOT decided)" if und else ""), site=s[4], undecided=und))
        if loops and cn.endswith("shortest_path::optimize") and len(loops) == 1 and not any(
                x[0] == "adt" and x[1] == "core::ops::RangeFrom" for s in fors for x in T.sx_walk(s[2])):
            # the planner's character loop spelled `loop { .. iteration += 1 }` instead of `for iteration in 0..`: the same
            # loop, and the same verdict (its exit is NOT decided)
            n += 1
            obs.append(Ob(r, "for:%s" % cn, True, "the planner's character loop (spelled `loop` with an explicit counter): leaves by `return` when every plan reports end or none survives (NOT decided)",
                          site=loops[0][-1] if isinstance(loops[0][-1], str) else None, undecided=True))
            continue
        if loops:
            n += len(loops)
            allowed, reason = ENC_LOOP_REVIEWED.get(cn, (0, ""))
            fl = b["span"]["file"]
            moved = len(loops) > allowed and now[fl] <= led[fl]
            obs.append(Ob(r, "loop:" + cn, len(loops) <= allowed or moved, "%s has %d while/loop statement(s); reviewed: %d%s" % (cn.split("::")[-1], len(loops), allowed,
                          (" - " + reason) if reason else (" - within the reviewed number of loops of %s (%d <= %d): moved between functions of that file" % (fl, now[fl], led[fl]) if moved else " (no termination argument on file)")),
                          site=loops[0][-1] if isinstance(loops[0][-1], str) else None, undecided=moved))
    obs.append(Ob(r, "census", n >= 15, "%d loops of the encode scope (outside the decode scope) were classified" % n))
    return obs


def t_loops(ctx):
    r = "T-LOOPS"
    f = ctx.facts()
    g, grp, uni, total = _residue_groups(ctx)
    fns, _ = R.reachable(g, R.DECODE_ENTRIES)
    obs = []
    n_for = n_loop = 0
    found = {}
    for name, b in f.thir.items():
        cn = T.canon(name)
        if cn in fns:
            k = sum(1 for s in T.stmt_walk(T.stmts(b["body"], {"__noinline__": True})) if s[0] == "loop" and not variant_loop(s, f))
            if k:
                found[cn] = (b["span"]["file"], k)
    led, now = _loop_budget(LOOP_REVIEWED, found)
    for name, b in sorted(f.thir.items()):
        cn = T.canon(name)
        if cn not in fns:
            continue
        sts = T.stmts(b["body"], {"__noinline__": True})
        loops = [s for s in T.stmt_walk(sts) if s[0] == "loop"]
        for k, s in enumerate(loops):
            why = variant_loop(s, f)
            if why:
                n_loop += 1
                obs.append(Ob(r, "variant:%s:%d" % (cn, k), True, "%s terminates - %s" % (cn.split("::")[-1], why), site=s[-1] if isinstance(s[-1], str) else None))
        loops = [s for s in loops if not variant_loop(s, f)]
        fors = [s for s in T.stmt_walk(sts) if s[0] == "for"]
        for s in fors:
            n_for += 1
            it = s[2]
            # an unbounded driver is only acceptable when zipped with / taken from a bounded one
            unb = [x for x in T.sx_walk(it) if (x[0] == "adt" and x[1] == "core::ops::RangeFrom") or (x[0] == "call" and (x[1].endswith("Iterator::cycle") or x[1].endswith("iter::repeat") or x[1].endswith("iter::repeat_with") or x[1].endswith("iter::successors")))]
            bounded = not unb or any(x[0] == "call" and (x[1].endswith("Iterator::zip") or x[1].endswith("Iterator::take")) for x in T.sx_walk(it))
            if not bounded or unb:
                obs.append(Ob(r, "for:%s:%s" % (cn, s[4]), bounded, "for loop in %s is driven by a bounded iterator (%s)" % (cn.split("::")[-1], T.sx_show(it, 100)), site=s[4]))
        if loops:
            n_loop += len(loops)
            allowed, reason = LOOP_REVIEWED.get(cn, (0, ""))
            fl = b["span"]["file"]
            moved = len(loops) > allowed and now[fl] <= led[fl]
            ok = len(loops) <= allowed or moved
            obs.append(Ob(r, "loop:" + cn, ok, "%s has %d while/loop statement(s); reviewed: %d%s" % (cn.split("::")[-1], len(loops), allowed,
                          (" - " + reason) if reason else (" - within the reviewed number of loops of %s (%d <= %d): moved between functions of that file" % (fl, now[fl], led[fl]) if moved else " (no termination argument on file)")),
                          site=loops[0][-1] if isinstance(loops[0][-1], str) else None, undecided=moved))
            # automatic part for the reader-driven loops
            def eats_call(x):
                """Reader::eat, or a crate-local helper whose first action is to eat from the reader it is handed"""
                if not (isinstance(x, tuple) and x and x[0] == "call"):
                    return False
                if x[1].endswith("Reader::eat"):
                    return True
                hb = next((b0 for n0, b0 in f.thir.items() if T.canon(n0) == x[1]), None)
                if hb is None or not x[1].startswith("decodation::"):
                    return False
                hs = T.stmts(hb["body"], {"__noinline__": True})
                first = next((st0 for st0 in hs if st0[0] in ("let", "letpat", "expr")), None)
                return first is not None and any(isinstance(y, tuple) and y and y[0] == "call" and y[1].endswith("Reader::eat") for e0 in T.stmt_exprs(first) for y in T.sx_walk(e0))
            def min_value(x, lets, depth=4):
                """a lower bound of a usize expression built from literals, immutable locals, `opt.map_or(lit, |i| TABLE[i])` over a
                constant table - or None"""
                if depth <= 0 or not isinstance(x, tuple):
                    return None
                if x[0] == "lit" and isinstance(x[1], int):
                    return x[1]
                if x[0] == "var" and x[1] in lets:
                    return min_value(lets[x[1]], lets, depth - 1)
                if x[0] == "call" and x[1].endswith("Option::map_or") and len(x[2]) == 3 and x[2][2][0] == "closure":
                    d0 = min_value(x[2][1], lets, depth - 1)
                    cb = T.closure_body_sx(f, x[2][2][1])
                    if d0 is None or not cb:
                        return None
                    body0 = cb[1]
                    consts = [y for y in T.sx_walk(body0) if isinstance(y, tuple) and y and y[0] == "const" and isinstance(y[2] if len(y) > 2 else None, tuple)]
                    if body0[0] in ("index", "call") and len(consts) == 1 and all(isinstance(v0, int) for v0 in consts[0][2]):
                        return min([d0] + list(consts[0][2]))
                return None

            def advances_reader(st, lets):
                """`data = Reader(&data.0[k..], ..)` with k >= 1: the reader is replaced by a strictly shorter one"""
                if st[0] != "assign" or st[1][0] != "var" or st[2][0] != "adt" or not st[2][1].endswith("decodation::Reader"):
                    return False
                first = dict(st[2][3]).get("0")
                for y in T.sx_walk(first):
                    if isinstance(y, tuple) and y and y[0] == "adt" and y[1] == "core::ops::RangeFrom":
                        k0 = min_value(dict(y[3]).get("start"), lets)
                        base_ok = any(isinstance(z, tuple) and z and z[0] == "field" and z[2] == "0" and z[1][:2] == st[1][:2] for z in T.sx_walk(first))
                        return k0 is not None and k0 >= 1 and base_ok
                return False
            if cn in ("decodation::decode_x12", "decodation::decode_c40_like", "decodation::decode_edifact", "decodation::decode_ascii"):
                for k, lp in enumerate(loops):
                    body = lp[1]
                    then = body[0][2] if body and body[0][0] == "if" else body
                    cond = body[0][1] if body and body[0][0] == "if" else None
                    cond_eats = cond is not None and cond[0] == "iflet" and cond[1][0] == "call" and cond[1][1].endswith("Reader::eat")
                    progressed = cond_eats
                    lets0 = {s0[1].split("#")[0]: s0[3] for s0 in then if s0[0] == "let" and not s0[2]}
                    if any(advances_reader(s0, lets0) for s0 in then if s0[0] == "assign") and not any(
                            s0[0] in ("continue",) for s0 in T.stmt_walk(then[:next((i0 for i0, s1 in enumerate(then) if s1[0] == "assign" and advances_reader(s1, lets0)), 0)])):
                        # every iteration reaches the top-level reassignment of the reader to a strictly shorter one (or leaves before)
                        progressed = True
                    for st in then:
                        if any(eats_call(x) for e in T.stmt_exprs(st) for x in T.sx_walk(e)) and st[0] in ("let", "letpat", "expr"):
                            progressed = True
                            break
                        if st[0] == "if" and all(y[0] in ("break", "return") for y in st[2][-1:]) and not st[3]:
                            continue   # early exit before the first eat is fine
                        if st[0] == "if":
                            # an `if` that may fall through without eating: only fine if both arms eat or exit
                            def arm_ok(arm):
                                return any(y[0] in ("break", "return") for y in arm[-1:]) or any(eats_call(x) for y in T.stmt_walk(arm) for e in T.stmt_exprs(y) for x in T.sx_walk(e))
                            if arm_ok(st[2]) and (arm_ok(st[3]) if st[3] else False):
                                progressed = True
                            break
                        if st[0] not in ("let", "letpat"):
                            break
                    obs.append(Ob(r, "eats:%s:%d" % (cn, k), progressed, "loop %d of %s consumes a codeword (Reader::eat) or exits on every iteration" % (k, cn.split("::")[-1]), site=lp[-1] if isinstance(lp[-1], str) else None))
            if cn.endswith("find_inv_error_locations_levinson_durbin"):
                lp = loops[0]
                body = lp[1]
                cond = body[0][1] if body and body[0][0] == "if" else None
                okc = cond is not None and cond[0] == "bin" and cond[1] == "Lt" and is_var(cond[2], "v") and is_var(cond[3], "t")
                then = body[0][2] if okc else []
                br = [st for st in then if st[0] == "if"]
                okv = False
                if br:
                    main = br[0]
                    a1 = [st for st in T.stmt_walk(main[2]) if (st[0] == "assignop" and st[1] == "AddAssign" and is_var(st[2], "v") and st[3] == ("lit", 1))]
                    a2 = [st for st in T.stmt_walk(main[3]) if (st[0] == "assign" and is_var(st[1], "v")) or st[0] == "break"]
                    okv = len(a1) == 1 and len(a2) >= 1
                    # v = n + 1 with n = m + v
                    for st in T.stmt_walk(main[3]):
                        if st[0] == "assign" and is_var(st[1], "v"):
                            okv = okv and st[2][0] == "bin" and st[2][1] == "Add" and is_var(st[2][2], "n") and st[2][3] == ("lit", 1)
                obs.append(Ob(r, "ld-variant", okc and okv, "Levinson-Durbin: `while v < t` and every cycle passes `v += 1` or `v = n + 1` (n = m + v) or breaks"))
    obs.append(Ob(r, "census", n_for + n_loop >= 30, "%d for loops and %d while/loop statements in the decode scope were classified" % (n_for, n_loop)))
    return obs
