"""Placement rules (C07): TAB-PLC - the module tables, corner triggers, sweep skeleton, wrap rules and padding
pattern of the crate equal the reference placement program of ISO/IEC 16022 Annex F (+ the DMRE row wrap of
ISO 21471), compared after canonicalisation (polynomial normal form, integer comparison normalisation)."""
from .core import Ob, need, floor
from . import thirlib as T
from .p_rs import is_var, strip_into_iter

IT = "placement::IndexTraversal"

# ---- reference (ISO/IEC 16022:2006 Annex F.3, transcribed) ---------------------------------
# entries are (row, col) as polynomials over I (row), J (col), H (nrow), W (ncol)


def P(**kw):
    """polynomial from keyword coefficients: c=const, i,j,h,w = linear coefficients"""
    d = {}
    for k, v in kw.items():
        if v:
            d[() if k == "c" else (k.upper(),)] = v
    return d


REF_TABLES = {
    "utah": [(P(i=1, c=-2), P(j=1, c=-2)), (P(i=1, c=-2), P(j=1, c=-1)), (P(i=1, c=-1), P(j=1, c=-2)), (P(i=1, c=-1), P(j=1, c=-1)),
             (P(i=1, c=-1), P(j=1)), (P(i=1), P(j=1, c=-2)), (P(i=1), P(j=1, c=-1)), (P(i=1), P(j=1))],
    "corner1": [(P(h=1, c=-1), P()), (P(h=1, c=-1), P(c=1)), (P(h=1, c=-1), P(c=2)), (P(), P(w=1, c=-2)),
                (P(), P(w=1, c=-1)), (P(c=1), P(w=1, c=-1)), (P(c=2), P(w=1, c=-1)), (P(c=3), P(w=1, c=-1))],
    "corner2": [(P(h=1, c=-3), P()), (P(h=1, c=-2), P()), (P(h=1, c=-1), P()), (P(), P(w=1, c=-4)),
                (P(), P(w=1, c=-3)), (P(), P(w=1, c=-2)), (P(), P(w=1, c=-1)), (P(c=1), P(w=1, c=-1))],
    "corner3": [(P(h=1, c=-3), P()), (P(h=1, c=-2), P()), (P(h=1, c=-1), P()), (P(), P(w=1, c=-2)),
                (P(), P(w=1, c=-1)), (P(c=1), P(w=1, c=-1)), (P(c=2), P(w=1, c=-1)), (P(c=3), P(w=1, c=-1))],
    "corner4": [(P(h=1, c=-1), P()), (P(h=1, c=-1), P(w=1, c=-1)), (P(), P(w=1, c=-3)), (P(), P(w=1, c=-2)),
                (P(), P(w=1, c=-1)), (P(c=1), P(w=1, c=-3)), (P(c=1), P(w=1, c=-2)), (P(c=1), P(w=1, c=-1))],
}


def fz(p):
    return frozenset(p.items())


def ge0(p):
    return ("ge0", fz(p))


def eq0(p):
    # sign-normalise
    items = sorted(p.items())
    if items and items[0][1] < 0:
        p = {m: -c for m, c in p.items()}
    return ("eq0", fz(p))


def ne0(p):
    return ("ne0",) + eq0(p)[1:]


def AND(*xs):
    return ("and", frozenset(xs))


def OR(*xs):
    return ("or", frozenset(xs))


def REM(var, k):
    return "REM[%s|%d]" % (var, k)


def _sub(a, b):
    out = dict(a)
    for m, c in b.items():
        out[m] = out.get(m, 0) - c
    return {m: c for m, c in out.items() if c}


I_, J_, H_, W_ = P(i=1), P(j=1), P(h=1), P(w=1)
NOTVIS = ("notvisited", fz({("I", "W"): 1, ("J",): 1}))

REF_RUN = [
    ("init", "I", fz(P(c=4))), ("init", "J", fz(P())),
    ("loop", (
        ("if", AND(eq0(_sub(I_, H_)), eq0(J_)), "corner1"),
        ("if", AND(eq0(_sub(I_, P(h=1, c=-2))), eq0(J_), ne0({(REM("W", 4),): 1})), "corner2"),
        ("if", AND(eq0(_sub(I_, P(h=1, c=-2))), eq0(J_), eq0({(REM("W", 8),): 1, (): -4})), "corner3"),
        ("if", AND(eq0(_sub(I_, P(h=1, c=4))), eq0(_sub(J_, P(c=2))), eq0({(REM("W", 8),): 1})), "corner4"),
        ("loop", (
            ("if", AND(ge0(_sub(_sub(H_, I_), P(c=1))), ge0(J_), NOTVIS), "utah"),
            ("step", "I", -2), ("step", "J", 2),
            ("while", AND(ge0(I_), ge0(_sub(_sub(W_, J_), P(c=1))))),
        )),
        ("step", "I", 1), ("step", "J", 3),
        ("loop", (
            ("if", AND(ge0(I_), ge0(_sub(_sub(W_, J_), P(c=1))), NOTVIS), "utah"),
            ("step", "I", 2), ("step", "J", -2),
            ("while", AND(ge0(_sub(_sub(H_, I_), P(c=1))), ge0(J_))),
        )),
        ("step", "I", 3), ("step", "J", 1),
        ("while", OR(ge0(_sub(_sub(H_, I_), P(c=1))), ge0(_sub(_sub(W_, J_), P(c=1))))),
    )),
]

REF_IDX = [
    ("if", ge0(_sub(P(c=-1), I_)), (("step", "I", fz(H_)), ("step", "J", fz({(): 4, (REM("4+H", 8),): -1})))),
    ("if", ge0(_sub(P(c=-1), J_)), (("step", "J", fz(W_)), ("step", "I", fz({(): 4, (REM("4+W", 8),): -1})))),
    ("if", ge0(_sub(I_, H_)), (("step", "I", fz({("H",): -1})),)),     # ISO 21471 DMRE row wrap
    ("result", fz({("I", "W"): 1, ("J",): 1})),
]


# ---- canonicalisation of the crate's code -------------------------------------------------------

class Canon:
    def __init__(self, names):
        self.names = names    # variable base name -> atom

    def atom(self, x):
        if x[0] == "var" and x[1] in self.names:
            return self.names[x[1]]
        if x[0] == "bin" and x[1] == "Rem" and x[3][0] == "lit":
            inner = self.poly(x[2])
            return REM(self.pstr(inner), x[3][1])
        return None

    def poly(self, e):
        return T.poly(e, self.atom)

    def pstr(self, p):
        parts = []
        for m, c in sorted(p.items()):
            if m == ():
                parts.append(str(c))
            else:
                parts.append(("" if c == 1 else str(c) + "*") + "*".join(m))
        return "+".join(parts)

    def cond(self, e, neg=False):
        k = e[0]
        if k == "var" and len(e) > 2 and e[2] in getattr(self, "lets", {}):
            return self.cond(self.lets[e[2]], neg)
        if k == "un" and e[1] == "Not":
            return self.cond(e[2], not neg)
        if k == "logic":
            a, b = self.cond(e[2], neg), self.cond(e[3], neg)
            conj = (e[1] == "And") != neg
            tag = "and" if conj else "or"
            items = set()
            for x in (a, b):
                if x[0] == tag:
                    items |= x[1]
                else:
                    items.add(x)
            return (tag, frozenset(items))
        if k == "bin" and e[1] in ("Eq", "Ne", "Lt", "Le", "Gt", "Ge"):
            op = e[1]
            if neg:
                op = {"Eq": "Ne", "Ne": "Eq", "Lt": "Ge", "Ge": "Lt", "Le": "Gt", "Gt": "Le"}[op]
            l, r = self.poly(e[2]), self.poly(e[3])
            if op == "Eq":
                return eq0(_sub(l, r))
            if op == "Ne":
                return ne0(_sub(l, r))
            if op == "Lt":
                return ge0(_sub(_sub(r, l), {(): 1}))
            if op == "Le":
                return ge0(_sub(r, l))
            if op == "Gt":
                return ge0(_sub(_sub(l, r), {(): 1}))
            return ge0(_sub(l, r))
        if k == "call" and e[1].endswith("::index") and is_var(strip_into_iter(e[2][0]), "visited"):
            return ("notvisited" if neg else "visited", fz(self.poly(e[2][1])))
        if k == "lit" and isinstance(e[1], bool):
            return ("true",) if e[1] != neg else ("false",)
        return ("?", T.sx_show(e, 100), neg)


def _is_debug_assert(s):
    """`if true { if !(..) { panic } }` produced by debug_assert!"""
    return s[0] == "if" and s[1] == ("lit", True)


def _visit_target(stl):
    """a `visit!(self.X(..))` expansion: let ii = X(..); for v in ii {visited[v]=true}; visit_fn(idx, ii); idx += 1"""
    calls = [x for s in stl for e in T.stmt_exprs(s) for x in T.sx_walk(e) if x[0] == "call" and x[1].startswith(IT + "::")]
    marks = [s for s in T.stmt_walk(stl) if s[0] == "assign" and s[2] == ("lit", True) and any(is_var(y, "visited") for y in T.sx_walk(s[1]))]
    visits = [x for s in stl for e in T.stmt_exprs(s) for x in T.sx_walk(e) if x[0] == "call" and (x[1].endswith("call_mut") or x[1].endswith("Fn::call"))]
    incs = [s for s in stl if s[0] == "assignop" and s[1] == "AddAssign" and is_var(s[2], "codeword_idx") and s[3] == ("lit", 1)]
    if len(calls) == 1 and len(marks) == 1 and len(visits) == 1 and len(incs) == 1:
        args = calls[0][2][1:]
        name = calls[0][1].split("::")[-1]
        if name == "utah" and not (len(args) == 2 and is_var(args[0], "i") and is_var(args[1], "j")):
            return "utah(?)"
        return name
    return None


def _flatten_nested_ifs(stl):
    """`if A { if B { S } if C { T } }` -> `if A && B { S } if A && C { T }` when A only reads the sweep position (which the
    visit bodies S, T do not change)"""
    out = []
    for s in stl:
        if s[0] == "if" and not s[3] and s[2] and all(x[0] == "if" and not x[3] and isinstance(x[1], tuple) and x[1][0] != "iflet" for x in s[2]) \
                and isinstance(s[1], tuple) and s[1][0] != "iflet" and s[1] != ("lit", True) \
                and not any(isinstance(y, tuple) and y[0] == "var" and y[1] in ("visited", "codeword_idx") for y in T.sx_walk(s[1])) \
                and not any(st[0] in ("assign", "assignop") and st[1 if st[0] == "assign" else 2][0] == "var" and st[1 if st[0] == "assign" else 2][1] in ("i", "j")
                            for x in s[2] for st in T.stmt_walk(x[2])):
            for x in _flatten_nested_ifs(s[2]):
                out.append(("if", ("logic", "And", s[1], x[1]), x[2], [], x[4]))
        else:
            out.append(s)
    return out


def skeleton(c, stl):
    out = []
    for s in _flatten_nested_ifs(stl):
        if _is_debug_assert(s):
            continue
        if s[0] == "let" and s[2] and s[1].split("#")[0] in ("i", "j"):
            out.append(("init", s[1].split("#")[0].upper(), fz(c.poly(s[3]))))
        elif s[0] == "let":
            continue
        elif s[0] == "loop":
            out.append(("loop", tuple(skeleton(c, s[1]))))
        elif s[0] == "assignop" and s[2][0] == "var" and s[2][1] in ("i", "j"):
            p = c.poly(s[3])
            sgn = 1 if s[1] == "AddAssign" else -1 if s[1] == "SubAssign" else None
            if sgn is not None and set(p.keys()) <= {()}:
                out.append(("step", s[2][1].upper(), sgn * p.get((), 0)))
            else:
                out.append(("step?", T.sx_show(s[2]), s[1], T.sx_show(s[3])))
        elif s[0] == "if":
            brk = any(x[0] == "break" for x in s[2])
            if brk and not s[3]:
                out.append(("while", c.cond(s[1], True)))
            else:
                tgt = _visit_target(s[2])
                out.append(("if", c.cond(s[1]), tgt or "?"))
        else:
            out.append(("?", s[0], str(s[-1])[:60]))
    return out


def tab_plc(ctx):
    """TAB-PLC: the source-level comparison with the reference program (cheap, names the deviating element); whatever it cannot
    recognise - and everything in the thorough tier - is decided by folding the traversal for the mapping matrix of all 48 sizes
    against Annex F (placement_exec), and the writer / reader for all 48 sizes (_rw_exec)."""
    from .core import AnchorMissing
    r = "TAB-PLC"
    try:
        obs = _tab_plc_shape(ctx)
    except (AnchorMissing, KeyError, IndexError, TypeError) as ex:
        obs = [Ob(r, "sweep:shape", False, "the traversal's source shape is not recognised (%s)" % (str(ex)[:120],)), Ob(r, "bits:shape", False, "the writer's / reader's source shape is not recognised")]
    failed = [o for o in obs if not o.ok and not getattr(o, "info", False)]
    if not failed and ctx.tier != "thorough":
        return obs
    trav = {"sweep", "utah", "corner1", "corner2", "corner3", "corner4", "idx", "floor"}

    def cat(o):
        k = o.key.split(":")
        return k[1] if len(k) > 1 else k[0]
    ok_t, det_t = placement_exec(ctx)
    need_rw = any(cat(o) not in trav for o in failed) or ctx.tier == "thorough"
    ok_w, det_w = (None, None)
    if need_rw:
        from . import p_symbols
        allv = list(p_symbols.tables(ctx)["variants"])
        ok_w, det_w = ctx.memo("rw_scan_%d" % len(allv), lambda: list(_rw_exec(ctx, allv)))[:2]
    out = []
    for o in obs:
        if o.ok or getattr(o, "info", False):
            out.append(o)
        elif cat(o) in trav and ok_t:
            out.append(Ob(r, o.key.split(":", 1)[1], True, o.what + " (source shape not recognised; decided by folding the traversal for all 48 sizes)", site=o.site))
        elif cat(o) not in trav and ok_t and ok_w:
            out.append(Ob(r, o.key.split(":", 1)[1], True, o.what + " (source shape not recognised; decided by folding writer and reader for all 48 sizes)", site=o.site))
        else:
            out.append(o)
    out.append(Ob(r, "exec:traversal", bool(ok_t), ("cannot decide: " if ok_t is None else "") + "IndexTraversal::run folded for every size: " + str(det_t)))
    if need_rw:
        out.append(Ob(r, "exec:write-read", bool(ok_w), ("cannot decide: " if ok_w is None else "") + "writer and reader folded for every size: " + str(det_w)))
    return out


def _tab_plc_shape(ctx):
    r = "TAB-PLC"
    f = ctx.facts()
    obs = []
    # --- module tables
    for name, ref in REF_TABLES.items():
        fn = IT + "::" + name
        need(fn in f.thir, r, fn)
        b = f.thir[fn]
        lets = T.let_env(b["body"])
        e = T.sx(b["body"], lets)
        names = {"i": "I", "j": "J"}
        c = Canon(names)

        def atom(x, c=c):
            # h / w are `self.height as isize` / `self.width as isize`
            y = x
            while y[0] == "cast":
                y = y[1]
            if y[0] == "field" and is_var(y[1], "self") and y[2] in ("height", "width"):
                return "H" if y[2] == "height" else "W"
            return c.atom(x)
        rows = []
        cells = list(e[1]) if e[0] == "array" and len(e[1]) == 8 else []
        if not cells and e[0] == "call" and e[1].endswith("::map") and len(e[2]) == 2 and e[2][1][0] == "closure":
            # a constant table of offsets mapped through a closure: TABLE.map(|(a, b)| self.idx(i - a, j - b)) - expanded per entry
            tv = e[2][0]
            vals = tv[2] if tv[0] == "const" and isinstance(tv[2], (list, tuple)) else f.const(tv[1]) if tv[0] == "const" else None
            cb = f.thir.get(e[2][1][1])
            if vals and cb and len(vals) == 8 and len(cb["params"]) == 2:
                pat = cb["params"][1].get("pat") or {}
                for row in vals:
                    env2 = dict(T.let_env(cb["body"]))
                    fo = T.Folder(f)
                    try:
                        okp, binds = fo._pat_match(pat, tuple(row) if isinstance(row, (list, tuple)) else row)
                    except T.Undecidable:
                        okp, binds = False, {}
                    if not okp:
                        cells = []
                        break
                    for nme, v in binds.items():
                        env2[nme] = {"k": "Lit", "int": v, "ty": "isize", "span": cb["span"]}
                    cells.append(T.sx(cb["body"], env2))
        if len(cells) == 8:
            for cell in cells:
                if cell[0] == "call" and cell[1] == IT + "::idx" and len(cell[2]) == 3 and is_var(cell[2][0], "self"):
                    rows.append((T.poly(cell[2][1], atom), T.poly(cell[2][2], atom)))
                else:
                    rows.append(None)
        obs.append(Ob(r, "%s:shape" % name, len(rows) == 8 and all(x is not None for x in rows), "%s returns eight idx(row, col) cells" % name, site=T.span_str(b["span"]), detail=T.sx_show(e, 160)))
        for k in range(8):
            got = rows[k] if k < len(rows) else None
            ok = got is not None and got[0] == ref[k][0] and got[1] == ref[k][1]
            obs.append(Ob(r, "%s:bit%d" % (name, k + 1), ok,
                          "%s bit %d is module (%s, %s); Annex F says (%s, %s)" % (name, k + 1, c.pstr(got[0]) if got else "?", c.pstr(got[1]) if got else "?", c.pstr(ref[k][0]) or "0", c.pstr(ref[k][1]) or "0"),
                          site=T.span_str(b["span"])))
    # --- sweep skeleton
    fn = IT + "::run"
    need(fn in f.thir, r, fn)
    sts = T.stmts(f.thir[fn]["body"], {"__noinline__": True})
    lets = {s[1].split("#")[0]: s[3] for s in sts if s[0] == "let" and not s[2]}
    names = {"i": "I", "j": "J"}
    for n, e in lets.items():
        y = e
        while y[0] == "cast":
            y = y[1]
        if y[0] == "field" and is_var(y[1], "self") and y[2] == "height":
            names[n] = "H"
        if y[0] == "field" and is_var(y[1], "self") and y[2] == "width":
            names[n] = "W"
    c = Canon(names)
    c.lets = {s2[1]: s2[3] for s2 in T.stmt_walk(sts) if s2[0] == "let" and not s2[2]}
    sk = skeleton(c, sts)
    ok = sk == REF_RUN
    diff = None
    if not ok:
        diff = _first_diff(sk, REF_RUN)
    obs.append(Ob(r, "sweep", ok, "IndexTraversal::run has the start point, the four corner triggers (in order), the two diagonal sweeps, their steps and their continuation conditions of Annex F",
                  site=T.span_str(f.thir[fn]["span"]), detail=diff))
    # one obligation per element for diagnosability
    flat_got, flat_ref = _flatten(sk), _flatten(REF_RUN)
    for k, item in enumerate(flat_ref):
        g = flat_got[k] if k < len(flat_got) else None
        obs.append(Ob(r, "sweep:%02d:%s" % (k, item[0] if not isinstance(item[-1], str) else item[-1]), g == item, "sweep element %d: %s" % (k, _desc(item)), detail=None if g == item else _desc(g) if g else "missing"))
    obs.append(Ob(r, "sweep:len", len(flat_got) == len(flat_ref), "no extra statements in the sweep (%d elements, reference %d)" % (len(flat_got), len(flat_ref))))
    # --- idx wrap rule
    fn = IT + "::idx"
    need(fn in f.thir, r, fn)
    ists = T.stmts(f.thir[fn]["body"], {"__noinline__": True})
    names2 = {"i": "I", "j": "J"}
    for s in ists:
        if s[0] == "let" and not s[2]:
            y = s[3]
            while y[0] == "cast":
                y = y[1]
            if y[0] == "field" and is_var(y[1], "self"):
                names2[s[1].split("#")[0]] = "H" if y[2] == "height" else "W" if y[2] == "width" else None
    c2 = Canon({k: v for k, v in names2.items() if v})
    isk = []
    def delta(new, var):
        p = dict(c2.poly(new))
        p[(var,)] = p.get((var,), 0) - 1
        return fz({m: k for m, k in p.items() if k})
    for s in ists:
        # functional spelling: `let (i, j) = if c { (i', j') } else { (i, j) }` / `let i = if c { i' } else { i }`
        if s[0] == "letpat" and s[2] is not None and s[2][0] == "if" and [n.split("#")[0] for n in s[1]] == ["i", "j"] \
                and s[2][2][0] == "tuple" and s[2][3] is not None and s[2][3][0] == "tuple" and [x[:2] for x in s[2][3][1]] == [("var", "i"), ("var", "j")]:
            steps = [("step", v, delta(e, v)) for v, e in zip(("I", "J"), s[2][2][1])]
            isk.append(("if", c2.cond(s[2][1]), tuple(st for st in steps if st[2] != fz({}))))
            continue
        if s[0] == "let" and s[1].split("#")[0] in ("i", "j") and s[3][0] == "if" and s[3][3] is not None and s[3][3][:2] == ("var", s[1].split("#")[0]):
            v = s[1].split("#")[0].upper()
            isk.append(("if", c2.cond(s[3][1]), (("step", v, delta(s[3][2], v)),)))
            continue
        if _is_debug_assert(s) or s[0] == "let":
            continue
        if s[0] == "if":
            steps = []
            for st in s[2]:
                if st[0] == "assignop" and st[2][0] == "var" and st[2][1] in ("i", "j"):
                    p = c2.poly(st[3])
                    if st[1] == "SubAssign":
                        p = {m: -k for m, k in p.items()}
                    steps.append(("step", st[2][1].upper(), fz(p)))
                else:
                    steps.append(("?", T.sx_show(st[1]) if isinstance(st[1], tuple) else st[0]))
            isk.append(("if", c2.cond(s[1]), tuple(steps)))
        elif s[0] == "expr":
            isk.append(("result", fz(c2.poly(s[1]))))
        else:
            isk.append(("?", s[0]))
    def norm_item(x):
        return (x[0], x[1], tuple(sorted(x[2], key=repr))) if x and x[0] == "if" else x
    for k, item in enumerate(REF_IDX):
        g = norm_item(isk[k]) if k < len(isk) else None
        item = norm_item(item)
        what = ["row wrap: i < 0 -> i += h, j += 4 - (h+4)%8", "column wrap: j < 0 -> j += w, i += 4 - (w+4)%8", "DMRE row wrap: i >= h -> i -= h (ISO 21471)", "index = i*w + j"][k]
        obs.append(Ob(r, "idx:%d" % k, g == item, "idx(): " + what, site=T.span_str(f.thir[fn]["span"]), detail=None if g == item else str(g)[:300]))
    obs.append(Ob(r, "idx:len", len(isk) == len(REF_IDX), "idx() has no further adjustments"))
    # --- padding pattern
    fn = "placement::MatrixMap::<M>::write_padding"
    need(fn in f.thir, r, fn)
    psts = T.stmts(f.thir[fn]["body"], {})
    gb = [(c, blk) for c, blk in T.guarded_blocks(psts) if c[0] == "field" and c[2] == "has_padding"]
    # every store of the function lies in the block that runs exactly when has_padding is set
    all_stores = [st for st in T.stmt_walk(psts) if st[0] in ("assign", "assignop")]
    ok = len(gb) == 1 and all(any(st is x for x in T.stmt_walk(gb[0][1])) for st in all_stores)
    cells = []
    lin = []        # linear indices of stores written directly as entries[..]

    def at(x):
        if x[0] == "field" and is_var(x[1], "self") and x[2] in ("height", "width"):
            return "H" if x[2] == "height" else "W"
        return None
    if ok:
        for st in gb[0][1]:
            if st[0] == "assign" and st[2][0] == "const" and st[2][1].endswith("Bit::HIGH"):
                bm = [x for x in T.sx_walk(st[1]) if x[0] == "call" and x[1].endswith("MatrixMap::bit_mut")]
                if bm:
                    cells.append((fz(T.poly(bm[0][2][1], at)), fz(T.poly(bm[0][2][2], at))))
                else:
                    tgt = st[1]
                    ix = tgt[2] if tgt[0] == "index" else tgt[2][1] if tgt[0] == "call" and tgt[1].endswith(("::index_mut", "::index")) and len(tgt[2]) == 2 else None
                    base = tgt[1] if tgt[0] == "index" else tgt[2][0] if ix is not None else None
                    if ix is not None and any(isinstance(x, tuple) and x[0] == "field" and x[2] == "entries" for x in T.sx_walk(base)):
                        lin.append(fz(T.poly(ix, at)))
    want = {(fz(P(h=1, c=-2)), fz(P(w=1, c=-2))), (fz(P(h=1, c=-1)), fz(P(w=1, c=-1)))}
    # the same two cells as row-major linear indices: w*(h-2)+(w-2) = wh - w - 2 and w*(h-1)+(w-1) = wh - 1
    want_lin = {fz({("H", "W"): 1, ("W",): -1, (): -2}), fz({("H", "W"): 1, (): -1})}
    okc = (set(cells) == want and len(cells) == 2 and not lin) or (set(lin) == want_lin and len(lin) == 2 and not cells)
    obs.append(Ob(r, "padding", ok and okc, "the fixed corner pattern sets (h-2, w-2) and (h-1, w-1), only for sizes with padding modules", detail={"cells": len(cells), "linear": len(lin)}))
    bmf = "placement::MatrixMap::<M>::bit_mut"
    if bmf not in f.thir and lin and not cells:
        # the helper was inlined into its only user: the row-major addressing is part of the padding obligation above
        obs.append(Ob(r, "bit_mut", True, "bit_mut is inlined; the padding stores address entries[width * i + j] directly", info=True))
    else:
        need(bmf in f.thir, r, bmf)
        e = T.sx(f.thir[bmf]["body"], {})
        okb = False
        idxs = [x for x in T.sx_walk(e) if x[0] == "call" and x[1].endswith("index_mut")]
        if idxs:
            bp = [p_["pat"]["name"].split("#")[0] for p_ in f.thir[bmf]["params"][1:3] if p_.get("pat", {}).get("k") == "Bind"]

            def at2(x):
                if x[0] == "field" and is_var(x[1], "self") and x[2] == "width":
                    return "W"
                if len(bp) == 2 and is_var(x, bp[0]):
                    return "I"
                if len(bp) == 2 and is_var(x, bp[1]):
                    return "J"
                return None
            okb = T.poly(idxs[0][2][1], at2) == {("I", "W"): 1, ("J",): 1}
        obs.append(Ob(r, "bit_mut", okb, "bit_mut(i, j) addresses entries[width * i + j]"))
    # --- has_padding set (shared table) and traversal dimensions
    for fn2 in ("placement::MatrixMap::<M>::traverse", "placement::MatrixMap::<M>::traverse_mut"):
        need(fn2 in f.thir, r, fn2)
        adts = [x for s in T.stmts(f.thir[fn2]["body"], {}) for e2 in T.stmt_exprs(s) for x in T.sx_walk(e2) if x[0] == "adt" and x[1] == IT]
        ok = len(adts) == 1
        if ok:
            d = dict(adts[0][3])
            ok = d.get("width", ("x",))[0] == "field" and d["width"][2] == "width" and d["height"][2] == "height" and is_var(d["width"][1], "self") and is_var(d["height"][1], "self")
        obs.append(Ob(r, "dims:" + fn2.split("::")[-1], ok, "%s runs the traversal with the matrix's own width and height" % fn2.split("::")[-1]))
    # --- bit order
    obs += _bit_order(ctx, r)
    obs += floor(obs, r, 5 * 9 + 20 + 5 + 4, "placement obligations")
    return obs


def _bit_order(ctx, r):
    f = ctx.facts()
    obs = []
    # writer: for bit in bits.into_iter().rev() { *bit = codeword & 1 == 1; codeword >>= 1 }
    wfn = [n for n in f.thir if T.canon(n).endswith("copy_from_codewords::{closure#0}")]
    rfn = [n for n in f.thir if T.canon(n).endswith("MatrixMap::codewords::{closure#0}")]
    okw = okr = False
    if wfn:
        sts = T.stmts(f.thir[wfn[0]]["body"], {"__noinline__": True})
        loops = [s for s in sts if s[0] == "for"]
        if len(loops) == 1:
            rev = bool(T.sx_calls(loops[0][2], "Iterator::rev"))
            body = loops[0][3]
            a = [s for s in body if s[0] == "assign"]
            sh = [s for s in body if s[0] == "assignop" and s[1] == "ShrAssign" and s[3] == ("lit", 1)]
            lsb = len(a) == 1 and a[0][2][0] == "bin" and a[0][2][1] == "Eq" and a[0][2][2][0] == "bin" and a[0][2][2][1] == "BitAnd" and a[0][2][2][3] == ("lit", 1) and a[0][2][3] == ("lit", 1)
            first = [s for s in sts if s[0] == "let" and s[3][0] == "index" and is_var(s[3][1], "data") and is_var(s[3][2], "idx")]
            okw = rev and lsb and len(sh) == 1 and len(first) == 1 and body.index(a[0]) < body.index(sh[0])
            if not okw and not rev and len(a) == 1 and not sh and len(first) == 1 and len(loops[0][1]) == 2 and T.sx_calls(loops[0][2], "Iterator::enumerate"):
                # for (k, bit) in bits.into_iter().enumerate() { *bit = (codeword >> (7 - k)) & 1 == 1 }
                kv, bv = [n.split("#")[0] for n in loops[0][1]]
                e = a[0][2]
                okw = is_var(a[0][1], bv) and e[0] == "bin" and e[1] == "Eq" and e[3] == ("lit", 1) and e[2][0] == "bin" and e[2][1] == "BitAnd" and e[2][3] == ("lit", 1) \
                    and e[2][2][0] == "bin" and e[2][2][1] == "Shr" and is_var(e[2][2][2], first[0][1].split("#")[0]) \
                    and e[2][2][3] == ("bin", "Sub", ("lit", 7), e[2][2][3][3]) and is_var(e[2][2][3][3], kv)
    if rfn:
        sts = T.stmts(f.thir[rfn[0]]["body"], {"__noinline__": True})
        loops = [s for s in sts if s[0] == "for"]
        if len(loops) == 1:
            rev = bool(T.sx_calls(loops[0][2], "Iterator::rev"))
            body = loops[0][3]
            a = [s for s in body if s[0] == "assign"]
            def widened(x):
                return x[0] == "cast" or (x[0] == "call" and x[1].split("::")[-1] in ("from", "into") and len(x[2]) == 1)
            shape = len(a) == 1 and a[0][2][0] == "bin" and a[0][2][1] == "BitOr" and a[0][2][2][0] == "bin" and a[0][2][2][1] == "Shl" and a[0][2][2][3] == ("lit", 1) and widened(a[0][2][3])
            okr = (not rev) and shape
        elif not loops:
            # data[idx] = bits.iter().fold(data[idx], |codeword, bit| (codeword << 1) | (*bit as u8))
            a = [s0 for s0 in sts if s0[0] == "assign"]
            folds = [x for s0 in a for x in T.sx_calls(s0[2], "::fold")]
            if len(a) == 1 and len(folds) == 1 and folds[0][2][2][0] == "closure" and not T.sx_calls(folds[0][2][0], "Iterator::rev"):
                tgt = a[0][1]
                slot_ok = (tgt[0] == "index" or (tgt[0] == "call" and tgt[1].endswith("index_mut"))) and any(is_var(x, "data") for x in T.sx_walk(tgt)) and any(is_var(x, "idx") for x in T.sx_walk(tgt))
                cb = T.closure_body_sx(f, folds[0][2][2][1])
                if slot_ok and cb and len(cb[0]) == 2:
                    acc, bit = [n.split("#")[0] for n in cb[0]]
                    e = cb[1]
                    okr = e[0] == "bin" and e[1] == "BitOr" and e[2] == ("bin", "Shl", e[2][2], ("lit", 1)) and is_var(e[2][2], acc) and (e[3][0] == "cast" and is_var(e[3][1], bit) or (e[3][0] == "call" and e[3][1].split("::")[-1] in ("from", "into") and is_var(e[3][2][0], bit)))
    obs.append(Ob(r, "bits:write", okw, "copy_from_codewords stores codeword idx most significant bit first (bit 1 of Annex F = first of the eight modules)"))
    obs.append(Ob(r, "bits:read", okr, "codewords() reads the eight modules most significant bit first (the inverse order of the writer)"))
    return obs


def _flatten(sk, depth=0):
    out = []
    for x in sk:
        if x[0] == "loop":
            out.append(("loop-begin", depth))
            out += _flatten(x[1], depth + 1)
            out.append(("loop-end", depth))
        else:
            out.append(x)
    return out


def _desc(item):
    if item is None:
        return "None"
    if item[0] in ("loop-begin", "loop-end"):
        return item[0]
    if item[0] == "step":
        return "%s %+d" % (item[1], item[2]) if isinstance(item[2], int) else "%s += %s" % (item[1], sorted(item[2]))
    if item[0] == "init":
        return "%s = %s" % (item[1], sorted(item[2]))
    if item[0] == "if":
        return "if %s -> %s" % (_cd(item[1]), item[2])
    if item[0] == "while":
        return "continue while %s" % _cd(item[1])
    return str(item)[:200]


def _cd(c):
    if c[0] in ("and", "or"):
        return "(" + (" %s " % c[0]).join(sorted(_cd(x) for x in c[1])) + ")"
    if c[0] in ("ge0", "eq0", "ne0"):
        return "%s{%s}" % (c[0], ",".join("%s:%d" % ("*".join(m) or "1", k) for m, k in sorted(c[1])))
    return str(c)[:80]


def _first_diff(a, b):
    fa, fb = _flatten(a), _flatten(b)
    for k in range(max(len(fa), len(fb))):
        x = fa[k] if k < len(fa) else None
        y = fb[k] if k < len(fb) else None
        if x != y:
            return {"position": k, "found": _desc(x), "annex_f": _desc(y)}
    return None


# ---- TAB-PLC by folding the traversal for every mapping-matrix size ------------------------------------------------------

def annex_f(nrow, ncol, trace=None):
    """ISO/IEC 16022:2006 Annex F.3 (ECC 200 placement) with the row wrap of ISO/IEC 21471 (DMRE), written out independently:
    [[module index of bit 1 (MSB) .. bit 8] for codeword 0, 1, ..], module index = row * ncol + col"""
    arr = [0] * (nrow * ncol)
    out = []

    def module(row, col, bits):
        if row < 0:
            row += nrow
            col += 4 - ((nrow + 4) % 8)
        if col < 0:
            col += ncol
            row += 4 - ((ncol + 4) % 8)
        if row >= nrow:
            row -= nrow              # ISO/IEC 21471: rows wrap in the flat rectangular extensions
            if trace is not None:
                trace.add("row-wrap")
        arr[row * ncol + col] = 1
        bits.append(row * ncol + col)

    def place(cells):
        bits = []
        for r, c in cells:
            module(r, c, bits)
        out.append(bits)

    def utah(r, c):
        place([(r - 2, c - 2), (r - 2, c - 1), (r - 1, c - 2), (r - 1, c - 1), (r - 1, c), (r, c - 2), (r, c - 1), (r, c)])
    row, col = 4, 0
    while True:
        if row == nrow and col == 0:
            if trace is not None:
                trace.add("corner1")
            place([(nrow - 1, 0), (nrow - 1, 1), (nrow - 1, 2), (0, ncol - 2), (0, ncol - 1), (1, ncol - 1), (2, ncol - 1), (3, ncol - 1)])
        if row == nrow - 2 and col == 0 and ncol % 4 != 0:
            if trace is not None:
                trace.add("corner2")
            place([(nrow - 3, 0), (nrow - 2, 0), (nrow - 1, 0), (0, ncol - 4), (0, ncol - 3), (0, ncol - 2), (0, ncol - 1), (1, ncol - 1)])
        if row == nrow - 2 and col == 0 and ncol % 8 == 4:
            if trace is not None:
                trace.add("corner3")
            place([(nrow - 3, 0), (nrow - 2, 0), (nrow - 1, 0), (0, ncol - 2), (0, ncol - 1), (1, ncol - 1), (2, ncol - 1), (3, ncol - 1)])
        if row == nrow + 4 and col == 2 and ncol % 8 == 0:
            if trace is not None:
                trace.add("corner4")
            place([(nrow - 1, 0), (nrow - 1, ncol - 1), (0, ncol - 3), (0, ncol - 2), (0, ncol - 1), (1, ncol - 3), (1, ncol - 2), (1, ncol - 1)])
        while True:
            if row < nrow and col >= 0 and not arr[row * ncol + col]:
                utah(row, col)
            row -= 2
            col += 2
            if not (row >= 0 and col < ncol):
                break
        row += 1
        col += 3
        while True:
            if row >= 0 and col < ncol and not arr[row * ncol + col]:
                utah(row, col)
            row += 2
            col -= 2
            if not (row < nrow and col >= 0):
                break
        row += 3
        col += 1
        if not (row < nrow or col < ncol):
            break
    return out


def placement_exec(ctx, dims=None):
    """IndexTraversal::run folded for the mapping matrix of every symbol size with a recording visit function: the sequence of
    (codeword number, eight module indices) must equal Annex F's.  The traversal never looks at module values, so one run per
    size decides it for all contents.  (ok | None, detail)"""
    if dims is None:
        return tuple(ctx.memo("placement_scan", lambda: list(_placement_exec(ctx, None)))[:2])
    return _placement_exec(ctx, dims)[:2]


def placement_safe(ctx):
    """the same folds as placement_exec, judged without the standard: the traversal does not trap, numbers the codewords
    0, 1, 2, .., hands out h*w/8 groups of eight module indices, all in range and no module twice.  (ok | None, detail)"""
    return tuple(ctx.memo("placement_scan", lambda: list(_placement_exec(ctx, None)))[2:4])


def _placement_exec(ctx, dims):
    f = ctx.facts()
    fn = IT + "::run"
    b = f.thir.get(fn)
    if b is None:
        return None, "IndexTraversal::run not found", None, "IndexTraversal::run not found"
    from . import p_symbols
    t = p_symbols.tables(ctx)
    if dims is None:
        dims = []
        for v in t["variants"]:
            su = t["setup"][v]
            d = (su["height"] - 2 - 2 * su["extra_horizontal_alignments"], su["width"] - 2 - 2 * su["extra_vertical_alignments"])
            if d not in dims:
                dims.append(d)
    pn = [p_["pat"]["name"] for p_ in b["params"] if p_.get("pat", {}).get("k") == "Bind"]
    if len(pn) != 2:
        return None, "run(&self, visit_fn): unexpected parameters", None, "run(&self, visit_fn): unexpected parameters"
    adt = f.adts.get(IT)
    if not adt:
        return None, "IndexTraversal not found", None, "IndexTraversal not found"
    annex_bad = None
    fields = [x["name"] for x in adt["variants"][0]["fieldtys"]]
    total = 0
    for (h, w) in dims:
        me = {"__adt__": IT, "__variant__": "IndexTraversal"}
        for i, nm in enumerate(fields):
            val = w if nm == "width" else h if nm == "height" else T.Token(nm)
            me[nm] = val
            me["#%d" % i] = val
        seen = []

        def on_call(folder, c, seen=seen):
            cc = T.canon(T.callee_of(c))
            if cc == "HOOK::visit":
                a = [folder.fold(x) for x in c["args"]]
                seen.append((a[0], list(a[1]) if isinstance(a[1], (list, tuple)) else a[1]))
                return ()
            return NotImplemented
        fo = T.Folder(f, env={pn[0]: me, pn[1]: {"__fn__": "HOOK::visit"}}, on_call=on_call, effects=True, local_calls=3)
        fo.max_iter = 100000
        try:
            fo.run(b["body"])
        except T.Trap as ex:
            m = "%d x %d: the traversal traps: %s" % (h, w, ex)
            return False, m, False, m
        except T.Undecidable as ex:
            m = "%d x %d: the traversal does not fold (%s)" % (h, w, ex)
            return None, m, None, m
        ref = annex_f(h, w)
        if [k for k, _ in seen] != list(range(len(seen))):
            m = "%d x %d: codeword numbers are not 0, 1, 2, .. (%r ..)" % (h, w, [k for k, _ in seen][:5])
            return False, m, False, m
        got = [x for _, x in seen]
        flat = [x for g in got for x in (g if isinstance(g, list) else [g])]
        if not all(isinstance(g, list) and len(g) == 8 for g in got) or not all(isinstance(x, int) and not isinstance(x, bool) for x in flat):
            m = "%d x %d: a codeword does not get eight concrete module indices" % (h, w)
            return None, m, None, m
        if len(got) != (h * w) // 8 or any(not 0 <= x < h * w for x in flat) or len(set(flat)) != len(flat):
            dup = next((x for i, x in enumerate(flat) if x in flat[:i] or not 0 <= x < h * w), None)
            m = "%d x %d mapping matrix: %d codewords placed (%d fit); module index %r is out of range or handed out twice" % (h, w, len(got), (h * w) // 8, dup)
            return False, m, False, m
        if got != ref and annex_bad is None:
            k = next((k for k in range(min(len(got), len(ref))) if got[k] != ref[k]), min(len(got), len(ref)))
            annex_bad = "%d x %d mapping matrix: %d codewords placed (Annex F: %d); codeword %d goes to modules %r, Annex F says %r" % (
                h, w, len(got), len(ref), k, [(x // w, x % w) for x in got[k]] if k < len(got) and all(isinstance(x, int) for x in got[k]) else None,
                [(x // w, x % w) for x in ref[k]] if k < len(ref) else None)
        total += len(got)
    safe = "%d mapping-matrix sizes, %d codeword placements: numbered 0, 1, 2, .., eight modules each, every index in range, no module twice" % (len(dims), total)
    if annex_bad is not None:
        return False, annex_bad, True, safe
    return True, "%d mapping-matrix sizes, %d codeword placements equal to Annex F" % (len(dims), total), True, safe


def _rw_exec(ctx, variants):
    """MatrixMap::new_with_codewords(data, size) and MatrixMap::codewords() folded (M = bool) for the given sizes with two
    codeword vectors (a pattern and its complement): bit k (MSB first) of codeword i must land in the module Annex F assigns to
    it, the fixed corner pattern must be there for the sizes that have it, every module is accounted for, and reading returns
    the vector that was written.  (ok | None, detail, ok_rt | None, detail_rt): the second pair judges only that writing and
    reading do not trap and that reading returns what was written, wherever the bits were put."""
    f = ctx.facts()
    from . import p_symbols
    t = p_symbols.tables(ctx)
    wn = next((n for n in f.thir if T.canon(n).endswith("MatrixMap::new_with_codewords")), None)
    rn = next((n for n in f.thir if T.canon(n).endswith("MatrixMap::codewords")), None)
    if wn is None or rn is None:
        return None, "new_with_codewords / codewords not found", None, "new_with_codewords / codewords not found"
    wb, rb = f.thir[wn], f.thir[rn]
    wp = [p_["pat"]["name"] for p_ in wb["params"] if p_.get("pat", {}).get("k") == "Bind"]
    rp = [p_["pat"]["name"] for p_ in rb["params"] if p_.get("pat", {}).get("k") == "Bind"]
    if len(wp) != 2 or len(rp) != 1:
        return None, "unexpected parameters", None, "unexpected parameters"
    n = 0
    annex_bad = None

    def both(ok, m):
        return ok, m, ok, m
    for v in variants:
        su = t["setup"][v]
        h, w = su["height"] - 2 - 2 * su["extra_horizontal_alignments"], su["width"] - 2 - 2 * su["extra_vertical_alignments"]
        ref = annex_f(h, w)
        ncw = t["data"][v] + su["num_ecc_blocks"] * su["num_ecc_per_block"] if isinstance(t["data"].get(v), int) else len(ref)
        if ncw != len(ref):
            annex_bad = annex_bad or "%s: %d codewords but Annex F places %d in a %d x %d mapping matrix" % (v, ncw, len(ref), h, w)
        for flip in ((0, 255) if h * w <= 900 else (0,)):
            data = [((37 * i + 11) % 256) ^ flip for i in range(ncw)]
            fo = T.Folder(f, env={wp[0]: list(data), wp[1]: {"__adt__": "symbol_size::SymbolSize", "__variant__": v}}, effects=True, local_calls=6)
            fo.const_values = {"HIGH": True, "LOW": False}
            fo.sym_eq = lambda a_, b_: False
            fo.views = True
            fo.max_iter = 100000
            try:
                mm = fo.run(wb["body"])
            except T.Trap as ex:
                return both(False, "%s: writing traps: %s" % (v, ex))
            except T.Undecidable as ex:
                return both(None, "%s: new_with_codewords does not fold (%s)" % (v, ex))
            ent = mm.get("entries") if isinstance(mm, dict) else None
            if not (isinstance(ent, list) and len(ent) == h * w):
                return both(False, "%s: the written map has %s modules, expected %d" % (v, len(ent) if isinstance(ent, list) else None, h * w))
            ent = [x.load() if isinstance(x, T.Ref) else x for x in ent]
            if annex_bad is None and ncw == len(ref):
                annex_bad = _annex_positions(v, h, w, ref, data, ent, t["padding"].get(v))
            fo2 = T.Folder(f, env={rp[0]: mm}, effects=True, local_calls=6)
            fo2.const_values = {"HIGH": True, "LOW": False}
            fo2.sym_eq = lambda a_, b_: False
            fo2.views = True
            fo2.max_iter = 100000
            try:
                back = fo2.run(rb["body"])
            except T.Trap as ex:
                return both(False, "%s: reading traps: %s" % (v, ex))
            except T.Undecidable as ex:
                return both(None, "%s: codewords() does not fold (%s)" % (v, ex))
            back = [x.load() if isinstance(x, T.Ref) else x for x in back] if isinstance(back, list) else back
            if back != data:
                i = next((i for i in range(min(len(back), len(data))) if back[i] != data[i]), min(len(back), len(data))) if isinstance(back, list) else 0
                return both(False, "%s: reading the written matrix returns %s for codeword %d, %d was written" % (v, back[i] if isinstance(back, list) and i < len(back) else back, i, data[i] if i < len(data) else -1))
        n += 1
    rt = "%d symbol sizes: writing and reading do not trap and reading returns what was written (two complementary codeword vectors)" % n
    if annex_bad is not None:
        return False, annex_bad, True, rt
    return True, "%d symbol sizes: writing puts every codeword bit (MSB first) where Annex F says, the fixed corner is in place, reading returns what was written" % n, True, rt


def _annex_positions(v, h, w, ref, data, ent, has_padding):
    """None when the written modules `ent` are where Annex F puts the bits of `data`, else the first difference"""
    want = [None] * (h * w)
    for i, cells in enumerate(ref):
        for k, m in enumerate(cells):
            want[m] = bool((data[i] >> (7 - k)) & 1)
    rest = [m for m in range(h * w) if want[m] is None]
    if has_padding:
        corner = {(h - 2) * w + (w - 2): True, (h - 2) * w + (w - 1): False, (h - 1) * w + (w - 2): False, (h - 1) * w + (w - 1): True}
        if sorted(rest) != sorted(corner):
            return "%s: the modules no codeword covers are %r, not the lower right 2x2 corner" % (v, [(m // w, m % w) for m in rest])
        for m, val in corner.items():
            want[m] = val
    elif rest:
        return "%s: modules %r are covered by no codeword" % (v, [(m // w, m % w) for m in rest[:4]])
    if ent != want:
        m = next(m for m in range(h * w) if ent[m] != want[m])
        owner = next(((i, k) for i, cells in enumerate(ref) for k, mm2 in enumerate(cells) if mm2 == m), None)
        return "%s: module (%d, %d) is %r after writing, Annex F puts %s there (expected %r)" % (
            v, m // w, m % w, ent[m], ("bit %d (MSB = 1) of codeword %d" % (owner[1] + 1, owner[0])) if owner else "the fixed corner pattern", want[m])
    return None


def plc_rt(ctx):
    """PLC-RT: the consistency half of PLC-RW, for the round-trip property: the writer and the reader of the mapping matrix,
    folded per size, do not trap and reading returns what was written; the traversal they share is injective and in range
    (placement_safe).  Where the bits are put is not judged here (that is the placement property)."""
    return plc_rw(ctx, rt_only=True, r="PLC-RT")


def plc_rw(ctx, rt_only=False, r="PLC-RW"):
    """PLC-RW: the writer and the reader of the mapping matrix, folded per size (see _rw_exec); quick: the sizes up to a 26 x 26 /
    12 x 64-module mapping matrix (they include all four corner cases, the fixed corner pattern and the DMRE row wrap), thorough: all 48"""
    f = ctx.facts()
    from . import p_symbols
    t = p_symbols.tables(ctx)

    def area(v):
        su = t["setup"][v]
        return (su["height"] - 2 - 2 * su["extra_horizontal_alignments"]) * (su["width"] - 2 - 2 * su["extra_vertical_alignments"])
    def wraps(v):
        su = t["setup"][v]
        c = set()
        annex_f(su["height"] - 2 - 2 * su["extra_horizontal_alignments"], su["width"] - 2 - 2 * su["extra_vertical_alignments"], c)
        return "row-wrap" in c
    wrap_sizes = sorted((v for v in t["variants"] if wraps(v)), key=area)[:1]
    vs = [v for v in t["variants"] if ctx.tier == "thorough" or area(v) <= 400 or v in wrap_sizes]
    ok, det, ok_rt, det_rt = ctx.memo("rw_scan_%d" % len(vs), lambda: list(_rw_exec(ctx, vs)))
    if rt_only:
        ok_s, det_s = placement_safe(ctx)
        obs = [Ob(r, "write-read", bool(ok_rt), ("cannot decide: " if ok_rt is None else "") + str(det_rt)),
               Ob(r, "injective", bool(ok_s), ("cannot decide: " if ok_s is None else "") + "the traversal both use gives every codeword its own eight modules: " + str(det_s))]
    else:
        obs = [Ob(r, "write-read", bool(ok), ("cannot decide: " if ok is None else "") + str(det))]
    # which placement cases the folded sizes exercise (so that the quick subset is not vacuous)
    cases = set()
    for v in vs:
        su = t["setup"][v]
        annex_f(su["height"] - 2 - 2 * su["extra_horizontal_alignments"], su["width"] - 2 - 2 * su["extra_vertical_alignments"], cases)
        if t["padding"].get(v):
            cases.add("fixed-corner")
    obs.append(Ob(r, "cases", {"corner1", "corner2", "corner3", "corner4", "fixed-corner", "row-wrap"} <= cases,
                  "the folded sizes (%d) exercise all four corner cases, the fixed corner pattern and the DMRE row wrap: %s" % (len(vs), sorted(cases))))
    return obs


def plc_index(ctx):
    """PLC-INDEX: the index arithmetic of the placement (the ledger's former `placement-index` class) cannot fail for any map the
    crate constructs: IndexTraversal::run / idx / utah / corner1-4 folded for the mapping matrix of all 48 sizes evaluate every
    `visited[..]` index and every debug assertion of idx() without a trap, and hand out h*w/8 groups of eight distinct module
    indices (all < h*w) and the codeword numbers 0 .. h*w/8 - 1 (whether they are Annex F's is the placement property's question); the maps these run on have entries.len() = h*w with (h, w) a catalogue
    size (MatrixMap::new folded for every size; try_from_bits by PARSE-INV), so `entries[indices[k]]` and `data[idx]` in
    traverse / traverse_mut / codewords are in range."""
    r = "PLC-INDEX"
    from . import p_bitmap
    ok_t, det_t = placement_safe(ctx)
    ok_p, det_p = p_bitmap.parse_exec(ctx)
    if ok_p is False and str(det_p).startswith(p_bitmap.OVER):
        ok_p = True     # which pixel values are accepted does not matter for the shape of the map
    ok_n, det_n = ctx.memo("map_new_exec", lambda: list(p_bitmap._map_new_exec(ctx)))
    obs = [Ob(r, "traversal", bool(ok_t), ("cannot decide: " if ok_t is None else "") + "no index or assertion of the traversal can fail, for every size: " + str(det_t)),
           Ob(r, "maps", bool(ok_p) and bool(ok_n), "every map the crate builds has entries.len() = height * width of a catalogue size: new(): %s; try_from_bits: %s" % (det_n, det_p))]
    return obs
