"""Planner rules: SYNC, PLAN-MONO, PROV-PLAN (C18); PRUNE-EVERY, PIGEONHOLE, FANOUT (C19)."""
from .core import Ob, need, floor
from . import mirlib as M
from . import thirlib as T
from .p_modes import find_body, ET, MODES
from .p_rs import is_var, range_parts, strip_into_iter, adt_fields

OPT = "encodation::planner::shortest_path::optimize"
RHC = "encodation::planner::shortest_path::remove_hopeless_cases"


def _fn(f, suffix, rule):
    hits = [n for n in f.thir if T.canon(n).endswith(suffix)]
    need(len(hits) == 1, rule, suffix, "(found %d)" % len(hits))
    return hits[0]


def _opt_structure(f, rule):
    need(OPT in f.thir, rule, OPT)
    sts = T.stmts(f.thir[OPT]["body"], {"__noinline__": True})
    main = [s for s in sts if s[0] == "for"]
    if not main:
        # `loop { .. iteration += 1 }` with an explicit counter instead of `for iteration in 0..`: same body, presented in the
        # shape of a for statement (names, iterator, body, span)
        lps = [s for s in sts if s[0] == "loop" and any(x[0] == "call" and x[1].endswith("Vec::drain") for st in s[1] for e in T.stmt_exprs(st) for x in T.sx_walk(e))]
        main = [("for", [], ("loop",), lp[1], lp[2]) for lp in lps]
    need(len(main) == 1, rule, OPT, "(one main loop)")
    main = main[0]
    drains = [s for s in main[3] if s[0] == "for" and any(x[0] == "call" and x[1].endswith("Vec::drain") for x in T.sx_walk(s[2]))]
    need(len(drains) == 1, rule, OPT, "(one drain loop)")
    dr = drains[0]
    dcall = [x for x in T.sx_walk(dr[2]) if x[0] == "call" and x[1].endswith("Vec::drain")][0]
    pre = dcall[2][0]
    need(pre[0] == "var", rule, OPT, "(drain source is a local)")
    plan_var = dr[1][0].split("#")[0]
    return sts, main, dr, pre[1], plan_var


def sync(ctx):
    r = "SYNC"
    f = ctx.facts()
    obs = []
    sts, main, dr, pre, plan_var = _opt_structure(f, r)
    # POST list: receives push(plan) after plan.step() in the drain loop
    pushes = [st for st in T.stmt_walk(dr[3]) if st[0] == "expr" and st[1][0] == "call" and st[1][1].endswith("Vec::push") and is_var(st[1][2][1], plan_var)]
    need(len(pushes) == 1, r, OPT, "(push of the stepped plan)")
    post = pushes[0][1][2][0][1]
    obs.append(Ob(r, "roles", pre != post, "optimize: `%s` is drained and stepped (PRE), `%s` collects the stepped plans (POST)" % (pre, post), site=dr[4]))
    # the plan is stepped before it is pushed
    step_before = False
    for st in dr[3]:
        if st is pushes[0]:
            break
        if any(x[0] == "call" and x[1].endswith("Plan>::step") and is_var(x[2][0], plan_var) for e in T.stmt_exprs(st) for x in T.sx_walk(e)):
            step_before = True
        # `let result = if let Some(r) = plan.step() {..}`: step call sits inside an opaque Let condition
    if not step_before:
        raw = f.thir[OPT]["body"]
        for c in T.calls(raw):
            if T.canon(T.callee_of(c)).endswith("Plan>::step"):
                a = T.strip(c["args"][0])
                if a.get("k") == "Var" and a["name"].split("#")[0] == plan_var:
                    step_before = True
    obs.append(Ob(r, "step-then-push", step_before, "optimize: a drained plan is stepped once before it is pushed to POST"))
    # swap at the end of each iteration
    swaps = [st for st in main[3] if st[0] == "expr" and st[1][0] == "call" and st[1][1].endswith("mem::swap")]
    ok = len(swaps) == 1 and {swaps[0][1][2][0][1], swaps[0][1][2][1][1]} == {pre, post}
    obs.append(Ob(r, "swap", ok, "optimize: PRE and POST are swapped once per iteration"))
    # add_switches steps the plans it creates before pushing them
    body = find_body(f, "GenericPlan::add_switches", r)
    lpushes = [(b, t) for b, t in body.calls(lambda c, _t: T.canon(c).endswith("Vec::push"))
               if "GenericPlan" in body.local_ty((t["args"][1].get("move") or t["args"][1].get("copy") or {"l": 0})["l"])]
    steps = [(b, t) for b, t in body.calls(lambda c, _t: T.canon(c).endswith("Plan>::step"))]
    all_dom = bool(lpushes)
    for pb, _pt in lpushes:
        all_dom = all_dom and any(body.dominated_by_block(pb, sb) for sb, _st in steps)
    obs.append(Ob(r, "add_switches-steps", all_dom and len(steps) >= 6,
                  "add_switches: every plan it pushes has already been stepped once (%d pushes, %d step calls)" % (len(lpushes), len(steps))))
    # every add_switches call in optimize must therefore receive POST, with the right remaining length
    raw = f.thir[OPT]["body"]
    raw_main = None
    for m in T.exprs(raw, "Match"):
        fl = T.for_loop_parts(m)
        if fl and adt_fields(strip_into_iter(T.sx(fl[0])), "core::ops::RangeFrom"):
            raw_main = m
            break
    counter = None
    if raw_main is None and main[2] == ("loop",):
        # `let mut iteration = 0; loop { ..; iteration += 1; }`: the counter is the only variable stepped by the loop, by one,
        # as the last statement of the body, and no `continue` of the outer loop can skip it
        body_sts = main[3]
        incs = [st for st in body_sts if st[0] == "assignop" and st[1] == "AddAssign" and st[2][0] == "var" and st[3] == ("lit", 1)]
        if len(incs) == 1 and body_sts[-1] is incs[0]:
            cv = incs[0][2][1]
            others = [st for st in T.stmt_walk(body_sts) if st is not incs[0] and st[0] in ("assign", "assignop") and is_var(st[1] if st[0] == "assign" else st[2], cv)]

            def outer_continue(stl):
                for st in stl:
                    if st[0] == "continue":
                        return True
                    if st[0] == "if" and (outer_continue(st[2]) or outer_continue(st[3])):
                        return True
                    if st[0] == "match" and any(outer_continue(bd) for _p, bd, _g in st[2]):
                        return True
                    if st[0] == "letelse" and outer_continue(st[1]):
                        return True
                return False
            init = [st for st in sts if st[0] == "let" and st[2] and st[1].split("#")[0] == cv and st[3] == ("lit", 0)]
            if not others and not outer_continue(body_sts) and len(init) == 1:
                counter = cv
        for m in T.exprs(raw, "Loop"):
            if any(T.canon(T.callee_of(c)).endswith("Vec::drain") for c in T.calls(m)) and raw_main is None:
                raw_main = m
    need(raw_main is not None, r, OPT, "(main loop in THIR)")
    main_ids = {id(c) for c in T.calls(raw_main)}
    calls = []
    in_main = set()
    for c in T.calls(raw):
        if T.canon(T.callee_of(c)).endswith("GenericPlan::add_switches"):
            x = T.sx(c, {})
            calls.append((("raw", T.span_str(c["span"])), x))
            if id(c) in main_ids:
                in_main.add(id(x))
    it_var = main[1][0].split("#")[0] if main[1] else counter
    lets = {s[1].split("#")[0]: s[3] for s in main[3] if s[0] == "let"}
    n = 0
    for st, c in calls:
        n += 1
        inside = id(c) in in_main
        lst = c[2][1]
        ok_list = lst[0] == "var" and lst[1] == post
        obs.append(Ob(r, "call:%d:list" % n, ok_list,
                      "optimize: add_switches (which pushes already-stepped plans) receives POST `%s`, not the list that is still to be stepped (got `%s`)" % (post, T.sx_show(lst)),
                      site=st[-1] if isinstance(st[-1], str) else None))
        rl = c[2][2]
        if rl[0] == "var" and rl[1] in lets:
            rl = lets[rl[1]]
        def is_len_data(x):
            return x[0] == "call" and x[1].endswith("::len") and is_var(strip_into_iter(x[2][0]), "data")
        if inside:
            ok_rl = rl[0] == "bin" and rl[1] == "Sub" and is_len_data(rl[2]) and is_var(rl[3], it_var)
            what = "data.len() - iteration"
        else:
            ok_rl = is_len_data(rl)
            what = "data.len()"
        obs.append(Ob(r, "call:%d:rest_len" % n, ok_rl, "optimize: add_switches is told %s characters remain (got %s)" % (what, T.sx_show(rl)), site=st[-1] if isinstance(st[-1], str) else None))
        st_arg = c[2][3]
        if st_arg[0] == "var" and st_arg[1] in lets:
            st_arg = lets[st_arg[1]]
        if inside:
            ok_s = st_arg[0] == "bin" and st_arg[1] == "Eq" and is_var(st_arg[2], it_var) and st_arg[3] == ("lit", 0)
        else:
            ok_s = st_arg == ("lit", True)
        obs.append(Ob(r, "call:%d:as_start" % n, ok_s, "optimize: as_start is true exactly for plans created before any character was consumed", detail=T.sx_show(st_arg)))
    # main loop counts characters from 0
    rp = strip_into_iter(main[2])
    rf = adt_fields(rp, "core::ops::RangeFrom")
    obs.append(Ob(r, "iteration-from-0", (bool(rf) and rf.get("start") == ("lit", 0)) or counter is not None, "the main loop counts consumed characters from 0"))
    obs += floor(obs, r, 3 * 3 + 4, "SYNC obligations")
    return obs


def plan_mono(ctx):
    r = "PLAN-MONO"
    f = ctx.facts()
    obs = []
    body = find_body(f, "GenericPlan::add_switches", r)
    # every (x, EncodationType::V) tuple has x = rest_len
    tuples = []
    for b, blk in enumerate(body.blocks):
        for st in blk["stmts"]:
            if st["k"] == "Assign" and st["rv"]["k"] == "Aggregate" and st["rv"].get("agg") == "Tuple" and len(st["rv"]["ops"]) == 2:
                e = body.expr_of_rvalue(st["rv"])
                if e[1][1][0] == "adt" and e[1][1][1] == ET:
                    tuples.append((e, M.fmt_span(st["span"])))
    bad = [t for t in tuples if not (t[0][1][0][0] in ("arg", "var") and t[0][1][0][1] == "rest_len")]
    obs.append(Ob(r, "entry-position", not bad and len(tuples) >= 12, "add_switches: every switch entry it creates carries the position `rest_len` (%d entries)" % len(tuples), detail=[M.show(t[0]) for t in bad][:4]))
    ins = body.calls(lambda c, _t: T.canon(c).endswith("Vec::insert") or T.canon(c).endswith("Vec::swap") or T.canon(c).endswith("::reverse") or T.canon(c).endswith("sort"))
    obs.append(Ob(r, "append-only", not ins, "add_switches only appends to (or starts) the switch list", detail=[T.canon(t.get("callee", "")) for _b, t in ins]))
    # the single-entry replacement happens only under as_start
    # (vec![(rest_len, V)] sites are dominated by the true edge of `as_start`)
    sw = [(b, body.switch_on(b)) for b in range(body.n)]
    sw = [(b, s) for b, s in sw if s and s[0][0] in ("arg", "var") and s[0][1] == "as_start"]
    okv = True
    nv = 0
    for b, t in body.calls(lambda c, _t: "box_assume_init_into_vec" in c or T.canon(c).endswith("slice::into_vec") or T.canon(c).endswith("vec::from_elem")):
        if body.local_name(t["dest"]["l"]) == "switches":
            nv += 1
            okv = okv and any(body.dominated_by_edge(b, (sb, s[2])) for sb, s in sw)
    obs.append(Ob(r, "fresh-list-only-as-start", okv and nv >= 6, "add_switches replaces the history by a one-entry list only when as_start is set (%d sites)" % nv))
    # for_mode starts with (data.len(), mode)
    fm = _fn(f, "GenericPlan::for_mode", r)
    fsts = T.stmts(f.thir[fm]["body"], {})
    lits = [x for st in T.stmt_walk(fsts) for e in T.stmt_exprs(st) for x in T.sx_walk(e) if x[0] == "tuple" and len(x[1]) == 2 and is_var(x[1][1], "mode")]
    lits = sorted(set(lits), key=repr)      # a hoisted `let switches = ..` shows the literal at the let and at its (inlined) use
    ok = len(lits) == 1 and lits[0][1][0][0] == "call" and lits[0][1][0][1].endswith("::len") and is_var(strip_into_iter(lits[0][1][0][2][0]), "data")
    obs.append(Ob(r, "for_mode", ok, "for_mode starts the switch list with (data.len(), mode)", detail=[T.sx_show(x) for x in lits]))
    # optimize: terminator 0, front removal only of an initial Ascii entry
    ob = find_body(f, "planner::shortest_path::optimize", r)
    rem = ob.calls(lambda c, _t: T.canon(c).endswith("Vec::remove"))
    okr = len(rem) <= 1
    for b, t in rem:
        okr = okr and ob.expr_of_operand(t["args"][1])[:2] == ("const", 0)
    ins = ob.calls(lambda c, _t: T.canon(c).endswith("Vec::insert"))
    obs.append(Ob(r, "optimize-edits", okr and not ins, "optimize edits the chosen plan only by appending (0, mode) and dropping a leading start entry"))
    # census: nobody inserts into a switch list
    offenders = []
    for name, raw in f.mir.items():
        if not name.startswith("encodation::planner") and "planner" not in name:
            continue
        bd = M.Body(raw)
        for b, t in bd.calls(lambda c, _t: T.canon(c).endswith("Vec::insert")):
            pl = t["args"][0].get("move") or t["args"][0].get("copy")
            if pl and "EncodationType" in bd.local_ty(pl["l"]):
                offenders.append(name)
    obs.append(Ob(r, "no-insert", not offenders, "no planner function inserts into the middle of a switch list", detail=offenders))
    obs += floor(obs, r, 6, "monotonic position obligations")
    return obs


def prov_plan(ctx):
    r = "PROV-PLAN"
    f = ctx.facts()
    obs = []
    fn = "data::encodation_plan"
    need(fn in f.thir, r, fn)
    e = T.sx(f.thir[fn]["body"], {})
    ok = e[0] == "call" and e[1] == OPT and is_var(e[2][0], "data") and e[2][1] == ("lit", 0) and e[2][2][0] == "adt" and e[2][2][2] == "Ascii" \
        and is_var(e[2][3], "symbol_list") and any(is_var(x, "enabled_modes") for x in T.sx_walk(e[2][4]))
    obs.append(Ob(r, "encodation_plan", ok, "encodation_plan = optimize(data, 0, Ascii, symbol_list, enabled_modes)", site=T.span_str(f.thir[fn]["span"]), detail=T.sx_show(e)))
    cw = _fn(f, "GenericDataEncoder::codewords", r)
    sts = T.stmts(f.thir[cw]["body"], {"__noinline__": True})
    # one planning pass per request: optimize() has exactly two call sites crate-wide, neither inside a loop
    sites = []
    for name, b in f.thir.items():
        if "::tests::" in name or T.canon(name).startswith("encodation::planner::"):
            continue
        n_calls = sum(1 for c in T.calls(b["body"]) if T.canon(T.callee_of(c)) == OPT)
        if n_calls:
            in_loop = any(T.canon(T.callee_of(c)) == OPT for lp in T.walk(b["body"]) if lp.get("k") == "Loop" for c in T.calls(lp))
            sites.append((T.canon(name), n_calls, in_loop))
    want = sorted([("data::encodation_plan", 1, False), (T.canon(cw), 1, False)])
    obs.append(Ob(r, "optimize-callers", sorted(sites) == want, "planner::optimize() is called once by encodation_plan and once, outside any loop, by the encoder's codewords() - nowhere else", detail=sorted(sites)))
    oc = [(st, x) for st in T.stmt_walk(sts) for ex in T.stmt_exprs(st) for x in T.sx_calls(ex, "shortest_path::optimize")]
    ok = False
    det = None
    if len(oc) == 1:
        st, x = oc[0]
        a = x[2]
        det = T.sx_show(x, 300)
        ok = a[0][0] == "field" and a[0][2] == "data" and a[2][0] == "adt" and a[2][2] == "Ascii" and a[3][0] == "field" and a[3][2] == "symbol_list" \
            and a[4][0] == "field" and a[4][2] == "enabled_modes" and a[1][0] == "call" and a[1][1].endswith("Vec::len") and a[1][2][0][0] == "field" and a[1][2][0][2] == "codewords"
        ok = ok and st[0] == "assign" and st[1][0] == "field" and st[1][2] == "planned_switches"
    obs.append(Ob(r, "encoder-plan", ok, "the encoder stores, unmodified, optimize(self.data, self.codewords.len(), Ascii, self.symbol_list, self.enabled_modes)", detail=det))
    # consumption
    ms = _fn(f, "EncodingContext>::maybe_switch_mode", r)
    msts = T.stmts(f.thir[ms]["body"], {"__noinline__": True})
    rm = [(st, x) for st in T.stmt_walk(msts) for ex in T.stmt_exprs(st) for x in T.sx_calls(ex, "Vec::remove")]
    ok = len(rm) == 1 and rm[0][1][2][1] == ("lit", 0)
    # guarded by chars_left == planned_switches[0].0: among the branch conditions that hold whenever the remove call runs
    guard = False
    mb = M.Body(f.mir[ms]) if ms in f.mir else None
    need(mb is not None, r, ms, "(MIR body)")
    rmc = mb.calls(lambda c, _t: T.canon(c).endswith("Vec::remove"))
    det = None
    if len(rmc) == 1:
        conds = mb.conditions_at(rmc[0][0])
        det = [(M.show(c, 160), v) for c, v in conds]

        def is_pos(e):
            # self.planned_switches[0].0
            return e[0] == "field" and e[2] == "0" and any(isinstance(x, tuple) and x[0] == "field" and x[2] == "planned_switches" for x in M.walk(e)) \
                and any(isinstance(x, tuple) and x[:2] == ("const", 0) for x in M.walk(e))

        def is_left(e):
            return e[0] == "call" and T.canon(e[1]).endswith("characters_left")
        for c, v in conds:
            if c[0] == "bin" and ((c[1] == "Eq" and v) or (c[1] == "Ne" and not v)) and ((is_pos(c[2]) and is_left(c[3])) or (is_pos(c[3]) and is_left(c[2]))):
                guard = True
    # (the remove call itself is read from MIR too: it may sit inside a block expression)
    ok = len(rmc) == 1 and mb.expr_of_operand(rmc[0][1]["args"][1])[:2] == ("const", 0) and \
        any(isinstance(x, tuple) and x[0] == "field" and x[2] == "planned_switches" for x in M.walk(mb.expr_of_operand(rmc[0][1]["args"][0])))
    obs.append(Ob(r, "consume", ok and guard, "maybe_switch_mode takes the front plan entry only when chars_left equals its position", detail=det))
    obs += floor(obs, r, 3, "plan provenance obligations")
    return obs


# ---- C19 -----------------------------------------------------------------------------

def prune_every(ctx):
    r = "PRUNE-EVERY"
    f = ctx.facts()
    obs = []
    sts, main, dr, pre, plan_var = _opt_structure(f, r)
    body = main[3]
    idx_dr = body.index(dr)
    prunes = [i for i, st in enumerate(body) if st[0] == "expr" and st[1][0] == "call" and st[1][1] == RHC]
    swaps = [i for i, st in enumerate(body) if st[0] == "expr" and st[1][0] == "call" and st[1][1].endswith("mem::swap")]
    pushes = [st for st in T.stmt_walk(dr[3]) if st[0] == "expr" and st[1][0] == "call" and st[1][1].endswith("Vec::push") and is_var(st[1][2][1], plan_var)]
    post = pushes[0][1][2][0][1] if pushes else None
    ok = len(prunes) == 1 and len(swaps) == 1 and idx_dr < prunes[0] < swaps[0]
    ok = ok and body[prunes[0]][1][2][0][0] == "var" and body[prunes[0]][1][2][0][1] == post
    # nothing between the drain loop and the prune can leave the iteration
    between = body[idx_dr + 1:prunes[0]] if ok else []
    ok = ok and not any(st[0] in ("return", "break", "continue") for st in T.stmt_walk(between))
    # no `continue` in the main loop body outside the drain loop that could skip the prune
    outer_cont = [st for i, st in enumerate(body) if i != idx_dr for x in T.stmt_walk([st]) if x[0] == "continue"]
    ok = ok and not outer_cont
    obs.append(Ob(r, "unconditional", ok, "every iteration of optimize's main loop calls remove_hopeless_cases(POST) after the drain loop and before the swap, unconditionally",
                  site=body[prunes[0]][2] if prunes else main[4]))
    # MIR cross-check: no cycle through the main loop avoids the prune call
    ob = find_body(f, "planner::shortest_path::optimize", r)
    pc = ob.calls(lambda c, _t: T.canon(c) == RHC)
    okm = False
    if len(pc) == 1:
        pb = pc[0][0]
        # outermost loop = the loop containing the prune block
        loops = [(h, blocks, srcs) for h, blocks, srcs in ob.loops() if pb in blocks]
        if loops:
            h, blocks, srcs = max(loops, key=lambda x: len(x[1]))
            okm = all(s not in ob.reachable(h, removed_blocks=[pb]) or s == pb for s in srcs)
    obs.append(Ob(r, "mir-must-pass", okm, "MIR: every back edge of the main loop is reached only through the remove_hopeless_cases call"))
    return obs


def pigeonhole(ctx):
    r = "PIGEONHOLE"
    f = ctx.facts()
    obs = []
    need(RHC in f.thir, r, RHC)
    sts = T.stmts(f.thir[RHC]["body"], {"__noinline__": True})
    site = T.span_str(f.thir[RHC]["span"])
    seen = [s for s in sts if s[0] == "let" and s[3][0] == "repeat" and s[3][1] == ("lit", False)]
    need(len(seen) == 1, r, RHC, "([false; N] table)")
    sv = seen[0][1].split("#")[0]
    N = seen[0][3][2]
    obs.append(Ob(r, "table", isinstance(N, int), "remove_hopeless_cases keeps a [bool; %s] occupancy table" % N, site=site))
    loops = [s for s in sts if s[0] == "for"]
    retains = [s for s in sts if s[0] == "expr" and s[1][0] == "call" and s[1][1].endswith("Vec::retain") and is_var(strip_into_iter(s[1][2][0]), "list")
               and s[1][2][1][0] == "closure" and sts.index(s) > sts.index(seen[0])]
    if retains and (not loops or sts.index(retains[0]) < sts.index(loops[0])):
        return obs + _pigeonhole_retain(f, r, sts, retains[0], sv, N)
    wl = _pigeonhole_while(f, sts, seen[0], sv)
    if wl is not None and (not loops or sts.index(wl["loop"]) < sts.index(loops[0])):
        obs.append(Ob(r, "covers-list", wl["covers"], "the dedup loop visits every element of the list (position 0 up to list.len(), advancing only past kept elements)", detail=wl.get("cond")))
        obs.append(Ob(r, "no-skip", wl["no_skip"], "every element of the list reaches the occupancy test (no `continue`/`break`/conditional before it)"))
        obs.append(Ob(r, "remove-or-mark", wl["rm_ok"], "each element is either removed (slot already occupied; the position stays) or marks its slot occupied and the position advances, on the same index", detail=wl.get("det")))
        obs += _pigeonhole_tail(f, r, wl["idx"], N, sts[sts.index(wl["loop"]) + 1:])
        return obs + floor(obs, r, 7, "pigeonhole obligations")
    need(loops, r, RHC, "(dedup loop)")
    lp = loops[0]
    rp = range_parts(strip_into_iter(lp[2]))
    full = bool(rp) and rp[0] == ("lit", 0) and rp[1][0] == "call" and rp[1][1].endswith("Vec::len") and is_var(strip_into_iter(rp[1][2][0]), "list")
    obs.append(Ob(r, "covers-list", full, "the dedup loop visits every element of the list (0..list.len())", detail=T.sx_show(lp[2])))
    lets = {s[1].split("#")[0]: s[3] for s in lp[3] if s[0] == "let"}

    def expand(e, d=5):
        if d and e[0] == "var" and e[1] in lets:
            return expand(lets[e[1]], d - 1)
        if e[0] == "bin":
            return ("bin", e[1], expand(e[2], d - 1), expand(e[3], d - 1))
        if e[0] == "call":
            return ("call", e[1], tuple(expand(a, d - 1) for a in e[2]))
        return e
    def norm_slot(e):
        """seen[idx] in any spelling: index(seen, idx) | index_mut(seen, idx) | let slot = &mut seen[idx]; *slot"""
        e = expand(e)
        if e[0] == "index" and is_var(e[1], sv):
            return e[2]
        if e[0] == "call" and (e[1].endswith("::index") or e[1].endswith("::index_mut")) and is_var(strip_into_iter(e[2][0]), sv):
            return e[2][1]
        return None
    ifs = [s for s in lp[3] if s[0] == "if" and norm_slot(s[1]) is not None]
    ok = False
    det = None
    idx_expr = None
    if len(ifs) == 1:
        idx_expr = norm_slot(ifs[0][1])
    # nothing may skip the bookkeeping: before the occupancy test the loop body only binds locals
    before = lp[3][:lp[3].index(ifs[0])] if len(ifs) == 1 else lp[3]
    skipping = [st for st in before if st[0] not in ("let", "letpat")]
    obs.append(Ob(r, "no-skip", len(ifs) == 1 and not skipping,
                  "every element of the list reaches the occupancy test (no `continue`/`break`/conditional before it)",
                  detail=[st[0] + "@" + str(st[-1]) for st in skipping]))
    if idx_expr is not None:
        then_rm = [x for st in ifs[0][2] for e in T.stmt_exprs(st) for x in T.sx_calls(e, "Vec::remove")]
        else_set = [st for st in ifs[0][3] if st[0] == "assign" and norm_slot(st[1]) is not None and expand(norm_slot(st[1])) == expand(idx_expr) and st[2] == ("lit", True)]
        # the removed position is the examined position
        elem = expand(("var", "pl", None))
        pos_same = False
        if then_rm and elem[0] == "call" and elem[1].endswith("::index"):
            pos_same = is_var(strip_into_iter(then_rm[0][2][0]), "list") and expand(then_rm[0][2][1]) == expand(elem[2][1])
        ok = len(then_rm) == 1 and len(else_set) == 1 and pos_same
        det = {"idx": T.sx_show(expand(idx_expr)), "removed": T.sx_show(then_rm[0]) if then_rm else None}
    obs.append(Ob(r, "remove-or-mark", ok, "each element is either removed (slot already occupied) or marks its slot occupied, on the same index", detail=det))
    # idx = start_mode.index() * 6 + current.index()
    okidx = False
    if idx_expr is not None:
        e = expand(idx_expr)
        if e[0] == "bin" and e[1] == "Add" and e[2][0] == "bin" and e[2][1] == "Mul" and e[2][3] == ("lit", 6):
            a, b2 = e[2][2], e[3]
            def idx_of(x, what):
                return x[0] == "call" and x[1].endswith("EncodationType::index") and x[2][0][0] == "call" and x[2][0][1].endswith("GenericPlan::" + what)
            okidx = idx_of(a, "start_mode") and idx_of(b2, "current")
    obs += _pigeonhole_tail(f, r, None, N, sts[sts.index(lp) + 1:], okidx=okidx)
    return obs + floor(obs, r, 7, "pigeonhole obligations")


def _pigeonhole_while(f, sts, seen_st, sv):
    """the dedup pass as a position loop: `let mut pos = 0; while pos < list.len() { let slot = ..list[pos]..; if seen[slot] {
    list.remove(pos); } else { seen[slot] = true; pos += 1; } }`"""
    k0 = sts.index(seen_st)
    for k in range(k0 + 1, len(sts)):
        st = sts[k]
        if st[0] != "loop":
            continue
        body = st[1]
        if not (len(body) == 1 and body[0][0] == "if" and len(body[0][3]) == 1 and body[0][3][0][0] == "break"):
            return None
        cond, inner = body[0][1], body[0][2]
        if not (cond[0] == "bin" and cond[1] == "Lt" and cond[2][0] == "var" and cond[3][0] == "call" and cond[3][1].endswith("Vec::len")
                and is_var(strip_into_iter(cond[3][2][0]), "list")):
            return None
        pv = cond[2]
        init = [s for s in sts[:k] if s[0] == "let" and len(pv) > 2 and s[1] == pv[2]]
        written_between = [s for s in T.stmt_walk(sts[sts.index(init[0]) + 1:k]) if s[0] in ("assign", "assignop") and s[1 if s[0] == "assign" else 2] == pv] if init else [1]
        covers = bool(init) and init[0][3] == ("lit", 0) and not written_between
        lets = {s[1].split("#")[0]: s[3] for s in inner if s[0] == "let" and not s[2]}

        def expand(e, d=6):
            if not isinstance(e, tuple) or d <= 0:
                return e
            if e[0] == "var" and e[1] in lets:
                return expand(lets[e[1]], d - 1)
            if e[0] == "call":
                e1 = ("call", e[1], tuple(expand(a, d - 1) for a in e[2]))
                if e[1].endswith(("GenericPlan::start_mode", "GenericPlan::current", "EncodationType::index")):
                    return e1
                e2 = T.inline_pure_helper(f, e1, depth=1)
                return e2 if e2[0] == "call" and e2[1] == e[1] else expand(e2, d - 1)
            if e[0] in ("bin",):
                return ("bin", e[1], expand(e[2], d - 1), expand(e[3], d - 1))
            if e[0] in ("ref", "deref", "borrow") and len(e) >= 2:
                return expand(e[-1], d - 1)
            return e

        def slot_of(e):
            if e[0] == "index" and is_var(e[1], sv):
                return e[2]
            if e[0] == "call" and (e[1].endswith("::index") or e[1].endswith("::index_mut")) and is_var(strip_into_iter(e[2][0]), sv):
                return e[2][1]
            return None
        ifs = [s for s in inner if s[0] == "if" and slot_of(s[1]) is not None]
        no_skip = len(ifs) == 1 and all(s[0] in ("let", "letpat") for s in inner[:inner.index(ifs[0])]) and inner[-1] is ifs[0] if ifs else False
        rm_ok, det, idx = False, None, None
        if len(ifs) == 1:
            th, el = ifs[0][2], ifs[0][3]
            slot = slot_of(ifs[0][1])
            rms = [x for s in th for e in T.stmt_exprs(s) for x in T.sx_calls(e, "Vec::remove")]
            pos_writes_then = [s for s in T.stmt_walk(th) if s[0] in ("assign", "assignop") and s[1 if s[0] == "assign" else 2] == pv]
            marks = [s for s in el if s[0] == "assign" and slot_of(s[1]) == slot and s[2] == ("lit", True)]
            adv = [s for s in el if s[0] == "assignop" and s[1] == "AddAssign" and s[2] == pv and s[3] == ("lit", 1)]
            other_pos = [s for s in T.stmt_walk(el) if s[0] in ("assign", "assignop") and s[1 if s[0] == "assign" else 2] == pv and s not in adv]
            exits = [s for s in T.stmt_walk(inner) if s[0] in ("break", "continue", "return")]
            idx = expand(slot)
            # the examined element is list[pos]: every plan accessor in the slot expression is applied to it
            elem_ok = all(x[2][0] == ("call", x[2][0][1], (x[2][0][2][0], pv)) and x[2][0][1].endswith("::index") and is_var(strip_into_iter(x[2][0][2][0]), "list")
                          for x in T.sx_walk(idx) if isinstance(x, tuple) and x and x[0] == "call" and x[1].endswith(("GenericPlan::start_mode", "GenericPlan::current"))
                          and x[2] and isinstance(x[2][0], tuple) and x[2][0][0] == "call" and len(x[2][0][2]) == 2) and any(
                              isinstance(x, tuple) and x and x[0] == "call" and x[1].endswith("GenericPlan::start_mode") for x in T.sx_walk(idx))
            rm_ok = len(rms) == 1 and is_var(strip_into_iter(rms[0][2][0]), "list") and rms[0][2][1] == pv and not pos_writes_then and len(marks) == 1 \
                and len(adv) == 1 and not other_pos and not exits and elem_ok
            det = {"idx": T.sx_show(idx), "removed": T.sx_show(rms[0]) if rms else None, "element-is-list[pos]": elem_ok}
        return {"loop": st, "covers": covers, "cond": T.sx_show(cond), "no_skip": bool(no_skip), "rm_ok": rm_ok, "det": det, "idx": idx}
    return None


def _pigeonhole_tail(f, r, idx, N, rest_sts, okidx=None):
    obs = []
    if okidx is None:
        okidx = idx is not None and _slot_ok(idx)
    obs.append(Ob(r, "slot", okidx, "the slot is start_mode().index() * 6 + current().index()"))
    # index() is a bijection onto 0..6
    fn = "encodation::encodation_type::EncodationType::index"
    need(fn in f.thir, r, fn)
    m = T.top_match(f.thir[fn]["body"])
    rows, rest = T.enum_match_table(m, MODES)
    vals = {}
    for vs, body, arm in rows:
        for v in vs:
            try:
                vals[v] = T.Folder(f).fold(body)
            except (T.Undecidable, T.Trap) as ex:
                vals[v] = str(ex)
    okb = sorted(vals.values(), key=str) == list(range(6)) and not rest
    obs.append(Ob(r, "index-bijection", okb, "EncodationType::index() is a bijection onto 0..6 (so the slot is < 36)", detail=vals))
    obs.append(Ob(r, "bound", isinstance(N, int) and N >= 36 and okb and okidx, "at most N = %s plans survive remove_hopeless_cases; the second pass only removes" % N))
    # second pass only removes
    adds = [x for st in T.stmt_walk(rest_sts) for e in T.stmt_exprs(st) for x in T.sx_walk(e) if x[0] == "call" and (x[1].endswith("Vec::push") or x[1].endswith("Vec::insert") or x[1].endswith("Vec::extend") or x[1].endswith("Vec::append"))]
    obs.append(Ob(r, "second-pass-removes", not adds, "after the dedup loop nothing is added to the list", detail=[T.sx_show(a) for a in adds]))
    return obs


def _slot_ok(e):
    """start_mode().index() * 6 + current().index()"""
    if e[0] == "bin" and e[1] == "Add" and e[2][0] == "bin" and e[2][1] == "Mul" and e[2][3] == ("lit", 6):
        a, b2 = e[2][2], e[3]

        def idx_of(x, what):
            return x[0] == "call" and x[1].endswith("EncodationType::index") and x[2][0][0] == "call" and x[2][0][1].endswith("GenericPlan::" + what)
        return idx_of(a, "start_mode") and idx_of(b2, "current")
    return False


def _pigeonhole_retain(f, r, sts, ret, sv, N):
    """the dedup pass written as `list.retain(|pl| { let idx = slot(pl); let first = !seen[idx]; seen[idx] = true; first })`:
    retain visits every element in order; an element is kept iff its slot was free, and every visited element marks its slot"""
    obs = []
    cdef = ret[1][2][1][1]
    need(cdef in f.thir, r, cdef)
    cb = f.thir[cdef]
    csts = T.stmts(cb["body"], {"__noinline__": True})
    obs.append(Ob(r, "covers-list", True, "the dedup pass is Vec::retain over the whole list (visits every element once, in order)", site=ret[2]))
    lets = {s[1].split("#")[0]: s[3] for s in csts if s[0] == "let" and not s[2]}

    def expand(e, d=5):
        if d and e[0] == "var" and e[1] in lets:
            return expand(lets[e[1]], d - 1)
        if e[0] in ("bin",):
            return ("bin", e[1], expand(e[2], d - 1), expand(e[3], d - 1))
        if e[0] == "un":
            return ("un", e[1], expand(e[2], d - 1))
        if e[0] == "call":
            return ("call", e[1], tuple(expand(a, d - 1) for a in e[2]))
        if e[0] == "index":
            return ("index", expand(e[1], d - 1), expand(e[2], d - 1))
        return e

    def slot_of(e):
        e = expand(e)
        if e[0] == "index" and is_var(e[1], sv):
            return e[2]
        if e[0] == "call" and (e[1].endswith("::index") or e[1].endswith("::index_mut")) and is_var(strip_into_iter(e[2][0]), sv):
            return e[2][1]
        return None
    marks = [(k, st) for k, st in enumerate(csts) if st[0] == "assign" and slot_of(st[1]) is not None]
    nested_marks = [st for st in T.stmt_walk(csts) if st[0] in ("assign", "assignop") and slot_of(st[1] if st[0] == "assign" else st[2]) is not None]
    early = [st for st in T.stmt_walk(csts) if st[0] in ("return", "break", "continue")]
    tail = csts[-1] if csts else None
    ok = False
    det = None
    idx_expr = None
    # form 1: straight line - the result is `!seen[idx]` read before the unconditional `seen[idx] = true`
    if len(marks) == 1 and len(nested_marks) == 1 and marks[0][1][2] == ("lit", True) and not early and tail is not None and tail[0] == "expr":
        idx_expr = slot_of(marks[0][1][1])
        res = tail[1]
        read_pos = None
        neg = False
        # peel `!` and follow immutable locals back to the read of the occupancy slot; the read must precede the mark
        for _ in range(4):
            if res[0] == "un" and res[1] == "Not":
                neg = not neg
                res = res[2]
            elif res[0] == "var":
                hit = [(k, st) for k, st in enumerate(csts) if st[0] == "let" and not st[2] and st[1].split("#")[0] == res[1]]
                if len(hit) != 1:
                    break
                read_pos, res = hit[0][0], hit[0][1][3]
            else:
                break
        if neg and slot_of(res) is not None and expand(slot_of(res)) == expand(idx_expr) and read_pos is not None and read_pos < marks[0][0]:
            ok = True
        det = {"idx": T.sx_show(expand(idx_expr)), "result": T.sx_show(res)}
    # form 3: the result is `!mem::replace(&mut seen[idx], true)` - read and mark in one step
    if not ok and tail is not None and tail[0] == "expr" and not early and not marks and not nested_marks:
        res = tail[1]
        if res[0] == "un" and res[1] == "Not" and res[2][0] == "call" and res[2][1] == "core::mem::replace" and len(res[2][2]) == 2 \
                and slot_of(res[2][2][0]) is not None and res[2][2][1] == ("lit", True):
            idx_expr = slot_of(res[2][2][0])
            others = [x for st in csts[:-1] for e in T.stmt_exprs(st) for x in T.sx_walk(e) if isinstance(x, tuple) and x and x[0] == "call" and x[1] == "core::mem::replace"]
            ok = not others
            det = {"idx": T.sx_show(expand(idx_expr)), "form": "mem::replace"}
    # form 2: `if seen[idx] { false } else { seen[idx] = true; true }`
    if not ok and tail is not None and tail[0] == "if" and isinstance(tail[1], tuple) and slot_of(tail[1]) is not None and not early:
        idx_expr = slot_of(tail[1])
        th, el = tail[2], tail[3]
        ok = len(th) == 1 and th[0][0] == "expr" and th[0][1] == ("lit", False) and len(el) == 2 and el[0][0] == "assign" and slot_of(el[0][1]) is not None \
            and expand(slot_of(el[0][1])) == expand(idx_expr) and el[0][2] == ("lit", True) and el[1][0] == "expr" and el[1][1] == ("lit", True) and len(nested_marks) == 1
        det = {"idx": T.sx_show(expand(idx_expr)), "form": "if"}
    obs.append(Ob(r, "no-skip", not early, "every element reaches the occupancy test (the closure has no early exit)"))
    obs.append(Ob(r, "remove-or-mark", ok, "each element is either dropped (slot already occupied) or kept and marks its slot occupied, on the same index", detail=det))
    okidx = idx_expr is not None and _slot_ok(expand(idx_expr))
    obs.append(Ob(r, "slot", okidx, "the slot is start_mode().index() * 6 + current().index()"))
    fn = "encodation::encodation_type::EncodationType::index"
    need(fn in f.thir, r, fn)
    m = T.top_match(f.thir[fn]["body"])
    rows, rest = T.enum_match_table(m, MODES)
    vals = {}
    for vs, body, arm in rows:
        for v in vs:
            try:
                vals[v] = T.Folder(f).fold(body)
            except (T.Undecidable, T.Trap) as ex:
                vals[v] = str(ex)
    okb = sorted(vals.values(), key=str) == list(range(6)) and not rest
    obs.append(Ob(r, "index-bijection", okb, "EncodationType::index() is a bijection onto 0..6 (so the slot is < 36)", detail=vals))
    obs.append(Ob(r, "bound", isinstance(N, int) and N >= 36 and okb and okidx, "at most N = %s plans survive remove_hopeless_cases; the second pass only removes" % N))
    rest_sts = sts[sts.index(ret) + 1:]
    adds = [x for st in T.stmt_walk(rest_sts) for e in T.stmt_exprs(st) for x in T.sx_walk(e) if x[0] == "call" and (x[1].endswith("Vec::push") or x[1].endswith("Vec::insert") or x[1].endswith("Vec::extend") or x[1].endswith("Vec::append"))]
    obs.append(Ob(r, "second-pass-removes", not adds, "after the dedup pass nothing is added to the list", detail=[T.sx_show(a) for a in adds]))
    obs += floor(obs, r, 7, "pigeonhole obligations")
    return obs


def fanout(ctx):
    r = "FANOUT"
    f = ctx.facts()
    obs = []
    body = find_body(f, "GenericPlan::add_switches", r)
    loops = body.loops()
    lpushes = [(b, t) for b, t in body.calls(lambda c, _t: T.canon(c).endswith("Vec::push"))
               if "GenericPlan" in body.local_ty((t["args"][1].get("move") or t["args"][1].get("copy") or {"l": 0})["l"])]
    rec = body.calls(lambda c, _t: T.canon(c).endswith("GenericPlan::add_switches"))
    obs.append(Ob(r, "add_switches-no-loop", not loops and not rec, "add_switches contains no loop and no recursion", detail=len(loops)))
    obs.append(Ob(r, "add_switches-pushes", 1 <= len(lpushes) <= 6, "add_switches pushes at most 6 plans (%d push sites)" % len(lpushes)))
    sts, main, dr, pre, plan_var = _opt_structure(f, r)
    pushes = [st for st in T.stmt_walk(dr[3]) for e in T.stmt_exprs(st) for x in T.sx_calls(e, "Vec::push")]
    adds = [st for st in T.stmt_walk(dr[3]) for e in T.stmt_exprs(st) for x in T.sx_calls(e, "GenericPlan::add_switches")]
    raw_adds = [c for c in T.calls(f.thir[OPT]["body"]) if T.canon(T.callee_of(c)).endswith("GenericPlan::add_switches")]
    inner_loops = [st for st in T.stmt_walk(dr[3]) if st[0] in ("for", "loop")]
    obs.append(Ob(r, "drain-body", len(pushes) <= 1 and len(raw_adds) <= 3 and not inner_loops,
                  "per drained plan: at most one push, at most two add_switches calls (exclusive branches), no inner loop", detail={"pushes": len(pushes), "add_switches_calls_total": len(raw_adds)}))
    # other places that add plans in the main loop: none
    others = [st for i, st in enumerate(main[3]) if st is not dr for x in T.stmt_walk([st]) for e in T.stmt_exprs(x) for y in T.sx_walk(e)
              if y[0] == "call" and (y[1].endswith("Vec::push") or y[1].endswith("add_switches")) and not any(z[0] == "field" and z[2] == "switches" for z in T.sx_walk(y))]
    obs.append(Ob(r, "no-other-growth", not others, "outside the drain loop the main loop adds no plans"))
    obs.append(Ob(r, "step-cost-note", True, "look-ahead scans inside AsciiPlan::step / unbeatable_strike are guarded by counters (listed, not decided)", info=True))
    return obs


def cost_write(ctx):
    """COST-WRITE: in the integer-priced planner modes (ASCII single characters, Base256) every whole codeword added
    to a plan's price is also added to its symbol-fill counter (`ctx.write`) in the same straight-line block, so the
    end-of-data rules of later modes are judged against the right fill level."""
    r = "COST-WRITE"
    f = ctx.facts()
    obs = []

    def lits(e, suffix, argi):
        out = []
        for x in T.sx_walk(e):
            if isinstance(x, tuple) and x[0] == "call" and x[1].endswith(suffix) and len(x[2]) > argi and x[2][argi][0] == "lit" and isinstance(x[2][argi][1], int):
                out.append(x[2][argi][1])
        return out

    def check_blocks(fn_suffix, label):
        name = _fn(f, fn_suffix, r)
        sts = T.stmts(f.thir[name]["body"], {"__noinline__": True})
        lv = T.let_values(sts)
        n = [0]

        def term(x):
            # whole-codeword amounts: integer literals, or a local (through casts / conversions) that both sides use
            while isinstance(x, tuple) and (x[0] == "cast" or (x[0] == "call" and x[1].split("::")[-1] in ("from", "into") and len(x[2]) == 1)):
                x = x[1] if x[0] == "cast" else x[2][0]
            return x

        def visit(stl):
            costs, writes = [], []
            for s in stl:
                if s[0] == "expr":
                    e = s[1]
                    if e[0] == "call" and e[1].endswith("::add_assign") and e[2][0][0] == "field" and e[2][0][2] == "cost":
                        t = term(e[2][1])
                        if t[0] in ("lit", "var"):
                            costs.append(t)
                    if e[0] == "call" and e[1].endswith("ContextInformation::write"):
                        t = term(e[2][1])
                        if t[0] in ("lit", "var"):
                            writes.append(t)
                elif s[0] == "if":
                    visit(s[2])
                    visit(s[3])
                elif s[0] in ("for", "loop"):
                    visit(s[3] if s[0] == "for" else s[1])
            if costs or writes:
                n[0] += 1

                def resolve(t):
                    # a local whose value is a literal counts as that literal; one bound to a computed amount is treated like a
                    # computed amount written in place (not a whole-codeword constant: outside this rule) unless both sides use it
                    if t[0] == "var":
                        v = term(T.look_through(t, lv))
                        if v[0] == "lit":
                            return v
                    return t
                cs, ws = [resolve(t) for t in costs], [resolve(t) for t in writes]
                both = {t[1] for t in cs if t[0] == "var"} & {t[1] for t in ws if t[0] == "var"}

                def norm(ts):
                    return (sum(t[1] for t in ts if t[0] == "lit" and isinstance(t[1], int)), sorted(t[1] for t in ts if t[0] == "var" and t[1] in both))
                costs, writes = cs, ws
                obs.append(Ob(r, "%s:block%d" % (label, n[0]), norm(costs) == norm(writes), "%s: a block prices %s whole codeword(s) and books %s into the symbol-fill counter" % (label, norm(costs), norm(writes)),
                              site=stl[0][-1] if stl and isinstance(stl[0][-1], str) else None))
        visit(sts)
        return n[0]
    k1 = check_blocks("Base256Plan<T> as encodation::planner::Plan>::step", "Base256Plan::step")
    k2 = check_blocks("AsciiPlan<T> as encodation::planner::Plan>::step", "AsciiPlan::step")
    # Base256Plan::with_written: the initial price (length byte) is booked too
    name = _fn(f, "Base256Plan::with_written", r)
    raw = f.thir[name]["body"]
    ifs = [x for x in T.exprs(raw, "If")]
    ok = False
    det = None
    if ifs:
        x = ifs[0]

        def branch(b):
            b = T.strip(b) if b["k"] != "Block" else b
            if b["k"] == "Block":
                w = sum(c["args"][1].get("int", 0) for c in T.calls(b) if T.canon(T.callee_of(c)).endswith("ContextInformation::write") and T.strip(c["args"][1]).get("k") == "Lit")
                v = T.strip(b["expr"]).get("int") if "expr" in b else None
                return v, w
            return b.get("int"), 0
        tv, tw = branch(x["then"])
        ev, ew = branch(x["else"]) if "else" in x else (None, 0)
        det = {"then": (tv, tw), "else": (ev, ew)}
        ok = tv is not None and ev is not None and tv == tw and ev == ew
    # primary: fold the constructor for written in {0, 1, 2, 250}: the price it starts with must equal what it books
    try:
        b = f.thir[name]
        pn = [p_["pat"]["name"] for p_ in b["params"] if p_.get("pat", {}).get("k") == "Bind"]
        if len(pn) == 2:
            rows = []
            for wr in (0, 1, 2, 250):
                booked = []

                def on_call(folder, c, booked=booked):
                    cc = T.canon(T.callee_of(c))
                    last = cc.split("::")[-1]
                    if cc.endswith("ContextInformation::write"):
                        booked.append(folder.fold(c["args"][1]))
                        return ()
                    if last in ("into", "from") and len(c["args"]) == 1:
                        v = folder.fold(c["args"][0])
                        if isinstance(v, bool):
                            return int(v)
                        if isinstance(v, int):
                            return v
                    return NotImplemented
                fo = T.Folder(f, env={pn[0]: T.Token("ctx"), pn[1]: wr}, on_call=on_call, effects=True, local_calls=0)
                res = fo.run(b["body"])
                cost = res.get("cost") if isinstance(res, dict) else None
                rows.append((wr, cost, sum(booked) if all(isinstance(x, int) for x in booked) else None, res.get("written") if isinstance(res, dict) else None))
            if all(isinstance(c, int) and not isinstance(c, bool) and k is not None for _w, c, k, _x in rows):
                ok = all(c == k for _w, c, k, _x in rows) and rows[0][1] == 1 and all(c == 0 for _w, c, _k, _x in rows[1:]) and all(w == x for w, _c, _k, x in rows)
                det = {"(written, price, booked, stored written)": rows}
    except (T.Undecidable, T.Trap, KeyError, IndexError, TypeError, AttributeError):
        pass
    obs.append(Ob(r, "Base256Plan::with_written", ok, "a new Base256 run prices its length codeword and books it into the symbol-fill counter", detail=det))
    # the second length codeword: mode_switch_cost adds 1 <-> write_unlatch books 1 (thresholds compared by B256-SYNC)
    wu = _fn(f, "Base256Plan<T> as encodation::planner::Plan>::write_unlatch", r)
    wsts = T.stmts(f.thir[wu]["body"], {"__noinline__": True})
    w = [x for st in T.stmt_walk(wsts) for e in T.stmt_exprs(st) for x in T.sx_calls(e, "ContextInformation::write")]
    obs.append(Ob(r, "Base256Plan::write_unlatch", len(w) == 1 and w[0][2][1] == ("lit", 1), "leaving a long Base256 run books the second length codeword (1) into the symbol-fill counter"))
    obs += floor(obs, r, 4, "cost/write pairs")
    return obs


def val_size(ctx):
    """VAL-SIZE / PRICE-CONST: what the planner charges per character equals what the encoder tables emit."""
    r = "VAL-SIZE"
    f = ctx.facts()
    from . import p_codec
    obs = []
    c40low, _ = p_codec.enc_c40_low_table(f, r)
    textlow, _ = p_codec.enc_text_low_table(f, r, c40low)
    enc = {"c40": p_codec.enc_to_vals_table(f, r, c40low)[0], "text": p_codec.enc_to_vals_table(f, r, textlow)[0]}
    for mode in ("c40", "text"):
        fn = "encodation::%s::val_size" % mode
        need(fn in f.thir, r, fn)
        b = f.thir[fn]
        chp = b["params"][0]["pat"]["name"]

        def fold_vs(ch, depth=0):
            def on_call(folder, c):
                if T.canon(T.callee_of(c)) == fn and depth < 3:
                    return fold_vs(folder.fold(c["args"][0]), depth + 1)
                return NotImplemented
            return T.Folder(f, env={chp: ch}, on_call=on_call, effects=True).run(b["body"])
        bad = None
        for ch in range(256):
            try:
                v = fold_vs(ch)
            except (T.Trap, T.Undecidable) as ex:
                v = str(ex)
            want = len(enc[mode][ch]) if isinstance(enc[mode].get(ch), list) else None
            if v != want and bad is None:
                bad = "byte 0x%02X: planner charges %r values, the encoder emits %r" % (ch, v, want)
        obs.append(Ob(r, "%s:val_size" % mode, bad is None, "%s::val_size equals the number of values the encoder's tables emit, for all 256 bytes%s" % (mode, "" if not bad else ": " + bad), site=T.span_str(b["span"])))
        base = p_codec.pred_table(f, "encodation::%s::in_base_set" % mode, r)
        badb = [ch for ch in range(256) if base.get(ch) != (isinstance(enc[mode].get(ch), list) and len(enc[mode][ch]) == 1)]
        obs.append(Ob(r, "%s:in_base_set" % mode, not badb, "%s::in_base_set holds exactly for the bytes encoded as a single value" % mode, detail=badb[:6]))
    # planner charset adapters delegate to these tables
    for impl, target in (("C40Charset", "c40"), ("TextCharset", "text")):
        for m in ("val_size", "in_base_set"):
            name = [n for n in f.thir if impl in n and n.endswith("CharsetInfo>::" + m)]
            ok = False
            if len(name) == 1:
                e = T.sx(f.thir[name[0]]["body"], {})
                ok = e[0] == "call" and e[1] == "encodation::%s::%s" % (target, m) and is_var(e[2][0], "ch")
            obs.append(Ob(r, "%s::%s" % (impl, m), ok, "planner %s::%s delegates to encodation::%s::%s" % (impl, m, target, m)))
    # per-character prices vs packing ratios
    def frac_lits(suffix):
        name = [n for n in f.thir if T.canon(n).endswith(suffix)]
        need(len(name) == 1, r, suffix)
        out = []
        for c in T.calls(f.thir[name[0]]["body"]):
            if T.canon(T.callee_of(c)).endswith("frac::Frac::new"):
                a = [T.strip(x) for x in c["args"]]
                if all(x.get("k") == "Lit" and "int" in x for x in a):
                    out.append((a[0]["int"], a[1]["int"]))
        return out
    obs.append(Ob(r, "price:edifact", (3, 4) in frac_lits("EdifactPlan<T> as encodation::planner::Plan>::step"), "EDIFACT is priced 3/4 codeword per character (4 values in 3 codewords: TAB-CODEC edifact-pack)"))
    obs.append(Ob(r, "price:x12", (2, 3) in frac_lits("X12Plan<T> as encodation::planner::Plan>::step"), "X12 is priced 2/3 codeword per character (3 values in 2 codewords: TAB-SETS pack3)"))
    obs.append(Ob(r, "price:ascii-digit", (1, 2) in frac_lits("AsciiPlan<T> as encodation::planner::Plan>::step"), "an ASCII digit inside a pair is priced 1/2 codeword"))
    # C40/Text: cost = 2 * values / 3
    name = [n for n in f.thir if T.canon(n).endswith("C40LikePlan<T, U> as encodation::planner::Plan>::cost")]
    ok = False
    if len(name) == 1:
        for c in T.calls(f.thir[name[0]]["body"]):
            if T.canon(T.callee_of(c)).endswith("frac::Frac::new"):
                a0, a1 = T.sx(c["args"][0]), T.sx(c["args"][1])
                if a1 == ("lit", 3) and a0[0] == "bin" and a0[1] == "Mul" and ("lit", 2) in (a0[2], a0[3]):
                    ok = True
    obs.append(Ob(r, "price:c40", ok, "C40/Text price pending values at 2/3 codeword each"))
    obs += floor(obs, r, 4 + 4 + 4, "planner/encoder table agreements")
    return obs
