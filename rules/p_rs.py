"""Reed-Solomon rules: TAB-GEN, TAB-GF, GF-OPS, PROV-RSENC, UNIFORM (C06);
PROV-RSDEC, GATHER-SCATTER (C03); SYNZERO (C09)."""
from .core import Ob, need, floor
from . import thirlib as T
from . import gf
from . import p_symbols

ENC = "errorcode::encode_error"
ECCB = "errorcode::ecc_block"
GEN = "errorcode::generator"
DEC = "errorcode::decoding::syndrome_based::decode"
DGEN = "errorcode::decoding::syndrome_based::decode_gen"
SS = "symbol_size::SymbolSize"


def is_var(x, base):
    return isinstance(x, tuple) and x[:2] == ("var", base)


def is_setup_field(x, field, size_var="size"):
    """block_setup(size).<field>"""
    return (isinstance(x, tuple) and x[0] == "field" and x[2] == field and x[1][0] == "call"
            and x[1][1] == SS + "::block_setup" and is_var(x[1][2][0], size_var))


def is_num_data(x, size_var="size"):
    return isinstance(x, tuple) and x[0] == "call" and x[1] == SS + "::num_data_codewords" and is_var(x[2][0], size_var)


def range_parts(x):
    if isinstance(x, tuple) and x[0] == "adt" and x[1] == "core::ops::Range":
        d = dict(x[3])
        return d.get("start"), d.get("end")
    return None


def adt_fields(x, path):
    if isinstance(x, tuple) and x[0] == "adt" and x[1] == path:
        return dict(x[3])
    return None


def strip_into_iter(x):
    while isinstance(x, tuple) and x[0] == "call" and (x[1].endswith("into_iter") or x[1].endswith("Iterator::copied")
                                                      or x[1].endswith("Iterator::cloned") or x[1].endswith("::deref") or x[1].endswith("::deref_mut")):
        x = x[2][0]
    return x


def tab_gen(ctx):
    r = "TAB-GEN"
    f = ctx.facts()
    polys = f.const("errorcode::GENERATOR_POLYNOMIALS")
    need(polys is not None, r, "errorcode::GENERATOR_POLYNOMIALS")
    obs = []
    ref = p_symbols.reference()
    degrees_needed = sorted({row["ecc_per_block"] for row in ref})
    by_deg = {}
    for i, p in enumerate(polys):
        k = len(p) - 1
        want = gf.generator(k) if k >= 1 else None
        by_deg.setdefault(k, []).append(i)
        bad = [j for j in range(len(p)) if want is None or p[j] != want[j]]
        obs.append(Ob(r, "poly:%d" % k, not bad,
                      "GENERATOR_POLYNOMIALS[%d] (degree %d) equals prod_{i=1..%d}(x - 2^i) over GF(256)/0x12D%s" % (
                          i, k, k, "" if not bad else "; first wrong coefficient index %d: table %d, expected %d" % (bad[0], p[bad[0]], want[bad[0]] if want else -1)),
                      site="src/errorcode/mod.rs (GENERATOR_POLYNOMIALS entry %d)" % i))
    for k in degrees_needed:
        obs.append(Ob(r, "degree:%d" % k, len(by_deg.get(k, [])) == 1,
                      "exactly one generator polynomial of degree %d (needed by a symbol size of the standard)" % k,
                      detail=by_deg.get(k)))
    # generator(len) selects by degree
    b = f.thir.get(GEN)
    need(b, r, GEN)
    e = T.sx(b["body"], T.let_env(b["body"]))
    finds = T.sx_calls(e, "::find")
    ok = False
    det = T.sx_show(e)
    if finds and any(x[0] == "const" and x[1] == "errorcode::GENERATOR_POLYNOMIALS" for x in T.sx_walk(finds[0][2][0])) \
            and finds[0][2][1][0] == "closure" and not T.sx_calls(e, "::skip") and not T.sx_calls(e, "::rev"):
        cb = f.thir.get(finds[0][2][1][1])
        need(cb, r, finds[0][2][1][1])
        pname = cb["params"][1]["pat"]["name"] if len(cb["params"]) > 1 else None
        lenname = None
        for n in T.exprs(cb["body"], "Upvar"):
            lenname = n["name"]

        def on_call(folder, c):
            if T.canon(T.callee_of(c)).endswith("::len"):
                return len(folder.fold(c["args"][0]))
            return NotImplemented
        ok = pname is not None and lenname is not None
        if ok:
            for L in range(1, 72):
                for n in range(0, 72):
                    try:
                        v = T.Folder(f, env={pname: [0] * L, lenname: n}, on_call=on_call).fold(cb["body"])
                    except T.Trap:
                        v = None  # p.len()-1 on an empty slice cannot happen for L>=1
                    except T.Undecidable as ex:
                        ok = False
                        det = "closure not foldable: %s" % ex
                        break
                    if bool(v) != (L - 1 == n):
                        ok = False
                        det = "predicate(len(p)=%d, len=%d) = %r" % (L, n, v)
                        break
                if not ok:
                    break
    obs.append(Ob(r, "generator-select", ok, "generator(len) returns the table entry with p.len() - 1 == len", site=T.span_str(b["span"]), detail=det))
    obs += floor(obs, r, 25 + 25 + 1, "generator obligations")
    return obs


def tab_gf(ctx):
    r = "TAB-GF"
    f = ctx.facts()
    alog = f.const("errorcode::galois::ANTI_LOG")
    log = f.const("errorcode::galois::LOG")
    need(alog is not None, r, "errorcode::galois::ANTI_LOG")
    need(log is not None, r, "errorcode::galois::LOG")
    obs = []
    obs.append(Ob(r, "alog-len", len(alog) == 255, "ANTI_LOG has 255 entries"))
    obs.append(Ob(r, "log-len", len(log) == 256, "LOG has 256 entries"))
    p = 1
    for i in range(min(255, len(alog))):
        obs.append(Ob(r, "alog:%d" % i, alog[i] == p, "ANTI_LOG[%d] = %d, 2^%d over 0x12D is %d" % (i, alog[i], i, p)))
        if len(log) == 256:
            obs.append(Ob(r, "log:%d" % p, log[p] == i, "LOG[%d] = %d, discrete log is %d" % (p, log[p], i)))
        p = gf.mul(p, 2)
    obs += floor(obs, r, 2 + 255 + 255, "GF table obligations")
    return obs


GFT = "errorcode::galois::GF"


def _decision_list(body):
    """(guards, tail): body = { if c {return v;}* ; let..; tail }"""
    guards = []
    lets = {}
    e = body
    if e["k"] != "Block":
        return [], e, lets
    for st in e.get("stmts", []):
        if st["k"] == "Let":
            p = st["pat"]
            if p.get("k") == "Bind" and "init" in st and "sub" not in p:
                lets[p["name"]] = (st["init"], T.is_mut_binding(p))
                continue
            raise T.Undecidable("let pattern")
        x = st["expr"]
        if x["k"] == "If" and "else" not in x:
            th = T.strip(x["then"])
            if th["k"] == "Block" and len(th.get("stmts", [])) == 1 and "expr" not in th:
                th = th["stmts"][0]["expr"]
            if th["k"] == "Block" and not th.get("stmts") and "expr" in th:
                th = th["expr"]
            if th["k"] == "Return" and "value" in th:
                guards.append((x["cond"], th["value"], dict(lets)))
                continue
            # assertion: if !(cond) { panic }  -> treat as precondition, skip when it only panics
            if any(T.canon(T.callee_of(c)).startswith("core::panicking") for c in T.calls(th)):
                guards.append((x["cond"], "panic", dict(lets)))
                continue
            # `if i < 0 { i += 255 }` style mutation
            guards.append((x["cond"], ("mutate", th), dict(lets)))
            continue
        if x["k"] == "Match" and any(T.canon(T.callee_of(c)).startswith("core::panicking") for c in T.calls(x)):
            # assert_ne!/assert_eq! expansion
            guards.append((x, "assert", dict(lets)))
            continue
        raise T.Undecidable("statement " + x["k"])
    return guards, e.get("expr"), lets


def gf_ops(ctx):
    """GF::add/sub are XOR, mul/div agree with the reference field for all operand pairs.
    The bodies are loop-free and call-free; they are reduced as guarded decision lists whose
    guards and tails are pure expressions folded over the finite operand domain."""
    r = "GF-OPS"
    f = ctx.facts()
    obs = []
    alog = f.const("errorcode::galois::ANTI_LOG")
    log = f.const("errorcode::galois::LOG")
    need(alog is not None and log is not None, r, "GF tables")

    def body_of(trait):
        name = "<errorcode::galois::GF as core::ops::%s>::%s" % (trait, trait.lower())
        b = f.thir.get(name)
        need(b, r, name)
        return b

    def gfval(v):
        if isinstance(v, dict) and v.get("__adt__") == GFT:
            return v.get("0")
        return None

    def on_call(folder, c):
        cc = T.canon(T.callee_of(c))
        if cc == "<errorcode::galois::GF as core::ops::Add>::add":
            a, b2 = gfval(folder.fold(c["args"][0])), gfval(folder.fold(c["args"][1]))
            return {"__adt__": GFT, "__variant__": "GF", "0": a ^ b2}
        return NotImplemented

    def eval_fn(b, a, c):
        """evaluate loop-free body for operands (a, c); returns u8 or 'panic'"""
        params = [p["pat"]["name"] for p in b["params"]]
        env = {params[0]: {"__adt__": GFT, "0": a}, params[1]: {"__adt__": GFT, "0": c}}
        guards, tail, lets = _decision_list(b["body"])
        fo = T.Folder(f, env=env, on_call=on_call)
        cur = {}

        def bind_lets(upto):
            for n, (init, _m) in upto.items():
                if n not in fo.env:
                    fo.env[n] = fo.fold(init)
        for cond, val, lets_here in guards:
            bind_lets(lets_here)
            if val == "assert":
                # assert_ne!(rhs.0, 0): model: panics iff the two compared values are equal / differ
                m = cond
                tup = T.strip(m["scrut"])
                l, rr = fo.fold(tup["fields"][0]), fo.fold(tup["fields"][1])
                is_ne = any("Ne" in str(x.get("variant", "")) for x in T.walk(m) if x.get("k") == "Adt")
                if (is_ne and l == rr) or (not is_ne and l != rr):
                    return "panic"
                continue
            cv = fo.fold(cond)
            if not cv:
                continue
            if val == "panic":
                return "panic"
            if isinstance(val, tuple) and val[0] == "mutate":
                th = val[1]
                sts = th.get("stmts", []) if th["k"] == "Block" else []
                xs = [s["expr"] for s in sts if s["k"] == "Expr"] or ([th] if th["k"] in ("AssignOp", "Assign") else [])
                for x in xs:
                    lhs = T.strip(x["lhs"])
                    if x["k"] == "AssignOp" and lhs["k"] == "Var":
                        op = x["op"].replace("Assign", "")
                        fo.env[lhs["name"]] = fo._bin(op, fo.env[lhs["name"]], fo.fold(x["rhs"]), {"ty": lhs["ty"], "span": x["span"]})
                    elif x["k"] == "Assign" and lhs["k"] == "Var":
                        fo.env[lhs["name"]] = fo.fold(x["rhs"])
                    else:
                        raise T.Undecidable("mutation")
                continue
            return gfval(fo.fold(val))
        bind_lets(lets)
        return gfval(fo.fold(tail))

    addb, subb, mulb, divb = body_of("Add"), body_of("Sub"), body_of("Mul"), body_of("Div")
    mulb = f.thir.get("<errorcode::galois::GF as core::ops::Mul>::mul") or mulb
    for name, b, ref in (("add", addb, lambda a, c: a ^ c), ("sub", subb, lambda a, c: a ^ c),
                         ("mul", mulb, gf.mul), ("div", divb, None)):
        bad = None
        n = 0
        try:
            inv = {x: gf.inv(x) for x in range(1, 256)} if name == "div" else None
            for a in range(256):
                for c in range(256):
                    if name == "div":
                        want = "panic" if c == 0 else gf.mul(a, inv[c])
                    else:
                        want = ref(a, c)
                    got = eval_fn(b, a, c)
                    n += 1
                    if got != want:
                        bad = "GF(%d) %s GF(%d) = %r, reference field gives %r" % (a, name, c, got, want)
                        break
                if bad:
                    break
            obs.append(Ob(r, name, bad is None, "GF::%s agrees with GF(256)/0x12D for all %d operand pairs%s" % (name, n, "" if not bad else ": " + bad),
                          site=T.span_str(b["span"])))
        except T.Trap as ex:
            obs.append(Ob(r, name, False, "GF::%s can trap: %s" % (name, ex), site=T.span_str(b["span"])))
        except T.Undecidable as ex:
            obs.append(Ob(r, name, False, "cannot decide: GF::%s body is not a loop-free pure decision list (%s)" % (name, ex), site=T.span_str(b["span"])))
    return obs


def prov_rsenc(ctx):
    r = "PROV-RSENC"
    f = ctx.facts()
    sts, _ = T.fn_stmts(f, ENC)
    need(sts is not None, r, ENC)
    b = f.thir[ENC]
    obs = []
    params = [p["pat"]["name"].split("#")[0] for p in b["params"]]
    need(params[:2] == ["data", "size"], r, ENC, "(parameters data, size)")

    def ob(key, ok, what, site=None, detail=None):
        obs.append(Ob(r, key, ok, what, site=site or T.span_str(b["span"]), detail=detail))

    # the block loop
    loops = [s for s in sts if s[0] == "for"]
    blk = None
    for s in loops:
        rp = range_parts(strip_into_iter(s[2]))
        if rp and rp[0] == ("lit", 0) and is_setup_field(rp[1], "num_ecc_blocks"):
            blk = s
    ob("block-loop", blk is not None, "encode_error loops over 0..block_setup(size).num_ecc_blocks",
       detail=[T.sx_show(s[2]) for s in loops])
    if blk is None:
        return obs
    bv = blk[1][0].split("#")[0]
    inner = blk[3]
    calls = [s for s in T.stmt_walk(inner) if s[0] == "expr" and s[1][0] == "call" and s[1][1] == ECCB]
    ob("one-ecc_block-call", len(calls) == 1, "exactly one ecc_block call per block", detail=len(calls))
    if len(calls) != 1:
        return obs
    call = calls[0][1]
    site = calls[0][2]
    stream, gen, scratch = call[2]
    # generator
    ok = gen[0] == "call" and gen[1] == GEN and is_setup_field(gen[2][0], "num_ecc_per_block")
    ob("gen", ok, "generator polynomial = generator(block_setup(size).num_ecc_per_block)", site, T.sx_show(gen))
    # strided input
    ok, why = _strided_view(f, stream, "data", bv, lambda x: is_setup_field(x, "num_ecc_blocks"))
    ob("input-stride", ok, "block input is the strided view data[block], data[block+B], ... with B = num_ecc_blocks: " + why, site, T.sx_show(stream, 300))
    # scratch
    scr = strip_into_iter(scratch)
    scr_let = [s for s in sts if s[0] == "let" and s[1].split("#")[0] == (scr[1] if scr[0] == "var" else None)]
    ok = False
    det = None
    if scr_let:
        init = scr_let[0][3]
        det = T.sx_show(init)
        if init[0] == "call" and init[1].endswith("vec::from_elem") and init[2][0] == ("lit", 0):
            n = init[2][1]
            ok = n[0] == "bin" and n[1] == "Add" and ((is_setup_field(n[2], "num_ecc_per_block") and n[3] == ("lit", 1)) or (is_setup_field(n[3], "num_ecc_per_block") and n[2] == ("lit", 1)))
    ob("scratch-len", ok, "LFSR scratch register has num_ecc_per_block + 1 zeroed cells", detail=det)
    # scratch is reset before the call in every iteration
    reset = False
    for s in inner:
        if s[0] == "for" and strip_into_iter(s[2])[:2] == scr[:2]:
            body = s[3]
            reset = len(body) == 1 and body[0][0] == "assign" and body[0][2] == ("lit", 0) and is_var(body[0][1], s[1][0].split("#")[0])
        if s[0] == "expr" and s[1] is call:
            break
    ob("scratch-reset", reset, "the scratch register is zeroed before each block's division")
    # output interleaving
    outs = [s for s in inner if s[0] == "for" and T.sx_calls(s[2], "Iterator::zip")]
    det = [T.sx_show(s[2], 300) for s in outs]
    res_let = None
    good = []
    for o in outs:
        z = strip_into_iter(o[2])
        if not (z[0] == "call" and z[1].endswith("Iterator::zip")):
            continue
        dst, src = z[2]
        # dst: step_by(skip(iter_mut(full), block), stride)
        okd = False
        full = None
        if dst[0] == "call" and dst[1].endswith("Iterator::step_by") and is_setup_field(dst[2][1], "num_ecc_blocks"):
            sk = dst[2][0]
            if sk[0] == "call" and sk[1].endswith("Iterator::skip") and is_var(sk[2][1], bv):
                im = sk[2][0]
                if im[0] == "call" and im[1].endswith("iter_mut"):
                    full = strip_into_iter(im[2][0])
                    okd = full[0] == "var"
        # src: ecc[..num_ecc_per_block]
        oks = False
        s2 = strip_into_iter(src)
        if s2[0] == "call" and s2[1].endswith("::index") and strip_into_iter(s2[2][0])[:2] == scr[:2]:
            rt = adt_fields(s2[2][1], "core::ops::RangeTo")
            oks = bool(rt) and is_setup_field(rt.get("end"), "num_ecc_per_block")
        names = [n.split("#")[0] for n in o[1]]
        body = [s for s in o[3] if s[0] == "assign"]
        oka = len(body) == 1 and len(names) == 2 and is_var(body[0][1], names[0]) and is_var(body[0][2], names[1])
        if okd and oks and oka:
            good.append(full)
    ok = len(good) == 1
    if ok:
        res_let = [s for s in sts if s[0] == "let" and s[1] == good[0][2]]
    ob("output-interleave", ok, "block b's error codewords are written to result positions b, b+B, b+2B, ... (skip(block).step_by(B) zipped with ecc[..k])", detail=det)
    ok = False
    if res_let:
        init = res_let[0][3]
        if init[0] == "call" and init[1].endswith("vec::from_elem"):
            n = init[2][1]
            ok = n[0] == "bin" and n[1] == "Mul" and {True} == {is_setup_field(n[2], "num_ecc_per_block") and is_setup_field(n[3], "num_ecc_blocks") or is_setup_field(n[3], "num_ecc_per_block") and is_setup_field(n[2], "num_ecc_blocks")}
        tail = sts[-1]
        ok = ok and tail[0] == "expr" and tail[1][:2] == ("var", res_let[0][1].split("#")[0])
    ob("result-len", ok, "the returned vector has num_ecc_per_block * num_ecc_blocks entries and is the interleaved buffer")
    # precondition assertion data.len() == num_data_codewords(size) (informational)
    has = any(s[0] == "if" and any(is_num_data(x) for x in T.sx_walk(s[1])) for s in sts)
    obs.append(Ob(r, "len-assert", True, "data.len() == num_data_codewords(size) asserted: %s" % has, info=True))
    obs += floor(obs, r, 8, "encoder wiring obligations")
    return obs


def _strided_view(f, stream, src_var, block_var, is_stride):
    """admitted forms of `src[block], src[block+B], ...`:
       (block..src.len()).step_by(B).map(|i| src[i])
       src.iter()[.copied()].skip(block).step_by(B)      /  src[block..].iter().step_by(B)"""
    s = stream
    while s[0] == "call" and (s[1].endswith("Iterator::copied") or s[1].endswith("Iterator::cloned") or s[1].endswith("into_iter")):
        s = s[2][0]
    if s[0] == "call" and s[1].endswith("Iterator::map"):
        inner, cl = s[2]
        if inner[0] == "call" and inner[1].endswith("Iterator::step_by") and is_stride(inner[2][1]):
            rp = range_parts(inner[2][0])
            if rp and is_var(rp[0], block_var) and rp[1][0] == "call" and rp[1][1].endswith("::len") and is_var(rp[1][2][0], src_var) and cl[0] == "closure":
                cb = f.thir.get(cl[1])
                if cb:
                    ce = T.sx(cb["body"], T.let_env(cb["body"]))
                    i = cb["params"][1]["pat"]["name"].split("#")[0]
                    if ce[0] == "index" and is_var(ce[1], src_var) and is_var(ce[2], i):
                        return True, "index-range form"
                    return False, "map closure is not |i| %s[i]: %s" % (src_var, T.sx_show(ce))
        return False, "unrecognised map/step_by chain"
    if s[0] == "call" and s[1].endswith("Iterator::step_by") and is_stride(s[2][1]):
        inner = s[2][0]
        while inner[0] == "call" and (inner[1].endswith("Iterator::copied") or inner[1].endswith("Iterator::cloned")):
            inner = inner[2][0]
        if inner[0] == "call" and inner[1].endswith("Iterator::skip") and is_var(inner[2][1], block_var):
            it = inner[2][0]
            while it[0] == "call" and (it[1].endswith("Iterator::copied") or it[1].endswith("Iterator::cloned")):
                it = it[2][0]
            if it[0] == "call" and (it[1].endswith("::iter") or it[1].endswith("::iter_mut")) and is_var(strip_into_iter(it[2][0]), src_var):
                return True, "iter().skip(block).step_by(B) form"
        if inner[0] == "call" and (inner[1].endswith("::iter") or inner[1].endswith("::iter_mut")):
            base = inner[2][0]
            if base[0] == "call" and base[1].endswith("::index") or base[0] == "call" and base[1].endswith("::index_mut"):
                rf = adt_fields(base[2][1], "core::ops::RangeFrom")
                if rf and is_var(rf.get("start"), block_var) and is_var(strip_into_iter(base[2][0]), src_var):
                    return True, "src[block..].iter().step_by(B) form"
    return False, "not a direct strided view of `%s` (buffering or a different stride/offset cannot be shown to cover every codeword of the block)" % src_var


def uniform(ctx):
    r = "UNIFORM"
    f = ctx.facts()
    sts, _ = T.fn_stmts(f, ECCB)
    need(sts is not None, r, ECCB)
    b = f.thir[ECCB]
    branches = [s for s in T.stmt_walk(sts) if s[0] in ("if", "match", "loop")]
    loops = [s for s in T.stmt_walk(sts) if s[0] == "for"]
    obs = [Ob(r, "no-branch", not branches,
              "ecc_block has no branch besides its two loops (the LFSR that the tests pin for k=5 is the same code for every k)",
              site=T.span_str(b["span"]), detail=[s[0] + "@" + str(s[-1]) for s in branches]),
           Ob(r, "two-loops", len(loops) == 2, "ecc_block = loop over data codewords x loop over register cells", detail=len(loops))]
    # register update shape: ecc[j] = ecc[j+1] + k*g[j+1], k = ecc[0] + a, inner loop 0..g.len()-1
    return obs
