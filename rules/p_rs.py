"""Reed-Solomon rules: TAB-GEN, TAB-GF, GF-OPS, PROV-RSENC, UNIFORM (C06);
PROV-RSDEC, GATHER-SCATTER (C03); SYNZERO (C09)."""
from .core import Ob, need, floor
from . import thirlib as T
from . import gf
from . import p_symbols

ENC = "errorcode::encode_error"
ECCB = "errorcode::ecc_block"
GEN = "errorcode::generator"
DEC = "errorcode::decoding::syndrome_based::decode"
DGEN = "errorcode::decoding::syndrome_based::decode_gen"
SS = "symbol_size::SymbolSize"


def is_var(x, base):
    return isinstance(x, tuple) and x[:2] == ("var", base)


def is_setup_field(x, field, size_var="size"):
    """block_setup(size).<field>"""
    return (isinstance(x, tuple) and x[0] == "field" and x[2] == field and x[1][0] == "call"
            and x[1][1] == SS + "::block_setup" and is_var(x[1][2][0], size_var))


def is_num_data(x, size_var="size"):
    return isinstance(x, tuple) and x[0] == "call" and x[1] == SS + "::num_data_codewords" and is_var(x[2][0], size_var)


def range_parts(x):
    if isinstance(x, tuple) and x[0] == "adt" and x[1] == "core::ops::Range":
        d = dict(x[3])
        return d.get("start"), d.get("end")
    return None


def adt_fields(x, path):
    if isinstance(x, tuple) and x[0] == "adt" and x[1] == path:
        return dict(x[3])
    return None


def strip_into_iter(x):
    while isinstance(x, tuple) and x[0] == "call" and (x[1].endswith("into_iter") or x[1].endswith("Iterator::copied")
                                                      or x[1].endswith("Iterator::cloned") or x[1].endswith("::deref") or x[1].endswith("::deref_mut")):
        x = x[2][0]
    return x


def tab_gen(ctx):
    r = "TAB-GEN"
    f = ctx.facts()
    polys = f.const("errorcode::GENERATOR_POLYNOMIALS")
    need(polys is not None, r, "errorcode::GENERATOR_POLYNOMIALS")
    obs = []
    ref = p_symbols.reference()
    degrees_needed = sorted({row["ecc_per_block"] for row in ref})
    by_deg = {}
    for i, p in enumerate(polys):
        k = len(p) - 1
        want = gf.generator(k) if k >= 1 else None
        by_deg.setdefault(k, []).append(i)
        bad = [j for j in range(len(p)) if want is None or p[j] != want[j]]
        obs.append(Ob(r, "poly:%d" % k, not bad,
                      "GENERATOR_POLYNOMIALS[%d] (degree %d) equals prod_{i=1..%d}(x - 2^i) over GF(256)/0x12D%s" % (
                          i, k, k, "" if not bad else "; first wrong coefficient index %d: table %d, expected %d" % (bad[0], p[bad[0]], want[bad[0]] if want else -1)),
                      site="src/errorcode/mod.rs (GENERATOR_POLYNOMIALS entry %d)" % i))
    for k in degrees_needed:
        obs.append(Ob(r, "degree:%d" % k, len(by_deg.get(k, [])) == 1,
                      "exactly one generator polynomial of degree %d (needed by a symbol size of the standard)" % k,
                      detail=by_deg.get(k)))
    # generator(len) selects by degree: the body is folded for every len (a scan of the constant table is unrolled)
    b = f.thir.get(GEN)
    need(b, r, GEN)
    pn = b["params"][0]["pat"]["name"] if b["params"] and b["params"][0].get("pat", {}).get("k") == "Bind" else None
    need(pn, r, GEN, "(one plain parameter)")
    ok = True
    det = None
    sel = 0
    for n in range(0, 72):
        want = [p for p in polys if len(p) - 1 == n]
        try:
            got = T.Folder(f, env={pn: n}, effects=True).run(b["body"])
        except T.Trap:
            got = "panic"
        except T.Undecidable as ex:
            ok = False
            det = "cannot decide: generator() is not a scan of the constant table that folds (%s)" % ex
            break
        if len(want) == 1:
            sel += 1
            if got != want[0]:
                ok = False
                det = "generator(%d) yields %s, not the table's polynomial of degree %d" % (n, "a panic" if got == "panic" else "a polynomial of degree %d" % (len(got) - 1) if isinstance(got, list) else repr(got), n)
                break
        elif not want and got != "panic":
            # no polynomial of that degree: any entry returned here would be a wrong-degree generator
            ok = False
            det = "generator(%d) yields a value although the table has no polynomial of degree %d" % (n, n)
            break
    det = det or "%d degrees select their table entry; every other len in 0..72 panics" % sel
    obs.append(Ob(r, "generator-select", ok, "generator(len) returns the table entry of degree len for every len that has one (and nothing for any other len in 0..72)", site=T.span_str(b["span"]), detail=det))
    obs += floor(obs, r, 25 + 25 + 1, "generator obligations")
    return obs


def tab_gf(ctx):
    r = "TAB-GF"
    f = ctx.facts()
    alog = f.const("errorcode::galois::ANTI_LOG")
    log = f.const("errorcode::galois::LOG")
    need(alog is not None, r, "errorcode::galois::ANTI_LOG")
    need(log is not None, r, "errorcode::galois::LOG")
    obs = []
    obs.append(Ob(r, "alog-len", len(alog) == 255, "ANTI_LOG has 255 entries"))
    obs.append(Ob(r, "log-len", len(log) == 256, "LOG has 256 entries"))
    p = 1
    for i in range(min(255, len(alog))):
        obs.append(Ob(r, "alog:%d" % i, alog[i] == p, "ANTI_LOG[%d] = %d, 2^%d over 0x12D is %d" % (i, alog[i], i, p)))
        if len(log) == 256:
            obs.append(Ob(r, "log:%d" % p, log[p] == i, "LOG[%d] = %d, discrete log is %d" % (p, log[p], i)))
        p = gf.mul(p, 2)
    obs += floor(obs, r, 2 + 255 + 255, "GF table obligations")
    return obs


GFT = "errorcode::galois::GF"


def _decision_list(body):
    """(guards, tail): body = { if c {return v;}* ; let..; tail }"""
    guards = []
    lets = {}
    e = body
    if e["k"] != "Block":
        return [], e, lets
    for st in e.get("stmts", []):
        if st["k"] == "Let":
            p = st["pat"]
            if p.get("k") == "Bind" and "init" in st and "sub" not in p:
                lets[p["name"]] = (st["init"], T.is_mut_binding(p))
                continue
            raise T.Undecidable("let pattern")
        x = st["expr"]
        if x["k"] == "If" and "else" not in x:
            th = T.strip(x["then"])
            if th["k"] == "Block" and len(th.get("stmts", [])) == 1 and "expr" not in th:
                th = th["stmts"][0]["expr"]
            if th["k"] == "Block" and not th.get("stmts") and "expr" in th:
                th = th["expr"]
            if th["k"] == "Return" and "value" in th:
                guards.append((x["cond"], th["value"], dict(lets)))
                continue
            # assertion: if !(cond) { panic }  -> treat as precondition, skip when it only panics
            if any(T.canon(T.callee_of(c)).startswith("core::panicking") for c in T.calls(th)):
                guards.append((x["cond"], "panic", dict(lets)))
                continue
            # `if i < 0 { i += 255 }` style mutation
            guards.append((x["cond"], ("mutate", th), dict(lets)))
            continue
        if x["k"] == "Match" and any(T.canon(T.callee_of(c)).startswith("core::panicking") for c in T.calls(x)):
            # assert_ne!/assert_eq! expansion
            guards.append((x, "assert", dict(lets)))
            continue
        raise T.Undecidable("statement " + x["k"])
    return guards, e.get("expr"), lets


def gf_ops(ctx):
    """GF::add/sub are XOR, mul/div agree with the reference field for all operand pairs.
    The bodies are loop-free and call-free; they are reduced as guarded decision lists whose
    guards and tails are pure expressions folded over the finite operand domain."""
    r = "GF-OPS"
    f = ctx.facts()
    obs = []
    alog = f.const("errorcode::galois::ANTI_LOG")
    log = f.const("errorcode::galois::LOG")
    need(alog is not None and log is not None, r, "GF tables")

    def body_of(trait):
        name = "<errorcode::galois::GF as core::ops::%s>::%s" % (trait, trait.lower())
        b = f.thir.get(name)
        need(b, r, name)
        return b

    def gfval(v):
        if isinstance(v, dict) and v.get("__adt__") == GFT:
            return v.get("0")
        return None

    def on_call(folder, c):
        cc = T.canon(T.callee_of(c))
        if cc == "<errorcode::galois::GF as core::ops::Add>::add":
            a, b2 = gfval(folder.fold(c["args"][0])), gfval(folder.fold(c["args"][1]))
            return {"__adt__": GFT, "__variant__": "GF", "0": a ^ b2}
        return NotImplemented

    def eval_fn(b, a, c):
        """evaluate loop-free body for operands (a, c); returns u8 or 'panic'"""
        params = [p["pat"]["name"] for p in b["params"]]
        env = {params[0]: {"__adt__": GFT, "0": a}, params[1]: {"__adt__": GFT, "0": c}}
        guards, tail, lets = _decision_list(b["body"])
        fo = T.Folder(f, env=env, on_call=on_call)
        cur = {}

        def bind_lets(upto):
            for n, (init, _m) in upto.items():
                if n not in fo.env:
                    fo.env[n] = fo.fold(init)
        for cond, val, lets_here in guards:
            bind_lets(lets_here)
            if val == "assert":
                # assert_ne!(rhs.0, 0): model: panics iff the two compared values are equal / differ
                m = cond
                tup = T.strip(m["scrut"])
                l, rr = fo.fold(tup["fields"][0]), fo.fold(tup["fields"][1])
                is_ne = any("Ne" in str(x.get("variant", "")) for x in T.walk(m) if x.get("k") == "Adt")
                if (is_ne and l == rr) or (not is_ne and l != rr):
                    return "panic"
                continue
            cv = fo.fold(cond)
            if not cv:
                continue
            if val == "panic":
                return "panic"
            if isinstance(val, tuple) and val[0] == "mutate":
                th = val[1]
                sts = th.get("stmts", []) if th["k"] == "Block" else []
                xs = [s["expr"] for s in sts if s["k"] == "Expr"] or ([th] if th["k"] in ("AssignOp", "Assign") else [])
                for x in xs:
                    lhs = T.strip(x["lhs"])
                    if x["k"] == "AssignOp" and lhs["k"] == "Var":
                        op = x["op"].replace("Assign", "")
                        fo.env[lhs["name"]] = fo._bin(op, fo.env[lhs["name"]], fo.fold(x["rhs"]), {"ty": lhs["ty"], "span": x["span"]})
                    elif x["k"] == "Assign" and lhs["k"] == "Var":
                        fo.env[lhs["name"]] = fo.fold(x["rhs"])
                    else:
                        raise T.Undecidable("mutation")
                continue
            return gfval(fo.fold(val))
        bind_lets(lets)
        return gfval(fo.fold(tail))

    addb, subb, mulb, divb = body_of("Add"), body_of("Sub"), body_of("Mul"), body_of("Div")
    mulb = f.thir.get("<errorcode::galois::GF as core::ops::Mul>::mul") or mulb
    for name, b, ref in (("add", addb, lambda a, c: a ^ c), ("sub", subb, lambda a, c: a ^ c),
                         ("mul", mulb, gf.mul), ("div", divb, None)):
        bad = None
        n = 0
        try:
            inv = {x: gf.inv(x) for x in range(1, 256)} if name == "div" else None
            for a in range(256):
                for c in range(256):
                    if name == "div":
                        want = "panic" if c == 0 else gf.mul(a, inv[c])
                    else:
                        want = ref(a, c)
                    got = eval_fn(b, a, c)
                    n += 1
                    if got != want:
                        bad = "GF(%d) %s GF(%d) = %r, reference field gives %r" % (a, name, c, got, want)
                        break
                if bad:
                    break
            obs.append(Ob(r, name, bad is None, "GF::%s agrees with GF(256)/0x12D for all %d operand pairs%s" % (name, n, "" if not bad else ": " + bad),
                          site=T.span_str(b["span"])))
        except T.Trap as ex:
            obs.append(Ob(r, name, False, "GF::%s can trap: %s" % (name, ex), site=T.span_str(b["span"])))
        except T.Undecidable as ex:
            obs.append(Ob(r, name, False, "cannot decide: GF::%s body is not a loop-free pure decision list (%s)" % (name, ex), site=T.span_str(b["span"])))
    return obs


def prov_rsenc(ctx):
    """PROV-RSENC: decided by folding encode_error symbolically for all 48 sizes (rsenc_exec); the statement-shape analysis
    below is only the fallback for a body the folder cannot execute."""
    r = "PROV-RSENC"
    f = ctx.facts()
    okx, detx = rsenc_exec(ctx)
    if okx is not None:
        site0 = T.span_str(f.thir[ENC]["span"]) if ENC in f.thir else None
        names = [("block-loop", "every interleaved block of the size is encoded, once"), ("one-ecc_block-call", "one block encoder call per block"),
                 ("gen", "generator polynomial = generator(block_setup(size).num_ecc_per_block)"),
                 ("input-stride", "block b is fed the strided view data[b], data[b+B], .. with B = num_ecc_blocks"),
                 ("scratch-len", "the LFSR scratch register has num_ecc_per_block + 1 cells"), ("scratch-reset", "the scratch register is zero before each block's division"),
                 ("output-interleave", "block b's error codewords are written to result positions b, b+B, b+2B, .."),
                 ("result-len", "the returned vector has num_ecc_per_block * num_ecc_blocks entries and is the interleaved buffer")]
        return [Ob(r, k, bool(okx), "%s - %s" % (w, detx), site=site0) for k, w in names]
    sts, _ = T.fn_stmts(f, ENC)
    need(sts is not None, r, ENC)
    b = f.thir[ENC]
    obs = []
    params = [p["pat"]["name"].split("#")[0] for p in b["params"]]
    need(params[:2] == ["data", "size"], r, ENC, "(parameters data, size)")

    def ob(key, ok, what, site=None, detail=None):
        obs.append(Ob(r, key, ok, what, site=site or T.span_str(b["span"]), detail=detail))

    # the block loop
    loops = [s for s in sts if s[0] == "for"]
    blk = None
    for s in loops:
        rp = range_parts(strip_into_iter(s[2]))
        if rp and rp[0] == ("lit", 0) and is_setup_field(rp[1], "num_ecc_blocks"):
            blk = s
    ob("block-loop", blk is not None, "encode_error loops over 0..block_setup(size).num_ecc_blocks",
       detail=[T.sx_show(s[2]) for s in loops])
    if blk is None:
        return obs
    bv = blk[1][0].split("#")[0]
    inner = blk[3]
    calls = [s for s in T.stmt_walk(inner) if s[0] == "expr" and s[1][0] == "call" and s[1][1] == ECCB]
    ob("one-ecc_block-call", len(calls) == 1, "exactly one ecc_block call per block", detail=len(calls))
    if len(calls) != 1:
        return obs
    call = calls[0][1]
    site = calls[0][2]
    stream, gen, scratch = call[2]
    # generator
    ok = gen[0] == "call" and gen[1] == GEN and is_setup_field(gen[2][0], "num_ecc_per_block")
    ob("gen", ok, "generator polynomial = generator(block_setup(size).num_ecc_per_block)", site, T.sx_show(gen))
    # strided input
    ok, why = _strided_view(f, stream, "data", bv, lambda x: is_setup_field(x, "num_ecc_blocks"))
    ob("input-stride", ok, "block input is the strided view data[block], data[block+B], ... with B = num_ecc_blocks: " + why, site, T.sx_show(stream, 300))
    # scratch
    scr = strip_into_iter(scratch)
    scr_let = [s for s in sts if s[0] == "let" and s[1].split("#")[0] == (scr[1] if scr[0] == "var" else None)]
    ok = False
    det = None
    if scr_let:
        init = scr_let[0][3]
        det = T.sx_show(init)
        if init[0] == "call" and init[1].endswith("vec::from_elem") and init[2][0] == ("lit", 0):
            n = init[2][1]
            ok = n[0] == "bin" and n[1] == "Add" and ((is_setup_field(n[2], "num_ecc_per_block") and n[3] == ("lit", 1)) or (is_setup_field(n[3], "num_ecc_per_block") and n[2] == ("lit", 1)))
    ob("scratch-len", ok, "LFSR scratch register has num_ecc_per_block + 1 zeroed cells", detail=det)
    # scratch is reset before the call in every iteration
    reset = False
    for s in inner:
        if s[0] == "for" and strip_into_iter(s[2])[:2] == scr[:2]:
            body = s[3]
            reset = len(body) == 1 and body[0][0] == "assign" and body[0][2] == ("lit", 0) and is_var(body[0][1], s[1][0].split("#")[0])
        if s[0] == "expr" and s[1][0] == "call" and s[1][1].endswith("::fill") and strip_into_iter(s[1][2][0])[:2] == scr[:2] and s[1][2][1] == ("lit", 0):
            reset = True      # ecc.fill(0)
        if s[0] == "let" and s[1].split("#")[0] == (scr[1] if scr[0] == "var" else None) and s[3][0] == "call" and s[3][1].endswith("vec::from_elem") and s[3][2][0] == ("lit", 0):
            reset = True      # a fresh zeroed register per block
        if s[0] == "expr" and s[1] is call:
            break
    ob("scratch-reset", reset, "the scratch register is zeroed before each block's division")
    # output interleaving
    outs = [s for s in inner if s[0] == "for" and T.sx_calls(s[2], "Iterator::zip")]
    det = [T.sx_show(s[2], 300) for s in outs]
    res_let = None
    good = []
    for o in outs:
        z = strip_into_iter(o[2])
        if not (z[0] == "call" and z[1].endswith("Iterator::zip")):
            continue
        dst, src = z[2]
        # dst: any spelling of the strided view full[block], full[block + B], ...
        okd = False
        full = None
        dv = view_of(f, dst)
        if dv and dv[0] == "view" and dv[2] == {(bv,): 1} and is_setup_field(dv[3], "num_ecc_blocks"):
            full = ("var", dv[1][1], dv[1][2] if len(dv[1]) > 2 else None)
            okd = True
        # src: ecc[..num_ecc_per_block]
        oks = False
        s2 = strip_into_iter(src)
        if s2[0] == "call" and s2[1].endswith("::index") and strip_into_iter(s2[2][0])[:2] == scr[:2]:
            rt = adt_fields(s2[2][1], "core::ops::RangeTo")
            oks = bool(rt) and is_setup_field(rt.get("end"), "num_ecc_per_block")
        names = [n.split("#")[0] for n in o[1]]
        body = [s for s in o[3] if s[0] == "assign"]
        oka = len(body) == 1 and len(names) == 2 and is_var(body[0][1], names[0]) and is_var(body[0][2], names[1])
        if okd and oks and oka:
            good.append(full)
    ok = len(good) == 1
    if ok:
        res_let = [s for s in sts if s[0] == "let" and (s[1] == good[0][2] or (good[0][2] is None and s[1].split("#")[0] == good[0][1]))]
    ob("output-interleave", ok, "block b's error codewords are written to result positions b, b+B, b+2B, ... (skip(block).step_by(B) zipped with ecc[..k])", detail=det)
    ok = False
    if res_let:
        init = res_let[0][3]
        if init[0] == "call" and init[1].endswith("vec::from_elem"):
            n = init[2][1]
            ok = n[0] == "bin" and n[1] == "Mul" and {True} == {is_setup_field(n[2], "num_ecc_per_block") and is_setup_field(n[3], "num_ecc_blocks") or is_setup_field(n[3], "num_ecc_per_block") and is_setup_field(n[2], "num_ecc_blocks")}
        tail = sts[-1]
        ok = ok and tail[0] == "expr" and tail[1][:2] == ("var", res_let[0][1].split("#")[0])
    ob("result-len", ok, "the returned vector has num_ecc_per_block * num_ecc_blocks entries and is the interleaved buffer")
    # precondition assertion data.len() == num_data_codewords(size) (informational)
    has = any(s[0] == "if" and any(is_num_data(x) for x in T.sx_walk(s[1])) for s in sts)
    obs.append(Ob(r, "len-assert", True, "data.len() == num_data_codewords(size) asserted: %s" % has, info=True))
    obs += floor(obs, r, 8, "encoder wiring obligations")
    return obs


def _strided_view(f, stream, src_var, block_var, is_stride):
    """`stream` yields src[block], src[block + B], ... : any spelling that view_of() recognises"""
    v = view_of(f, stream)
    if v is None or v[0] != "view":
        return False, "not a direct strided view of `%s` (buffering or an unrecognised adaptor cannot be shown to cover every codeword of the block)" % src_var
    if v[1][1] != src_var:
        return False, "the view is over `%s`, not `%s`" % (v[1][1], src_var)
    if v[2] != {(block_var,): 1}:
        return False, "the view starts at offset %r, not at `%s`" % (sorted(v[2].items()), block_var)
    if not is_stride(v[3]):
        return False, "the view's stride is %s" % T.sx_show(v[3])
    return True, "strided view (offset %s, stride %s)" % (block_var, T.sx_show(v[3], 40))


# ---- strided views --------------------------------------------------------------------------------

def _var_atom(x):
    if isinstance(x, tuple) and x[0] == "var":
        return x[1]
    return None


def view_of(f, e):
    """normalise an iterator expression over a slice to ('view', base, offset_poly, stride) where
    the view yields base[offset], base[offset + stride], ...; offset is a polynomial over variable names.
    Recognised: X.iter()/iter_mut() [.copied()/.cloned()], X[a..], .skip(k) (before any step_by), .step_by(s),
    (k..X.len()).step_by(s).map(|i| X[i]).  ('chain', v1, v2) for Iterator::chain.  None otherwise."""
    e = strip_into_iter(e)
    if not isinstance(e, tuple):
        return None
    if e[0] == "call" and f is not None and any(T.canon(n) == e[1] for n in f.thir):
        e2 = T.inline_pure_helper(f, e)       # a crate-local helper that only builds the iterator
        if e2 != e:
            return view_of(f, e2)
    if e[0] == "call" and e[1].endswith("Iterator::chain"):
        a, b = view_of(f, e[2][0]), view_of(f, e[2][1])
        if a and b and a[0] == "view" and b[0] == "view":
            return ("chain", a, b)
        return None
    if e[0] == "call" and (e[1].endswith("Iterator::copied") or e[1].endswith("Iterator::cloned")):
        return view_of(f, e[2][0])
    if e[0] == "call" and e[1].endswith("Iterator::step_by"):
        inner = view_of(f, e[2][0])
        if inner and inner[0] == "view" and inner[3] == ("lit", 1):
            return ("view", inner[1], inner[2], e[2][1])
        # index-range form: (k..X.len()).step_by(s) is handled by the enclosing map
        rp = range_parts(strip_into_iter(e[2][0]))
        if rp:
            return ("range", rp[0], rp[1], e[2][1])
        return None
    if e[0] == "call" and e[1].endswith("Iterator::skip"):
        inner = view_of(f, e[2][0])
        if inner and inner[0] == "view" and inner[3] == ("lit", 1):
            off = dict(inner[2])
            for m, c in T.poly(e[2][1], _var_atom).items():
                off[m] = off.get(m, 0) + c
            return ("view", inner[1], {m: c for m, c in off.items() if c}, ("lit", 1))
        return None
    if e[0] == "call" and e[1].endswith("Iterator::map"):
        inner = view_of(f, e[2][0])
        cl = e[2][1]
        if inner and inner[0] == "range" and cl[0] == "closure" and cl[1] in f.thir:
            cb = f.thir[cl[1]]
            ce = T.sx(cb["body"], T.let_env(cb["body"]))
            i = cb["params"][1]["pat"]["name"].split("#")[0] if len(cb["params"]) > 1 else None
            if ce[0] == "index" and ce[1][0] in ("var",) and is_var(ce[2], i):
                base = ce[1]
                end = inner[2]
                if end[0] == "call" and end[1].endswith("::len") and strip_into_iter(end[2][0])[:2] == base[:2]:
                    return ("view", ("var", base[1]), T.poly(inner[1], _var_atom), inner[3])
        return None
    if e[0] == "call" and (e[1].endswith("::iter") or e[1].endswith("::iter_mut")) and len(e[2]) == 1:
        base = strip_into_iter(e[2][0])
        off = {}
        while base[0] == "call" and (base[1].endswith("::index") or base[1].endswith("::index_mut")) and len(base[2]) == 2:
            rf = adt_fields(base[2][1], "core::ops::RangeFrom")
            if not rf:
                return None
            for m, c in T.poly(rf["start"], _var_atom).items():
                off[m] = off.get(m, 0) + c
            base = strip_into_iter(base[2][0])
        if base[0] == "var":
            return ("view", ("var", base[1]), {m: c for m, c in off.items() if c}, ("lit", 1))
        return None
    return None


def view_key(v):
    """hashable form"""
    if v is None:
        return None
    if v[0] == "chain":
        return ("chain", view_key(v[1]), view_key(v[2]))
    return ("view", v[1][1], frozenset(v[2].items()), v[3])


def uniform(ctx):
    r = "UNIFORM"
    f = ctx.facts()
    sts, _ = T.fn_stmts(f, ECCB)
    need(sts is not None, r, ECCB)
    b = f.thir[ECCB]
    # the body and the private helpers of this module it delegates to (GF arithmetic is checked by GF-OPS)
    deep = T.fn_stmts_deep(f, ECCB, only=lambda c: c.startswith("errorcode::") and "::galois::" not in c and " as " not in c)
    branches = [s for _n, ss in deep for s in T.stmt_walk(ss) if s[0] in ("if", "match", "loop")]
    loops = [s for _n, ss in deep for s in T.stmt_walk(ss) if s[0] == "for"]
    obs = [Ob(r, "no-branch", not branches,
              "ecc_block has no branch besides its two loops (the LFSR that the tests pin for k=5 is the same code for every k)",
              site=T.span_str(b["span"]), detail=[s[0] + "@" + str(s[-1]) for s in branches]),
           Ob(r, "two-loops", len(loops) == 2, "ecc_block = loop over data codewords x loop over register cells", detail=len(loops))]
    # register update shape: ecc[j] = ecc[j+1] + k*g[j+1], k = ecc[0] + a, inner loop 0..g.len()-1
    return obs


# =====================================================================================
# decoder side
# =====================================================================================

PEE = "errorcode::decoding::primitive_element_evaluation"


def _norm_view(e, f=None):
    """('chain', view_key, view_key) for a chain of two strided views, else None"""
    v = view_of(f, e)
    if v is None or v[0] != "chain":
        return None
    return view_key(v)


def _is_full_syndromes(x, name="syndromes"):
    x2 = x
    while x2[0] == "call" and (x2[1].endswith("::deref_mut") or x2[1].endswith("::deref") or x2[1].endswith("as_mut_slice") or x2[1].endswith("as_mut")):
        x2 = x2[2][0]
    return is_var(x2, name)


def _mutates_words(e):
    """does the expression obtain mutable access to the data/error slices?"""
    for x in T.sx_walk(e):
        if x[0] == "call" and (x[1].endswith("iter_mut") or x[1].endswith("index_mut") or x[1].endswith("get_mut") or x[1].endswith("split_at_mut")
                               or x[1].endswith("swap") or x[1].endswith("copy_from_slice") or x[1].endswith("fill")):
            if any(is_var(y, "data") or is_var(y, "error") for y in T.sx_walk(x)):
                return True
        if x[0] == "index" and (is_var(x[1], "data") or is_var(x[1], "error")):
            pass
    return False


def _is_ok_unit(e):
    return e is not None and e[0] == "adt" and e[1] == "core::result::Result" and e[2] == "Ok"


def _is_err(e):
    return e is not None and e[0] == "adt" and e[1] == "core::result::Result" and e[2] == "Err"


def _synzero_shape(ctx):
    r = "SYNZERO"
    f = ctx.facts()
    need(DGEN in f.thir, r, DGEN)
    b = f.thir[DGEN]
    params = [p["pat"]["name"].split("#")[0] for p in b["params"]]
    need({"data", "error", "stride", "err_len"} <= set(params), r, DGEN, "(parameters data, error, stride, err_len)")
    sts = T.stmts(b["body"], {"__noinline__": True})
    obs = []
    site0 = T.span_str(b["span"])
    # syndrome buffer: vec![GF(0); err_len]
    syn = [s for s in sts if s[0] == "let" and s[1].split("#")[0] == "syndromes"]
    ok = len(syn) == 1 and syn[0][3][0] == "call" and syn[0][3][1].endswith("vec::from_elem") and is_var(syn[0][3][2][1], "err_len")
    obs.append(Ob(r, "syndromes-len", ok, "the syndrome buffer has err_len entries (all k roots 2^1..2^k are evaluated, k not 2*floor(k/2))", site=site0,
                  detail=T.sx_show(syn[0][3]) if syn else None))
    evals = {}   # variable name -> is a qualifying evaluation
    n_eval = 0

    def qualify(e):
        """e is primitive_element_evaluation(<strided chain of data,error>, <full syndromes>)"""
        if not (e[0] == "call" and e[1] == PEE and len(e[2]) == 2):
            return None
        view = e[2][0]
        if view[0] == "var" and view[2] in viewvars:
            view = viewvars[view[2]]
        nv = _norm_view(view, f)
        # ('chain', ('view', base, offset, stride) x 2): data then error, both with the stride parameter and the same offset
        okv = nv is not None and nv[1][1] == "data" and nv[2][1] == "error" and is_var(nv[1][3], "stride") and is_var(nv[2][3], "stride") and nv[1][2] == nv[2][2]
        oks = _is_full_syndromes(e[2][1])
        return (okv, oks, T.sx_show(view, 200), T.sx_show(e[2][1], 120))

    viewvars = {}
    verified = False
    state_note = "start"
    k_ok = 0
    for s in sts:
        kind = s[0]
        if kind == "let":
            name, init = s[1], s[3]
            if _norm_view(init, f) is not None:
                viewvars[name] = init
                if _mutates_words(init):
                    verified = False
                continue
            q = qualify(init)
            if q is not None:
                n_eval += 1
                evals[name] = q
                obs.append(Ob(r, "eval:%d:view" % n_eval, q[0], "syndrome evaluation #%d reads data.step_by(stride) followed by error.step_by(stride)" % n_eval, site=s[4], detail=q[2]))
                obs.append(Ob(r, "eval:%d:all-syndromes" % n_eval, q[1], "syndrome evaluation #%d fills the whole syndrome buffer (not a sub-slice)" % n_eval, site=s[4], detail=q[3]))
                continue
            if _mutates_words(init):
                verified = False
                state_note = "store at " + s[4]
            continue
        if kind == "letpat":
            if s[2] is not None and _mutates_words(s[2]):
                verified = False
            continue
        if kind == "if":
            cond = s[1]
            neg = False
            c = cond
            if c[0] == "un" and c[1] == "Not":
                neg = True
                c = c[2]
            q = None
            if c[0] == "var" and c[2] in evals:
                q = evals[c[2]]
            else:
                q = qualify(c)
                if q is not None:
                    n_eval += 1
                    obs.append(Ob(r, "eval:%d:view" % n_eval, q[0], "syndrome evaluation #%d reads data.step_by(stride) followed by error.step_by(stride)" % n_eval, site=s[4], detail=q[2]))
                    obs.append(Ob(r, "eval:%d:all-syndromes" % n_eval, q[1], "syndrome evaluation #%d fills the whole syndrome buffer (not a sub-slice)" % n_eval, site=s[4], detail=q[3]))
            if q is not None and q[0] and q[1]:
                zero_branch, nz_branch = (s[2], s[3]) if neg else (s[3], s[2])
                # returns of Ok inside the zero branch are verified
                for st in T.stmt_walk(zero_branch):
                    if st[0] == "return" and _is_ok_unit(st[1]):
                        k_ok += 1
                        obs.append(Ob(r, "ok:%d" % k_ok, True, "`return Ok` on the all-syndromes-zero edge of a full syndrome evaluation", site=st[2]))
                for st in T.stmt_walk(nz_branch):
                    if st[0] == "return" and _is_ok_unit(st[1]):
                        k_ok += 1
                        obs.append(Ob(r, "ok:%d" % k_ok, False, "`return Ok` on the edge where some syndrome is non-zero", site=st[2]))
                zero_returns = any(st[0] == "return" for st in zero_branch[-1:])
                nz_returns = any(st[0] == "return" for st in nz_branch[-1:])
                if nz_returns and not zero_returns:
                    verified = True
                    state_note = "after `if nonzero { return Err }` at " + s[4]
                elif zero_returns and not nz_returns:
                    verified = False
                    state_note = "non-zero syndromes known at " + s[4]
                else:
                    verified = False
                continue
            # any other `if`: Ok returns inside need `verified` before and no store inside
            inner_mut = any(_mutates_words(e) for st in T.stmt_walk(s[2] + s[3]) for e in T.stmt_exprs(st))
            for st in T.stmt_walk(s[2] + s[3]):
                if st[0] == "return" and _is_ok_unit(st[1]):
                    k_ok += 1
                    obs.append(Ob(r, "ok:%d" % k_ok, verified and not inner_mut, "`return Ok` is reached only with all syndromes verified zero (%s)" % state_note, site=st[2]))
            if inner_mut:
                verified = False
                state_note = "store inside `if` at " + s[4]
            continue
        # loops, matches, plain expressions, assignments
        inner = list(T.stmt_walk([s]))
        muts = any(_mutates_words(e) for st in inner for e in T.stmt_exprs(st)) or any(st[0] in ("assign", "assignop") and any(
            is_var(y, "data") or is_var(y, "error") or (y[0] == "var" and y[1] == "codeword") for y in T.sx_walk(st[1] if st[0] == "assign" else st[2])) for st in inner)
        for st in inner:
            if st[0] == "return" and _is_ok_unit(st[1]):
                k_ok += 1
                obs.append(Ob(r, "ok:%d" % k_ok, verified and not muts, "`return Ok` is reached only with all syndromes verified zero (%s)" % state_note, site=st[2]))
        if muts:
            verified = False
            state_note = "store in statement at " + str(s[-1] if isinstance(s[-1], str) else "?")
        if kind == "expr" and _is_ok_unit(s[1]) and s is sts[-1]:
            k_ok += 1
            obs.append(Ob(r, "ok:%d" % k_ok, verified, "the final `Ok(())` is reached only with all syndromes of the (corrected) word verified zero (%s)" % state_note, site=s[2]))
    obs.append(Ob(r, "ok-sites", k_ok >= 2, "found the success exits of decode_gen (%d)" % k_ok))
    # primitive_element_evaluation returns the OR over all outputs
    pe = f.thir.get(PEE)
    need(pe, r, PEE)
    psts = T.stmts(pe["body"], {"__noinline__": True})
    loops = [s for s in psts if s[0] == "for"]
    ok = False
    det = None
    # roles, not names: the flag is the local the function returns; the output slice is its second parameter
    FLAG = psts[-1][1][1] if psts and psts[-1][0] == "expr" and psts[-1][1][0] == "var" else None
    OUT = pe["params"][1]["pat"]["name"].split("#")[0] if len(pe["params"]) > 1 and pe["params"][1].get("pat", {}).get("k") == "Bind" else None
    if len(loops) == 1 and FLAG and OUT:
        it = strip_into_iter(loops[0][2])
        over_out = it[0] == "call" and (it[1].endswith("iter_mut") or it[1].endswith("::iter")) and is_var(strip_into_iter(it[2][0]), OUT)
        ovar = loops[0][1][0].split("#")[0]
        body = loops[0][3]
        # expressions that denote this iteration's syndrome: `*o` after the store, or an immutable local that is stored to `*o`
        stored = [k for k, st in enumerate(body) if st[0] == "assign" and is_var(st[1], ovar)]
        val_vars = {st[2][1] for st in body if st[0] == "assign" and is_var(st[1], ovar) and st[2][0] == "var"
                    and any(l[0] == "let" and l[1].split("#")[0] == st[2][1] for l in body)}

        def last_mod(name):
            """index of the last top-level statement of the loop body that can still change local `name`"""
            idx = -1
            for k0, st0 in enumerate(body):
                if st0[0] == "let" and st0[1].split("#")[0] == name:
                    idx = max(idx, k0)
                for x0 in T.stmt_walk([st0]):
                    if x0[0] in ("assign", "assignop") and is_var(x0[1] if x0[0] == "assign" else x0[2], name):
                        idx = max(idx, k0)
                    if x0[0] == "expr" and x0[1][0] == "call" and x0[1][1].endswith(("add_assign", "mul_assign", "sub_assign")) and x0[1][2] and is_var(x0[1][2][0], name):
                        idx = max(idx, k0)
            return idx

        def is_zero(x):
            return isinstance(x, tuple) and ((x[0] == "adt" and x[1].endswith("galois::GF") and len(x[3]) == 1 and x[3][0][1] == ("lit", 0)) or x == ("lit", 0))

        def nonzero_test(c, pos):
            """c is `v != GF(0)` (or `!(v == GF(0))`) for this iteration's syndrome v"""
            neg = False
            if c[0] == "un" and c[1] == "Not":
                c, neg = c[2], True
            if not (c[0] == "call" and (c[1].endswith("::ne") or c[1].endswith("::eq")) and len(c[2]) == 2) and not (c[0] == "bin" and c[1] in ("Ne", "Eq")):
                return False
            name = c[1].split("::")[-1].lower() if c[0] == "call" else c[1].lower()
            if (name == "eq") != neg:
                return False
            a, b2 = (c[2][0], c[2][1]) if c[0] == "call" else (c[2], c[3])
            for v, z in ((a, b2), (b2, a)):
                if v[0] == "field" and v[2] == "0":
                    v = v[1]
                if is_zero(z) and ((is_var(v, ovar) and stored and stored[0] < pos) or (v[0] == "var" and v[1] in val_vars and last_mod(v[1]) < pos)):
                    return True
            return False
        all_sets = [st for st in T.stmt_walk(body) if st[0] in ("assign", "assignop") and is_var(st[1] if st[0] == "assign" else st[2], FLAG)]
        good = 0
        for k, st in enumerate(body):
            if st[0] == "assign" and is_var(st[1], FLAG):
                rhs = st[2]
                det = T.sx_show(rhs)
                if rhs[0] == "logic" and rhs[1] == "Or" and any(is_var(p2, FLAG) for p2 in (rhs[2], rhs[3])) and any(nonzero_test(p2, k) for p2 in (rhs[2], rhs[3])):
                    good += 1
                elif rhs[0] == "bin" and rhs[1] == "BitOr" and any(is_var(p2, FLAG) for p2 in (rhs[2], rhs[3])) and any(nonzero_test(p2, k) for p2 in (rhs[2], rhs[3])):
                    good += 1
            elif st[0] == "assignop" and is_var(st[2], FLAG) and st[1] == "BitOrAssign" and nonzero_test(st[3], k):
                good += 1
            elif st[0] == "if" and isinstance(st[1], tuple) and st[1][0] != "iflet" and nonzero_test(st[1], k):
                # `if v != GF(0) { errors = true; }`: the flag is only ever set inside the loop
                inner = [x for x in T.stmt_walk(st[2]) if x[0] in ("assign", "assignop") and is_var(x[1] if x[0] == "assign" else x[2], FLAG)]
                top = [x for x in st[2] if x[0] == "assign" and is_var(x[1], FLAG) and x[2] == ("lit", True)]
                in_else = [x for x in T.stmt_walk(st[3]) if x[0] in ("assign", "assignop") and is_var(x[1] if x[0] == "assign" else x[2], FLAG)]
                if len(inner) == 1 and len(top) == 1 and not in_else:
                    good += 1
                    det = "if-form"
        # every store to the flag inside the loop is one of the accepted OR-updates (nothing clears it), and there is one
        okupd = good >= 1 and len(all_sets) == good and len(stored) == 1
        init = [st for st in psts if st[0] == "let" and st[1].split("#")[0] == FLAG]
        okinit = len(init) == 1 and init[0][3] == ("lit", False)
        other_sets = [st for st in T.stmt_walk(psts) if st[0] in ("assign", "assignop") and is_var(st[1] if st[0] == "assign" else st[2], FLAG)]
        tail = psts[-1]
        ok = over_out and okupd and okinit and len(other_sets) == len(all_sets) and tail[0] == "expr" and is_var(tail[1], FLAG)
    obs.append(Ob(r, "pee-or", ok, "primitive_element_evaluation returns true iff some evaluated syndrome is non-zero (OR over every entry of `out`)", site=T.span_str(pe["span"]), detail=det))
    # the evaluation itself: out[k] = sum_i c_rev[i] * alpha^(i*(k+1)), i.e. the word evaluated at alpha^1 .. alpha^len.
    # Structure: running terms from all coefficients (reversed); in every iteration over `out` they are scaled by the
    # powers 1, alpha, alpha^2, .. BEFORE the sum is taken; the sum is over all terms.
    okev = False
    detev = None
    CPAR = pe["params"][0]["pat"]["name"].split("#")[0] if pe["params"] and pe["params"][0].get("pat", {}).get("k") == "Bind" else None
    gl = [st for st in psts if st[0] == "let" and st[2] and T.sx_calls(st[3], "Iterator::collect") and CPAR and any(is_var(x, CPAR) for x in T.sx_walk(st[3]))]
    if len(gl) == 1 and len(loops) == 1 and OUT:
        g = gl[0][1].split("#")[0]
        src_ok = bool(T.sx_calls(gl[0][3], "Iterator::rev")) and not any(T.sx_calls(gl[0][3], "Iterator::" + q) for q in ("skip", "take", "filter", "step_by"))
        body = loops[0][3]
        k_scale = scale_stmt(f, body, g)
        sums = [k for k, st in enumerate(body) for e in T.stmt_exprs(st) for x in T.sx_calls(e, "Iterator::sum")
                if any(is_var(y, g) for y in T.sx_walk(x)) and not any(T.sx_calls(x, "Iterator::" + q) for q in ("skip", "take", "filter", "step_by"))]
        detev = {"terms": T.sx_show(gl[0][3], 160), "scale@": k_scale, "sum@": sums}
        okev = src_ok and k_scale is not None and len(sums) == 1 and k_scale < sums[0] and not any(st[0] in ("continue", "break") for st in T.stmt_walk(body))
        if src_ok and k_scale is not None and not sums and id(body[k_scale]) in FUSED:
            # fused pass: `let mut acc = GF(0)` right before, every scaled term added to it, nothing else touches it
            acc = FUSED[id(body[k_scale])]
            inits = [k for k, st in enumerate(body) if st[0] == "let" and st[2] and st[1].split("#")[0] == acc and st[3][0] == "adt" and st[3][1].endswith("galois::GF")
                     and len(st[3][3]) == 1 and st[3][3][0][1] == ("lit", 0)]
            touched = [st for st in T.stmt_walk(body) if st[0] in ("assign", "assignop") and is_var(st[1] if st[0] == "assign" else st[2], acc)]
            okev = len(inits) == 1 and inits[0] < k_scale and not touched and not any(st[0] in ("continue", "break") for st in T.stmt_walk(body))
            detev["fused-accumulator"] = acc
    if not okev:
        # statement shape not recognised: SYNDROMES' fold decides the same question (cell i = c(alpha^(i+1)))
        okx, detx = pee_exec(ctx)
        if okx:
            okev, detev = True, "decided by folding over linear forms: " + str(detx)
    obs.append(Ob(r, "pee-points", okev, "primitive_element_evaluation evaluates the word at alpha^1, alpha^2, ..: all coefficients (highest first) as running terms, scaled by 1, alpha, alpha^2, .. before each sum, every term summed", site=T.span_str(pe["span"]), detail=detev))
    # decode(): Ok only after every block returned Ok
    dsts, _ = T.fn_stmts(f, DEC)
    need(dsts is not None, r, DEC)
    oks = [st for st in T.stmt_walk(dsts) if (st[0] == "return" and _is_ok_unit(st[1])) or (st[0] == "expr" and _is_ok_unit(st[1]))]
    loops = [s for s in dsts if s[0] == "for"]
    ok = len(oks) == 1 and dsts[-1] in oks and len(loops) == 1
    if ok:
        # the decode_gen call is under `?`
        tries = [x for st in T.stmt_walk(loops[0][3]) for e in T.stmt_exprs(st) for x in T.sx_walk(e) if x[0] == "try"]
        calls_all = [x for st in T.stmt_walk(loops[0][3]) for e in T.stmt_exprs(st) for x in T.sx_calls(e, "decode_gen")]
        calls_try = [x for t in tries for x in T.sx_calls(t, "decode_gen")]
        ok = len(calls_all) == 1 and len(calls_try) == 1
    obs.append(Ob(r, "decode-all-blocks", ok, "decode() returns Ok only after the block loop, and every block's error is propagated with `?`"))
    obs += floor(obs, r, 8, "SYNZERO obligations")
    return obs


def prov_rsdec(ctx):
    """PROV-RSDEC: decided by folding decode() symbolically for all 48 sizes (rsdec_exec); the statement-shape analysis below
    is the fallback for a body the folder cannot execute."""
    r = "PROV-RSDEC"
    f = ctx.facts()
    okx, detx = rsdec_exec(ctx)
    if okx is not None:
        site0 = T.span_str(f.thir[DEC]["span"]) if DEC in f.thir else None
        names = [("split", "the codeword vector is split at num_data_codewords(size) into data and error part"),
                 ("block-loop", "every interleaved block of the size is decoded"), ("one-call", "one block decoder call per block"),
                 ("arg:data", "block b reads/corrects the data codewords b, b+B, b+2B, .."), ("arg:error", "block b reads/corrects the error codewords b, b+B, .."),
                 ("arg:stride", "the stride is the number of blocks"), ("arg:err_len", "the number of syndromes is the size's error codewords per block")]
        return [Ob(r, k, bool(okx), "%s - %s" % (w, detx), site=site0) for k, w in names]
    dsts, _ = T.fn_stmts(f, DEC)
    need(dsts is not None, r, DEC)
    b = f.thir[DEC]
    obs = []
    site = T.span_str(b["span"])
    params = [p["pat"]["name"].split("#")[0] for p in b["params"]]
    need(params == ["codewords", "size"], r, DEC, "(parameters codewords, size)")
    # split point
    sp = [s for s in dsts if s[0] == "letpat" and s[2] is not None and s[2][0] == "call" and s[2][1].endswith("split_at_mut")]
    ok = len(sp) == 1 and is_var(sp[0][2][2][0], "codewords") and is_num_data(sp[0][2][2][1]) and [n.split("#")[0] for n in sp[0][1]] == ["data", "error"]
    obs.append(Ob(r, "split", ok, "codewords are split into (data, error) at size.num_data_codewords()", site=site, detail=T.sx_show(sp[0][2]) if sp else None))
    loops = [s for s in dsts if s[0] == "for"]
    blk = None
    for s in loops:
        rp = range_parts(strip_into_iter(s[2]))
        if rp and rp[0] == ("lit", 0) and is_setup_field(rp[1], "num_ecc_blocks"):
            blk = s
    obs.append(Ob(r, "block-loop", blk is not None, "decode loops over 0..block_setup(size).num_ecc_blocks", site=site, detail=[T.sx_show(s[2]) for s in loops]))
    if blk is None:
        return obs
    bv = blk[1][0].split("#")[0]
    calls = [x for st in T.stmt_walk(blk[3]) for e in T.stmt_exprs(st) for x in T.sx_calls(e, "decode_gen")]
    obs.append(Ob(r, "one-call", len(calls) == 1, "one decode_gen call per block", detail=len(calls)))
    if len(calls) != 1:
        return obs
    a = calls[0][2]
    # callee's reference view (what the syndromes are computed from), in terms of its own parameters
    need(DGEN in f.thir, r, DGEN)
    gb = f.thir[DGEN]
    gparams = [p["pat"]["name"].split("#")[0] for p in gb["params"]]
    gsts = T.stmts(gb["body"], {"__noinline__": True})
    gviews = [x[3] for x in gsts if x[0] == "let" and view_of(f, x[3]) is not None and view_of(f, x[3])[0] == "chain"]
    need(gviews, r, DGEN, "(strided codeword view)")
    gv = view_of(f, gviews[0])
    need(len(a) >= len(gparams) or True, r, DGEN)
    argmap = dict(zip(gparams, a))

    def caller_base(x):
        """(base var, offset poly) of a slice argument: X or X[k..]"""
        x = strip_into_iter(x)
        off = {}
        while x[0] == "call" and (x[1].endswith("index_mut") or x[1].endswith("::index")) and len(x[2]) == 2:
            rf = adt_fields(x[2][1], "core::ops::RangeFrom")
            if not rf:
                return None, None
            for m, c in T.poly(rf["start"], _var_atom).items():
                off[m] = off.get(m, 0) + c
            x = strip_into_iter(x[2][0])
        if x[0] == "var":
            return x[1], off
        return None, None

    def effective(view):
        """the callee's view expressed over the caller's variables"""
        base_param = view[1][1]
        cb, coff = caller_base(argmap.get(base_param, ("?",)))
        if cb is None:
            return None
        off = dict(coff)
        for m, c in view[2].items():
            # substitute callee parameters by caller arguments (simple variables or literals only)
            sub = {(): 1}
            for v in m:
                arg = argmap.get(v)
                if arg is None:
                    return None
                pa = T.poly(arg, _var_atom)
                nxt = {}
                for m1, c1 in sub.items():
                    for m2, c2 in pa.items():
                        mm = tuple(sorted(m1 + m2))
                        nxt[mm] = nxt.get(mm, 0) + c1 * c2
                sub = nxt
            for m2, c2 in sub.items():
                off[m2] = off.get(m2, 0) + c * c2
        stride = view[3]
        if stride[0] == "var" and stride[1] in argmap:
            stride = argmap[stride[1]]
        return cb, {m: c for m, c in off.items() if c}, stride
    ed, ee = effective(gv[1]), effective(gv[2])
    want_off = {(bv,): 1}
    obs.append(Ob(r, "arg:data", ed is not None and ed[0] == "data" and ed[1] == want_off,
                  "block b reads/corrects the data codewords b, b+B, b+2B, ... (effective view of decode_gen over decode's `data`: offset %s)" % (sorted(ed[1].items()) if ed else None), detail=T.sx_show(a[0])))
    obs.append(Ob(r, "arg:error", ee is not None and ee[0] == "error" and ee[1] == want_off,
                  "block b reads/corrects the error codewords b, b+B, ... (effective offset %s)" % (sorted(ee[1].items()) if ee else None), detail=T.sx_show(a[1])))
    obs.append(Ob(r, "arg:stride", ed is not None and ee is not None and is_setup_field(ed[2], "num_ecc_blocks") and is_setup_field(ee[2], "num_ecc_blocks"),
                  "both views step by block_setup(size).num_ecc_blocks", detail=T.sx_show(ed[2]) if ed else None))
    el = argmap.get("err_len")
    obs.append(Ob(r, "arg:err_len", el is not None and is_setup_field(el, "num_ecc_per_block"), "err_len = block_setup(size).num_ecc_per_block", detail=T.sx_show(el) if el else None))
    obs += floor(obs, r, 7, "decoder wiring obligations")
    return obs


def _gather_scatter_shape(ctx):
    r = "GATHER-SCATTER"
    f = ctx.facts()
    need(DGEN in f.thir, r, DGEN)
    b = f.thir[DGEN]
    lets = {"__noinline__": True}
    sts = T.stmts(b["body"], lets)
    obs = []
    # simple pure lets for n, n_data, n_error
    pure = {}
    for s in sts:
        if s[0] == "let" and not s[2]:
            pure[s[1].split("#")[0]] = s[3]

    def expand(e, depth=6):
        if depth == 0:
            return e
        if e[0] == "var" and e[1] in pure:
            return expand(pure[e[1]], depth - 1)
        if e[0] == "bin":
            return ("bin", e[1], expand(e[2], depth - 1), expand(e[3], depth - 1))
        if e[0] == "call" and e[1].startswith("errorcode::"):
            e2 = T.inline_pure_helper(f, e)
            if e2 is not e:
                return expand(e2, depth - 1)
        return e

    def latom(x):
        if x[0] == "call" and x[1].endswith("::len") and strip_into_iter(x[2][0])[0] == "var":
            return "LEN:" + strip_into_iter(x[2][0])[1]
        if x[0] == "var":
            return x[1]
        return None

    def is_ceil_len(e, base, off=None):
        """number of elements of the strided view over `base` starting at offset `off`:
        (len(base) - off + stride - 1) / stride   or   (len(base) - off).div_ceil(stride)"""
        e = expand(e)
        want = {("LEN:" + base,): 1}
        for m, c in (off or {}).items():
            want[m] = want.get(m, 0) - c
        want = {m: c for m, c in want.items() if c}
        if e[0] == "call" and e[1].endswith("div_ceil") and is_var(e[2][1], "stride"):
            return T.poly(e[2][0], latom) == want
        if e[0] == "bin" and e[1] == "Div" and is_var(e[3], "stride"):
            w2 = dict(want)
            w2[("stride",)] = w2.get(("stride",), 0) + 1
            w2[()] = w2.get((), 0) - 1
            return T.poly(e[2], latom) == {m: c for m, c in w2.items() if c}
        return False

    # the syndrome view
    views = [s[3] for s in sts if s[0] == "let" and _norm_view(s[3], f) is not None]
    need(views, r, DGEN, "(strided codeword view)")
    ref_view = _norm_view(views[0], f)
    off_d, off_e = dict(ref_view[1][2]), dict(ref_view[2][2])

    def is_n(e):
        e = expand(e)
        return e[0] == "bin" and e[1] == "Add" and ((is_ceil_len(e[2], "data", off_d) and is_ceil_len(e[3], "error", off_e)) or (is_ceil_len(e[3], "data", off_d) and is_ceil_len(e[2], "error", off_e)))
    # correction loop: the for loop that stores into data/error
    corr = None
    for s in sts:
        if s[0] == "for":
            inner = list(T.stmt_walk(s[3]))
            if any(st[0] == "assign" for st in inner) and any(_mutates_words(e) or any(x[0] == "index" and (is_var(x[1], "data") or is_var(x[1], "error")) for x in T.sx_walk(e))
                                                               for st in inner for e in T.stmt_exprs(st)):
                corr = s
    need(corr is not None, r, DGEN, "(correction loop)")
    site = corr[4]
    inner = corr[3]
    ilets = {st[1].split("#")[0]: st[3] for st in inner if st[0] == "let"}
    pure.update({st[1].split("#")[0]: st[3] for st in inner if st[0] == "let" and not st[2]})
    # `let mut it = <view>; it.nth(k)`: an iterator that is bound mutably only to be advanced once
    once = {st[1].split("#")[0]: st[3] for st in inner if st[0] == "let" and st[2] and T._count_var(inner, st[1]) == 1}
    # location variable
    loc_ok = False
    ivar = None
    for name, e in ilets.items():
        if e[0] == "call" and e[1].endswith("GF::log"):
            ivar = name
            loc_ok = True
    obs.append(Ob(r, "location", loc_ok, "the error position is the discrete log of the locator root", site=site))
    # range rejection: if i >= n { return Err }
    rej = False
    for st in inner:
        if st[0] == "if" and st[1][0] == "bin":
            op, l, rr = st[1][1], expand(st[1][2]), st[1][3]
            if ((op == "Ge" and (l[0] == "call" and l[1].endswith("GF::log")) and is_n(rr)) or (op == "Le" and is_n(st[1][2]) and expand(rr)[0] == "call")) \
                    and any(x[0] == "return" and _is_err(x[1]) for x in st[2]):
                rej = True
    obs.append(Ob(r, "range-reject", rej, "locations i >= n (outside the shortened code) are rejected with an error before the store", site=site))
    # the store
    stores = [st for st in T.stmt_walk(inner) if st[0] == "assign"]
    ok = False
    form = None
    det = None
    if len(stores) == 1 and is_var(stores[0][1], "codeword") or (len(stores) == 1 and stores[0][1][0] == "var"):
        tgt = stores[0][1][1]
        src = ilets.get(tgt)
        if src is not None:
            nth = [x for x in T.sx_walk(src) if x[0] == "call" and x[1].endswith("::nth")]
            if len(nth) == 1:
                recv = nth[0][2][0]
                if recv[0] == "var" and recv[1] in once:
                    recv = once[recv[1]]
                v = _norm_view(recv, f)
                idx = expand(nth[0][2][1])
                det = {"view": T.sx_show(nth[0][2][0], 200), "index": T.sx_show(idx, 200)}
                same_view = v is not None and ref_view is not None and v == ref_view
                # index = n - i - 1
                okidx = idx[0] == "bin" and idx[1] == "Sub" and idx[3] == ("lit", 1) and idx[2][0] == "bin" and idx[2][1] == "Sub" and is_n(idx[2][2]) \
                    and (expand(idx[2][3])[0] == "call" and expand(idx[2][3])[1].endswith("GF::log"))
                ok = same_view and okidx
                form = "strided chain .nth(n - i - 1)"
    elif len(stores) == 2:
        form = "two indexed stores"
        det = [T.sx_show(st[1], 160) for st in stores]
        ok = False  # indexed form: position*stride into data, (position - n_data)*stride into error
        def idx_of(st, base):
            x = st[1]
            if x[0] == "index" and is_var(x[1], base):
                return x[2]
            return None
        d = [idx_of(st, "data") for st in stores]
        e = [idx_of(st, "error") for st in stores]
        di = next((x for x in d if x is not None), None)
        ei = next((x for x in e if x is not None), None)
        if di is not None and ei is not None:
            def is_pos(x):
                x = expand(x)
                return x[0] == "bin" and x[1] == "Sub" and x[3] == ("lit", 1) and x[2][0] == "bin" and x[2][1] == "Sub" and is_n(x[2][2])
            dx, ex = expand(di), expand(ei)
            okd = dx[0] == "bin" and dx[1] == "Mul" and ((is_pos(dx[2]) and is_var(dx[3], "stride")) or (is_pos(dx[3]) and is_var(dx[2], "stride")))
            oke = ex[0] == "bin" and ex[1] == "Mul" and is_var(ex[3], "stride") and ex[2][0] == "bin" and ex[2][1] == "Sub" and is_pos(ex[2][2]) and is_ceil_len(ex[2][3], "data", off_d)
            ok = okd and oke
    obs.append(Ob(r, "store-address", ok,
                  "the corrected codeword is addressed exactly like the word whose syndromes were computed "
                  "(same data/error strided chain, position n-i-1; or data[p*stride] / error[(p-n_data)*stride])%s" % ("" if ok else "; found: %s" % form),
                  site=site, detail=det))
    # the word length n: whatever it is called, it is the bound of the range rejection, and it is the sum of the two view lengths
    nvars = [k for k in pure if is_n(("var", k, None))]
    obs.append(Ob(r, "n", bool(nvars) and rej, "n = number of elements of the data view + number of elements of the error view (ceil((len - offset) / stride) each), and it is the bound of the range rejection",
                  detail=[T.sx_show(expand(("var", k, None)), 200) for k in nvars] or None))
    obs += floor(obs, r, 4, "gather/scatter obligations")
    return obs


# ---- exhaustive root search -----------------------------------------------------------------------

CHIEN = "errorcode::decoding::chien_search"


FUSED = {}      # id(loop statement) -> accumulator name, for scale loops that also sum (see scale_stmt)


def scale_stmt(f, stl, var):
    """index of the top-level statement of `stl` that multiplies every entry of `var` by its power of the primitive
    element - `for (g, a) in var.iter_mut().zip(GF::primitive_powers()) { *g *= a }`, or a call of a private helper whose
    whole body is that loop; None if there is not exactly one"""
    def is_loop(st, v):
        if not (st[0] == "for" and any(is_var(x, v) for x in T.sx_walk(st[2])) and bool(T.sx_calls(st[2], "GF::primitive_powers"))
                and bool(T.sx_calls(st[2], "iter_mut")) and bool(T.sx_calls(st[2], "Iterator::zip"))
                and not any(T.sx_calls(st[2], "Iterator::" + q) for q in ("skip", "take", "filter", "step_by", "rev"))):
            return False
        body = st[3]
        if not (body and body[0][0] == "expr" and body[0][1][0] == "call" and body[0][1][1].endswith("mul_assign")):
            return False
        if len(body) == 1:
            return True
        # fused form: the freshly scaled term is also added to an accumulator in the same pass
        if len(body) == 2 and body[1][0] == "expr" and body[1][1][0] == "call" and body[1][1][1].endswith("add_assign") and body[1][1][2][0][0] == "var" \
                and len(st[1]) == 2 and is_var(body[1][1][2][1], st[1][0].split("#")[0]) and is_var(body[0][1][2][0], st[1][0].split("#")[0]):
            FUSED[id(st)] = body[1][1][2][0][1]
            return True
        return False
    hits = []
    for k, st in enumerate(stl):
        if is_loop(st, var):
            hits.append(k)
        elif st[0] == "expr" and st[1][0] == "call" and st[1][1].startswith("errorcode::") and len(st[1][2]) == 1 and any(is_var(x, var) for x in T.sx_walk(st[1][2][0])):
            hn = next((n for n in f.thir if T.canon(n) == st[1][1]), None)
            if hn and f.thir[hn]["params"] and f.thir[hn]["params"][0].get("pat", {}).get("k") == "Bind":
                hs = T.stmts(f.thir[hn]["body"], {"__noinline__": True})
                hp = f.thir[hn]["params"][0]["pat"]["name"].split("#")[0]
                if len(hs) == 1 and is_loop(hs[0], hp):
                    hits.append(k)
    return hits[0] if len(hits) == 1 else None


def _root_cover_shape(ctx):
    """ROOT-COVER: chien_search tries every non-zero field element.  The error locator's roots are found by exhaustive
    evaluation; a root that is never tried makes decode_gen report Malfunction for a correctable word (an error at the
    position whose locator is the skipped power).  Structural clauses: the search loop runs over exactly the 255 exponents
    0..=254, every iteration tests the running sum against zero and records primitive_power(i), and the per-coefficient
    scaling runs in every iteration (no `continue`/`break`, no condition around it), over all coefficients."""
    r = "ROOT-COVER"
    f = ctx.facts()
    b = f.thir.get(CHIEN)
    need(b, r, CHIEN)
    sts = T.stmts(b["body"], {"__noinline__": True})
    site = T.span_str(b["span"])
    obs = []
    # the coefficient vector: all of `c`, reversed or not, converted - no skip/take/filter/step_by
    cparam = b["params"][0]["pat"]["name"].split("#")[0] if b["params"] and b["params"][0].get("pat", {}).get("k") == "Bind" else None
    need(cparam, r, CHIEN, "(coefficient parameter)")
    allst = list(T.stmt_walk(sts))
    gl = [s for s in allst if s[0] == "let" and s[2] and T.sx_calls(s[3], "Iterator::collect") and any(is_var(x, cparam) for x in T.sx_walk(s[3]))]
    ok = len(gl) == 1 and not any(T.sx_calls(gl[0][3], "Iterator::" + a) for a in ("skip", "take", "filter", "step_by", "skip_while", "take_while"))
    obs.append(Ob(r, "all-coefficients", ok, "the search evaluates the polynomial with every coefficient of its argument", site=site, detail=T.sx_show(gl[0][3], 200) if gl else None))
    gname = gl[0][1].split("#")[0] if gl else None
    loops = [s for s in allst if s[0] == "for" and gname and not any(is_var(x, gname) for x in T.sx_walk(s[2]))
             and any(any(is_var(x, gname) for e in T.stmt_exprs(st) for x in T.sx_walk(e)) for st in T.stmt_walk(s[3]))]
    need(len(loops) == 1, r, CHIEN, "(the search loop)")
    lp = loops[0]
    it = strip_into_iter(lp[2])
    lo = hi = None
    if it[0] == "call" and it[1].endswith("RangeInclusive::new") and len(it[2]) == 2 and it[2][0][0] == "lit" and it[2][1][0] == "lit":
        lo, hi = it[2][0][1], it[2][1][1]
    else:
        rp = range_parts(it)
        if rp and rp[0][0] == "lit" and rp[1][0] == "lit":
            lo, hi = rp[0][1], rp[1][1] - 1
    by_powers = False
    if lo is None and it[0] == "call" and it[1].endswith("Iterator::take") and it[2][1] == ("lit", 255) and it[2][0][0] == "call" and it[2][0][1].endswith("GF::primitive_powers") and not it[2][0][2]:
        lo, hi, by_powers = 0, 254, True        # the first 255 powers of the primitive element = exponents 0..=254
    obs.append(Ob(r, "all-exponents", (lo, hi) == (0, 254), "the root search runs over the exponents 0..=254 - all 255 non-zero elements of GF(256) (found %s..=%s)" % (lo, hi), site=lp[4], detail=T.sx_show(lp[2])))
    iv = lp[1][0].split("#")[0] if len(lp[1]) == 1 else None
    body = lp[3]
    skips = [st for st in T.stmt_walk(body) if st[0] in ("continue", "break", "return")]
    obs.append(Ob(r, "no-skip", not skips, "no iteration of the search is cut short (no continue / break / return in the loop)", detail=[st[0] for st in skips]))
    # the test: sum of the running terms == 0 -> push primitive_power(i)
    lets = {s[1].split("#")[0]: s[3] for s in body if s[0] == "let" and not s[2]}
    tests = [st for st in body if st[0] == "if" and isinstance(st[1], tuple) and st[1][0] != "iflet"]
    okt = False
    det = None
    for st in tests:
        c = st[1]
        if c[0] == "call" and c[1].endswith("::eq") and len(c[2]) == 2:
            a, z = c[2]
            a = T.look_through(a, lets)
            is_sum = a[0] == "call" and a[1].endswith("Iterator::sum") and any(is_var(x, gname) for x in T.sx_walk(a)) \
                and not any(T.sx_calls(a, "Iterator::" + q) for q in ("skip", "take", "filter", "step_by"))
            is_zero = z[0] == "adt" and z[1].endswith("galois::GF") and len(z[3]) == 1 and z[3][0][1] == ("lit", 0)
            pushes = [x for s2 in st[2] for e in T.stmt_exprs(s2) for x in T.sx_calls(e, "Vec::push")]
            okp = len(pushes) == 1 and not st[3] and (
                (pushes[0][2][1][0] == "call" and pushes[0][2][1][1].endswith("GF::primitive_power") and is_var(pushes[0][2][1][2][0], iv) and not by_powers)
                or (by_powers and is_var(pushes[0][2][1], iv)))
            det = T.sx_show(c, 160)
            if is_sum and is_zero and okp:
                okt = True
    obs.append(Ob(r, "root-test", okt, "every exponent i whose evaluation sums to zero is recorded as the root primitive_power(i)", detail=det))
    # the scaling of the running terms: a top-level statement of the loop body, over all of gamma
    oks = scale_stmt(f, body, gname) is not None
    obs.append(Ob(r, "advance", oks, "after every test each running term is multiplied by its power of the primitive element (all coefficients, every iteration)"))
    obs += floor(obs, r, 5, "root search obligations")
    return obs


# ---- PROV-RSENC by symbolic execution ----------------------------------------------------------------

def rsenc_exec(ctx, sizes=None):
    """encode_error folded for every symbol size with opaque data codewords d0, d1, .. and an opaque block encoder: which
    codewords each block is fed, with which generator, on what scratch register, and where its error codewords end up in
    the result.  The wiring does not depend on codeword values, so one run per size decides all inputs.  (ok, detail)"""
    f = ctx.facts()
    b = f.thir.get(ENC)
    if b is None:
        return False, "encode_error not found"
    t = p_symbols.tables(ctx)
    pn = [p_["pat"]["name"] for p_ in b["params"] if p_.get("pat", {}).get("k") == "Bind"]
    if len(pn) != 2:
        return None, "unexpected parameters"
    n = 0
    for v in (sizes or t["variants"]):
        su, nd = t["setup"].get(v), t["data"].get(v)
        if not isinstance(su, dict) or not isinstance(nd, int):
            return False, "no tables for %s" % v
        B, k = su["num_ecc_blocks"], su["num_ecc_per_block"]
        calls = []

        def on_call(folder, c, calls=calls, su=su, nd=nd, k=k, v=v):
            cc = T.canon(T.callee_of(c))
            if cc == SS + "::block_setup":
                d = {"__adt__": "symbol_size::BlockSetup", "__variant__": "BlockSetup"}
                names = T.ADT_FIELDS.get("symbol_size::BlockSetup") or list(su)
                for i, nm in enumerate(names):
                    d[nm] = su.get(nm)
                    d["#%d" % i] = su.get(nm)
                return d
            if cc == SS + "::num_data_codewords":
                return nd
            if cc == GEN:
                return T.Token("gen%s" % folder.fold(c["args"][0]))
            if cc == ECCB:
                stream = folder.fold(c["args"][0])
                gen = folder.fold(c["args"][1])
                ecc = folder.fold(c["args"][2])
                if not isinstance(stream, list) or not isinstance(ecc, list):
                    raise T.Undecidable("ecc_block arguments do not fold to sequences")
                blk = len(calls)
                calls.append(([str(T._loaded(x)) for x in stream], str(gen), len(ecc), all(T._loaded(x) == 0 for x in ecc)))
                for j in range(len(ecc) - 1):
                    T.Ref(ecc, j).store(T.Token("b%de%d" % (blk, j)))
                return None
            return NotImplemented
        fo = T.Folder(f, env={pn[0]: [T.Token("d%d" % i) for i in range(nd)], pn[1]: v}, on_call=on_call, effects=True, local_calls=2)
        fo.max_iter = 5000
        fo.opaque_consts = True
        fo.views = True
        try:
            res = fo.run(b["body"])
        except T.Trap as ex:
            return False, "%s: encode_error traps: %s" % (v, ex)
        except T.Undecidable as ex:
            return None, "%s: encode_error does not fold: %s" % (v, ex)
        if len(calls) != B:
            return False, "%s: %d blocks are encoded, the size has %d" % (v, len(calls), B)
        for blk, (stream, gen, nreg, clean) in enumerate(calls):
            want = ["d%d" % i for i in range(blk, nd, B)]
            if stream != want:
                return False, "%s block %d is fed %d codewords %s.., expected the strided view %s.." % (v, blk, len(stream), stream[:4], want[:4])
            if gen != "gen%d" % k:
                return False, "%s block %d uses generator %s, expected gen%d" % (v, blk, gen, k)
            if nreg != k + 1 or not clean:
                return False, "%s block %d: scratch register of %d cells, zeroed: %s (expected %d zeroed cells)" % (v, blk, nreg, clean, k + 1)
        out = [str(T._loaded(x)) for x in res] if isinstance(res, list) else None
        want = ["b%de%d" % (p_ % B, p_ // B) for p_ in range(k * B)]
        if out != want:
            bad = next((i for i in range(min(len(out or []), len(want))) if out[i] != want[i]), None)
            return False, "%s: result has %s entries, position %s holds %s, expected %s (error codewords interleaved block by block)" % (
                v, len(out) if out is not None else "no", bad, out[bad] if out and bad is not None else None, want[bad] if bad is not None else len(want))
        n += 1
    return True, "%d symbol sizes: every block gets its strided data view, the size's generator and a zeroed k+1 register; results interleaved" % n


def rsdec_exec(ctx, sizes=None):
    """decode() folded for every symbol size with opaque codewords c0, c1, .. and an opaque syndrome evaluation that reports
    `all zero`: which codewords, in which order, each block's syndromes are computed from, and into how many syndrome cells.
    (The decoder leaves a block alone when its syndromes vanish, so every block is reached.)  (ok, detail)"""
    f = ctx.facts()
    b = f.thir.get(DEC)
    if b is None:
        return False, "decode not found"
    t = p_symbols.tables(ctx)
    pn = [p_["pat"]["name"] for p_ in b["params"] if p_.get("pat", {}).get("k") == "Bind"]
    if len(pn) != 2:
        return None, "unexpected parameters"
    n = 0
    for v in (sizes or t["variants"]):
        su, nd = t["setup"].get(v), t["data"].get(v)
        B, k = su["num_ecc_blocks"], su["num_ecc_per_block"]
        total = nd + B * k
        calls = []

        def on_call(folder, c, calls=calls, su=su, nd=nd):
            cc = T.canon(T.callee_of(c))
            if cc == SS + "::block_setup":
                d = {"__adt__": "symbol_size::BlockSetup", "__variant__": "BlockSetup"}
                names = T.ADT_FIELDS.get("symbol_size::BlockSetup") or list(su)
                for i, nm in enumerate(names):
                    d[nm] = su.get(nm)
                    d["#%d" % i] = su.get(nm)
                return d
            if cc == SS + "::num_data_codewords":
                return nd
            if cc == PEE:
                word = folder.fold(c["args"][0])
                syn = folder.fold(c["args"][1])
                if not isinstance(word, list) or not isinstance(syn, list):
                    raise T.Undecidable("syndrome evaluation arguments do not fold to sequences")
                calls.append(([str(T._loaded(x)) for x in word], len(syn)))
                return False
            if cc.endswith("split_at_mut") and len(c["args"]) == 2:
                v0 = T._loaded(folder.fold(c["args"][0]))
                m = folder.fold(c["args"][1])
                if isinstance(v0, list) and isinstance(m, int) and 0 <= m <= len(v0):
                    return ([x if isinstance(x, T.Ref) else T.Ref(v0, i) for i, x in enumerate(v0)][:m], [x if isinstance(x, T.Ref) else T.Ref(v0, i) for i, x in enumerate(v0)][m:])
            return NotImplemented
        fo = T.Folder(f, env={pn[0]: [T.Token("c%d" % i) for i in range(total)], pn[1]: v}, on_call=on_call, effects=True, local_calls=3)
        fo.views = True
        fo.max_iter = 5000
        fo.opaque_consts = True
        try:
            res = fo.run(b["body"])
        except T.Trap as ex:
            return False, "%s: decode traps on an error-free word: %s" % (v, ex)
        except T.Undecidable as ex:
            return None, "%s: decode does not fold: %s" % (v, ex)
        if not (isinstance(res, dict) and res.get("__variant__") == "Ok"):
            return False, "%s: an error-free word is not accepted (%r)" % (v, res.get("__variant__") if isinstance(res, dict) else res)
        if len(calls) != B:
            return False, "%s: syndromes are computed for %d blocks, the size has %d" % (v, len(calls), B)
        for blk, (word, nsyn) in enumerate(calls):
            want = ["c%d" % i for i in range(blk, nd, B)] + ["c%d" % i for i in range(nd + blk, total, B)]
            if word != want:
                bad = next((i for i in range(min(len(word), len(want))) if word[i] != want[i]), min(len(word), len(want)))
                return False, "%s block %d: the syndromes are computed from %d codewords (%s at position %d), expected the interleaved block of %d (%s there)" % (
                    v, blk, len(word), word[bad] if bad < len(word) else None, bad, len(want), want[bad] if bad < len(want) else None)
            if nsyn != k:
                return False, "%s block %d: %d syndromes, the size has %d error codewords per block" % (v, blk, nsyn, k)
        n += 1
    return True, "%d symbol sizes: block b's syndromes come from data[b], data[b+B], .. followed by error[b], error[b+B], .. into k cells, for every block" % n


# ---- LFSR: ecc_block folded over GF(256)-linear forms ---------------------------------------------------------------------

class Lin:
    """a GF(256)-linear form over opaque data codewords: {token name: coefficient} (key None: constant part)"""
    __slots__ = ("t",)

    def __init__(self, t):
        self.t = t

    def __repr__(self):
        return "Lin(%d terms)" % len(self.t)


def _lin(v):
    v = T._loaded(v)
    if isinstance(v, Lin):
        return v
    if isinstance(v, T.Token):
        return Lin({str(v): 1})
    if isinstance(v, bool) or not isinstance(v, int):
        raise T.Undecidable("not a field element")
    return Lin({None: v} if v else {})


def _lin_add(a, b):
    out = dict(a.t)
    for k0, c in b.t.items():
        c2 = out.get(k0, 0) ^ c
        if c2:
            out[k0] = c2
        else:
            out.pop(k0, None)
    return Lin(out)


def _lin_scale(a, c):
    if c == 0:
        return Lin({})
    return Lin({k0: gf.mul(v, c) for k0, v in a.t.items()})


def lfsr_exec(ctx, pairs=None):
    """ecc_block folded with opaque data codewords: GF additions and multiplications by constants are carried out on GF(256)-linear
    forms (the reference field; GF-OPS shows the crate's field operations equal it), so the register content at the end is the exact
    linear map the code computes.  It must be the remainder of d(x) * x^k modulo the generator polynomial, highest power first,
    for every (block length, k) that occurs in a symbol size.  A product of two data-dependent values would make the map
    non-linear and is reported.  (ok | None, detail)"""
    if pairs is None:
        return ctx.memo("lfsr_exec_" + ctx.tier, lambda: list(_lfsr_exec(ctx, None)))
    return _lfsr_exec(ctx, pairs)


def _lfsr_exec(ctx, pairs):
    f = ctx.facts()
    b = f.thir.get(ECCB)
    if b is None:
        return None, "ecc_block not found"
    pn = [p_["pat"]["name"] for p_ in b["params"] if p_.get("pat", {}).get("k") == "Bind"]
    if len(pn) != 3:
        return None, "ecc_block(data, g, ecc): unexpected parameters"
    polys = f.const("errorcode::GENERATOR_POLYNOMIALS")
    if polys is None:
        return None, "GENERATOR_POLYNOMIALS not found"
    if pairs is None:
        ref = p_symbols.reference()
        pairs = set()
        for row in ref:
            B, nd, k = row["blocks"], row["data"], row["ecc_per_block"]
            for blk in range(B):
                pairs.add((len(range(blk, nd, B)), k))
        pairs = sorted(pairs)
        if ctx.tier != "thorough":
            # the recurrence has no size-dependent branch (UNIFORM): the quick tier folds every k with its shortest block
            # and all small blocks
            short = {}
            for n, k in pairs:
                short[k] = min(short.get(k, n), n)
            pairs = [(n, k) for n, k in pairs if n * n * k <= 150000 or short[k] == n]

    def gfval(v):
        v = T._loaded(v)
        if isinstance(v, dict) and "#0" in v:
            return T._loaded(v["#0"])
        return v

    def wrap(x):
        if isinstance(x, Lin) and set(x.t) <= {None}:
            x = x.t.get(None, 0)
        return {"__adt__": GFT, "__variant__": "GF", "#0": x, "0": x}

    def on_call(folder, c):
        cc = T.callee_of(c)
        if cc.split("::")[-1] in ("into", "from") and len(c["args"]) == 1 and c.get("ty") == "u8":
            x = T._loaded(folder.fold(c["args"][0]))
            if isinstance(x, dict) and x.get("__adt__") == GFT and isinstance(T._loaded(x.get("#0")), (Lin, T.Token)):
                return T._loaded(x["#0"])      # u8::from(GF) is the field element's byte (galois.rs)
            return NotImplemented
        if GFT in cc and (" as core::ops::Add" in cc or " as core::ops::Sub" in cc or " as core::ops::Mul" in cc or " as core::ops::AddAssign" in cc) and len(c["args"]) == 2:
            x, y = gfval(folder.fold(c["args"][0])), gfval(folder.fold(c["args"][1]))
            if not (isinstance(x, (Lin, T.Token)) or isinstance(y, (Lin, T.Token))):
                return NotImplemented
            if "AddAssign" in cc:
                raise T.Undecidable("in-place field addition on a data-dependent value")
            if " as core::ops::Mul" in cc:
                if "Mul<usize>" in cc or "Mul<u" in cc or "Mul<i" in cc:
                    raise T.Undecidable("scalar multiple of a data-dependent value")
                if isinstance(x, (Lin, T.Token)) and isinstance(y, (Lin, T.Token)):
                    lx, ly = _lin(x), _lin(y)
                    if set(lx.t) <= {None}:
                        return wrap(_lin_scale(ly, lx.t.get(None, 0)))
                    if set(ly.t) <= {None}:
                        return wrap(_lin_scale(lx, ly.t.get(None, 0)))
                    raise T.Trap("product of two data-dependent values (the map is not linear) at " + T.span_str(c["span"]))
                if isinstance(x, (Lin, T.Token)):
                    return wrap(_lin_scale(_lin(x), y))
                return wrap(_lin_scale(_lin(y), x))
            return wrap(_lin_add(_lin(x), _lin(y)))
        return NotImplemented
    n_pairs = 0
    for n, k in pairs:
        g = next((list(p_) for p_ in polys if len(p_) - 1 == k), None)
        if g is None:
            return False, "no generator polynomial of degree %d" % k
        data = [T.Token("d%d" % i) for i in range(n)]
        ecc = [0] * (k + 1)
        fo = T.Folder(f, env={pn[0]: data, pn[1]: g, pn[2]: ecc}, on_call=on_call, effects=True, local_calls=2)
        fo.max_iter = 100000
        try:
            fo.run(b["body"])
        except T.Trap as ex:
            return False, "block of %d data codewords, k = %d: %s" % (n, k, ex)
        except T.Undecidable as ex:
            return None, "ecc_block does not fold on linear forms (%s)" % ex
        # reference: remainder of x^(n-1-p) * x^k modulo the standard's generator, highest power first
        gs = gf.generator(k)
        want = [dict() for _ in range(k)]
        r = list(gs[1:])
        for p_ in range(n - 1, -1, -1):
            for j in range(k):
                if r[j]:
                    want[j]["d%d" % p_] = r[j]
            lead = r[0]
            r = [(r[j + 1] if j + 1 < k else 0) ^ gf.mul(lead, gs[j + 1]) for j in range(k)]
        for j in range(k):
            got = T._loaded(ecc[j])
            got = _lin(got).t if not isinstance(got, Lin) else got.t
            if got != want[j]:
                diff = next((t0 for t0 in sorted(set(got) | set(want[j]), key=str) if got.get(t0, 0) != want[j].get(t0, 0)), None)
                return False, "block of %d data codewords, k = %d: error codeword %d has coefficient %s for %s, the remainder of d(x) x^k mod g(x) has %s" % (
                    n, k, j, got.get(diff, 0), "the constant term" if diff is None else "data codeword " + str(diff)[1:], want[j].get(diff, 0))
        n_pairs += 1
    return True, "%d (block length, k) combinations: the register ends as the remainder of d(x) x^k modulo the generator, for every data block" % n_pairs


def lfsr(ctx):
    r = "LFSR"
    f = ctx.facts()
    ok, det = lfsr_exec(ctx)
    site = T.span_str(f.thir[ECCB]["span"]) if ECCB in f.thir else None
    return [Ob(r, "remainder", bool(ok), ("cannot decide: " if ok is None else "") + "ecc_block computes the Reed-Solomon check codewords: " + str(det), site=site)]


def _gf_hooks():
    """on_call model of the crate's GF operators for data-dependent operands (linear forms); constant operands are left to the
    crate's own code"""
    def gfval(v):
        v = T._loaded(v)
        if isinstance(v, dict) and "#0" in v:
            return T._loaded(v["#0"])
        return v

    def wrap(x):
        if isinstance(x, Lin) and set(x.t) <= {None}:
            x = x.t.get(None, 0)
        return {"__adt__": GFT, "__variant__": "GF", "#0": x, "0": x}

    def on_call(folder, c):
        cc = T.callee_of(c)
        last = cc.split("::")[-1]
        if last in ("into", "from") and len(c["args"]) == 1:
            x = T._loaded(folder.fold(c["args"][0]))
            if isinstance(x, dict) and x.get("__adt__") == GFT and isinstance(T._loaded(x.get("#0")), (Lin, T.Token)) and c.get("ty") in ("u8", "?"):
                return T._loaded(x["#0"])
            if isinstance(x, T.Token):
                return wrap(x)              # GF::from(u8)
            if isinstance(x, dict) and x.get("__adt__") == GFT and str(c.get("ty", "")).endswith("galois::GF"):
                return x                    # T = GF: the identity conversion
            return NotImplemented
        if GFT in cc and (" as core::ops::AddAssign" in cc or " as core::ops::SubAssign" in cc or " as core::ops::MulAssign" in cc) and len(c["args"]) == 2:
            tgt = folder.fold(c["args"][0])
            cell = T._loaded(tgt)
            x, y = gfval(cell), gfval(folder.fold(c["args"][1]))
            if not (isinstance(x, (Lin, T.Token)) or isinstance(y, (Lin, T.Token))):
                return NotImplemented
            if "MulAssign" in cc:
                lx, ly = _lin(x), _lin(y)
                if set(ly.t) <= {None}:
                    res = _lin_scale(lx, ly.t.get(None, 0))
                elif set(lx.t) <= {None}:
                    res = _lin_scale(ly, lx.t.get(None, 0))
                else:
                    raise T.Trap("product of two data-dependent values (the map is not linear) at " + T.span_str(c["span"]))
            else:
                res = _lin_add(_lin(x), _lin(y))
            new = wrap(res)
            if isinstance(tgt, T.Ref):
                tgt.store(new)
            elif isinstance(cell, dict):
                cell.clear()
                cell.update(new)
            else:
                raise T.Undecidable("in-place field operation on an unknown place")
            return ()
        if GFT in cc and (" as core::ops::Add" in cc or " as core::ops::Sub" in cc or " as core::ops::Mul" in cc) and "Assign" not in cc and len(c["args"]) == 2:
            x, y = gfval(folder.fold(c["args"][0])), gfval(folder.fold(c["args"][1]))
            if not (isinstance(x, (Lin, T.Token)) or isinstance(y, (Lin, T.Token))):
                return NotImplemented
            if " as core::ops::Mul" in cc:
                if "Mul<u" in cc or "Mul<i" in cc:
                    raise T.Undecidable("scalar multiple of a data-dependent value")
                if isinstance(x, (Lin, T.Token)) and isinstance(y, (Lin, T.Token)):
                    lx, ly = _lin(x), _lin(y)
                    if set(lx.t) <= {None}:
                        return wrap(_lin_scale(ly, lx.t.get(None, 0)))
                    if set(ly.t) <= {None}:
                        return wrap(_lin_scale(lx, ly.t.get(None, 0)))
                    raise T.Trap("product of two data-dependent values (the map is not linear) at " + T.span_str(c["span"]))
                if isinstance(x, (Lin, T.Token)):
                    return wrap(_lin_scale(_lin(x), y))
                return wrap(_lin_scale(_lin(y), x))
            return wrap(_lin_add(_lin(x), _lin(y)))
        return NotImplemented
    return on_call


def pee_exec(ctx):
    """primitive_element_evaluation folded with opaque codewords (linear forms, as lfsr_exec): cell i of `out` must end as
    c(alpha^(i+1)) = sum_j c_j alpha^((i+1)(n-1-j)) for the word c_0 .. c_(n-1) (first codeword = highest power), for every
    (block length, number of syndromes) of a symbol size.  (ok | None, detail)"""
    return ctx.memo("pee_exec_" + ctx.tier, lambda: list(_pee_exec(ctx)))


def _pee_exec(ctx):
    f = ctx.facts()
    b = f.thir.get(PEE)
    if b is None:
        return None, "primitive_element_evaluation not found"
    pn = [p_["pat"]["name"] for p_ in b["params"] if p_.get("pat", {}).get("k") == "Bind"]
    if len(pn) != 2:
        return None, "primitive_element_evaluation(c, out): unexpected parameters"
    pairs = set()
    for row in p_symbols.reference():
        B, nd, k = row["blocks"], row["data"], row["ecc_per_block"]
        for blk in range(B):
            pairs.add((len(range(blk, nd, B)) + k, k))
    if ctx.tier != "thorough":
        # the evaluation loop has no length-dependent branch: the quick tier folds the words of the small symbol sizes, thorough all
        pairs = {(n, k) for n, k in pairs if n * k <= 2500}
    n_pairs = 0
    for n, k in sorted(pairs):
        word = [T.Token("c%d" % i) for i in range(n)]
        out = [{"__adt__": GFT, "__variant__": "GF", "#0": 0, "0": 0} for _ in range(k)]
        fo = T.Folder(f, env={pn[0]: word, pn[1]: out}, on_call=_gf_hooks(), effects=True, local_calls=3)
        fo.max_iter = 100000
        fo.sym_eq = lambda a_, b_: True
        try:
            flag = fo.run(b["body"])
        except T.Trap as ex:
            return False, "word of %d codewords, %d syndromes: %s" % (n, k, ex)
        except T.Undecidable as ex:
            return None, "primitive_element_evaluation does not fold on linear forms (%s)" % ex
        # the returned flag: `false` must mean that every one of the k cells is zero (the OR over all cells)
        if not isinstance(flag, T.Sym):
            return False, "word of %d codewords, %d syndromes: the returned flag does not depend on the syndromes (%r)" % (n, k, flag)
        try:
            zero_tests = T.sym_required(flag.f, False)
        except T.Undecidable as ex:
            return False, "word of %d codewords, %d syndromes: `no errors` is not the conjunction `every cell is zero` (%s)" % (n, k, ex)
        if len(zero_tests) != k:
            return False, "word of %d codewords, %d syndromes: `no errors` is reported after looking at %d of the %d cells" % (n, k, len(zero_tests), k)
        for i in range(k):
            a = gf.pow2(i + 1)
            want = {}
            p = 1
            for j in range(n - 1, -1, -1):
                want["c%d" % j] = p
                p = gf.mul(p, a)
            cell = T._loaded(out[i])
            got = T._loaded(cell.get("#0")) if isinstance(cell, dict) else cell
            got = (got.t if isinstance(got, Lin) else _lin(got).t)
            if got != want:
                diff = next((t0 for t0 in sorted(set(got) | set(want), key=str) if got.get(t0, 0) != want.get(t0, 0)), None)
                return False, "word of %d codewords: syndrome %d has coefficient %s for %s, c(alpha^%d) has %s" % (
                    n, i, got.get(diff, 0), "the constant term" if diff is None else "codeword " + str(diff)[1:], i + 1, want.get(diff, 0))
        n_pairs += 1
    return True, "%d (word length, syndrome count) combinations: cell i is the word's polynomial evaluated at alpha^(i+1), and the returned flag is false exactly when all cells are zero" % n_pairs


def syndromes(ctx):
    r = "SYNDROMES"
    f = ctx.facts()
    ok, det = pee_exec(ctx)
    site = T.span_str(f.thir[PEE]["span"]) if PEE in f.thir else None
    return [Ob(r, "evaluation", bool(ok), ("cannot decide: " if ok is None else "") + "primitive_element_evaluation computes the syndromes: " + str(det), site=site)]


# ---- decode_gen folded with model locator / error-value callbacks ----------------------------------------------------------

def gs_exec(ctx):
    """decode_gen folded on opaque block views (data d0.., error e0.., the stride and k of real symbol sizes) with a model
    locator: the syndrome evaluation reports errors, the locator / Chien search report one error at index i (counted from the
    end of the block's word, as the decoder does), the error-value routine reports the value E, the re-evaluation reports
    `clean` (or `not clean`).  For every i the store must hit exactly the codeword at position n-i-1 of the chain
    data[0], data[s], .. ++ error[0], error[s], .. with `codeword - E`, an index i >= n must be refused, both syndrome evaluations
    must run over that same chain with all k cells, and the result is Ok exactly when the re-evaluation is clean (and Ok without
    any store when the first evaluation is clean).  (ok | None, detail)"""
    return ctx.memo("gs_exec", lambda: list(_gs_exec(ctx)))


def _gs_exec(ctx):
    f = ctx.facts()
    b = f.thir.get(DGEN)
    if b is None or any((p_.get("pat") or {}).get("k") != "Bind" for p_ in b["params"]):
        return None, "decode_gen not found"
    # parameters by role: either (data, error, stride, err_len, locator, values) or a private struct bundling the two slices and
    # the stride, followed by (err_len, locator, values)
    pn = [p_["pat"]["name"] for p_ in b["params"]]
    bundle = None
    if len(pn) == 4:
        import re as _re
        ty = _re.sub(r"<.*>$", "", str(b["params"][0]["pat"].get("ty", "")).replace("&mut ", "").replace("&", "").strip())
        ad = f.adts.get(ty)
        if ad and ad.get("kind") == "Struct":
            fl = ad["variants"][0]["fieldtys"]
            fdata = [x["name"] for x in fl if "[u8]" in x["ty"] and "data" in x["name"]]
            ferr = [x["name"] for x in fl if "[u8]" in x["ty"] and "err" in x["name"]]
            fstr = [x["name"] for x in fl if x["ty"] == "usize"]
            if len(fl) == 3 and len(fdata) == 1 and len(ferr) == 1 and len(fstr) == 1:
                bundle = (ty, [x["name"] for x in fl], fdata[0], ferr[0], fstr[0])
        if bundle is None:
            return None, "decode_gen: unexpected parameters"
    elif len(pn) != 6:
        return None, "decode_gen(data, error, stride, err_len, locator, values): unexpected parameters"
    views = set()
    for row in p_symbols.reference():
        B, nd, k = row["blocks"], row["data"], row["ecc_per_block"]
        for blk in ({0, B - 1} if B > 1 else {0}):
            views.add((nd - blk, k * B - blk, B, k))
    views = sorted(views, key=lambda v: (v[0] + v[1], v))
    if ctx.tier != "thorough":
        views = [v for v in views if v[0] + v[1] <= 120] + [v for v in views if v[2] == 10]
    E = 0x5A
    alog = f.const("errorcode::galois::ANTI_LOG")
    if not alog:
        return None, "ANTI_LOG not found"
    gfh = _gf_hooks()
    n_cases = 0

    def gfv(x):
        return {"__adt__": GFT, "__variant__": "GF", "#0": x, "0": x}

    for (ld, le, s, k) in views:
        n_d, n_e = -(-ld // s), -(-le // s)
        n = n_d + n_e
        for mode in ("clean", "fix-ok", "fix-bad"):
            idxs = [None] if mode == "clean" else ([0, 1, n_e - 1, n_e, n - 1, n, n + 3] if mode == "fix-ok" else [1])
            for i in idxs:
                if i is not None and i > 254:
                    continue
                data = [T.Token("d%d" % j) for j in range(ld)]
                error = [T.Token("e%d" % j) for j in range(le)]
                chain0 = ["d%d" % j for j in range(0, ld, s)] + ["e%d" % j for j in range(0, le, s)]
                pee = []

                def on_call(folder, c, pee=pee, mode=mode, i=i):
                    cc = T.canon(T.callee_of(c))
                    if cc == PEE:
                        word = folder.fold(c["args"][0])
                        syn = T._loaded(folder.fold(c["args"][1]))
                        pee.append(([T._loaded(x) for x in word] if isinstance(word, list) else word, len(syn) if isinstance(syn, list) else None))
                        if len(pee) == 1:
                            return mode != "clean"
                        return mode == "fix-bad"
                    if cc == CHIEN:
                        return [gfv(alog[i])]
                    if cc == "HOOK::locator":
                        return {"__adt__": "core::result::Result", "__variant__": "Ok", "#0": [gfv(1), gfv(7)], "0": None}
                    if cc == "HOOK::values":
                        syn = T._loaded(folder.fold(c["args"][2]))
                        if isinstance(syn, list) and syn:
                            cell = syn[0]
                            if isinstance(cell, T.Ref):
                                cell.store(gfv(E))
                            elif isinstance(cell, dict):
                                cell.clear()
                                cell.update(gfv(E))
                            else:
                                syn[0] = gfv(E)
                        return ()
                    return gfh(folder, c)
                if bundle:
                    blk = {"__adt__": bundle[0], "__variant__": bundle[0].split("::")[-1]}
                    for fi, fnm in enumerate(bundle[1]):
                        val = data if fnm == bundle[2] else error if fnm == bundle[3] else s
                        blk[fnm] = val
                        blk["#%d" % fi] = val
                    env = {pn[0]: blk, pn[1]: k, pn[2]: {"__fn__": "HOOK::locator"}, pn[3]: {"__fn__": "HOOK::values"}}
                else:
                    env = {pn[0]: data, pn[1]: error, pn[2]: s, pn[3]: k, pn[4]: {"__fn__": "HOOK::locator"}, pn[5]: {"__fn__": "HOOK::values"}}
                fo = T.Folder(f, env=env, on_call=on_call, effects=True, local_calls=3)
                fo.max_iter = 5000
                try:
                    res = fo.run(b["body"])
                except T.Trap as ex:
                    return False, "views of %d data / %d error codewords, stride %d, k %d, error index %s: traps: %s" % (ld, le, s, k, i, ex)
                except T.Undecidable as ex:
                    return None, "decode_gen does not fold (%s)" % ex
                n_cases += 1
                kind = res.get("__variant__") if isinstance(res, dict) else None
                errv = (res.get("#0") or {}).get("__variant__") if kind == "Err" and isinstance(res.get("#0"), dict) else None
                where = "views of %d data / %d error codewords, stride %d, k %d" % (ld, le, s, k)

                def show(x):
                    x = T._loaded(x)
                    return str(x) if isinstance(x, T.Token) else ("+".join(sorted("%s*%s" % (c0, t0) if t0 is not None else str(c0) for t0, c0 in x.t.items())) if isinstance(x, Lin) else repr(x))
                cur = [show(x) for x in data] + [show(x) for x in error]
                orig = ["d%d" % j for j in range(ld)] + ["e%d" % j for j in range(le)]
                changed = [j for j in range(len(cur)) if cur[j] != orig[j]]
                if not pee or [str(x) for x in pee[0][0]] != chain0 or pee[0][1] != k:
                    return False, "%s: the syndromes are computed from %d codewords %s.. into %s cells, expected the chain %s.. into %d cells" % (
                        where, len(pee[0][0]) if pee else 0, [str(x) for x in (pee[0][0] if pee else [])][:3], pee[0][1] if pee else None, chain0[:3], k)
                if mode == "clean":
                    if kind != "Ok" or changed or len(pee) != 1:
                        return False, "%s: a clean block gives %s with %d codewords changed" % (where, kind, len(changed))
                    continue
                if i >= n:
                    if not (kind == "Err" and errv == "ErrorsOutsideRange") or changed:
                        return False, "%s: an error located at index %d (block length %d) gives %s(%s), %d codewords changed; expected Err(ErrorsOutsideRange)" % (where, i, n, kind, errv, len(changed))
                    continue
                pos = n - i - 1
                tok = chain0[pos]
                tgt = orig.index(tok)
                want = "1*%s+%d" % (tok, E)
                if changed != [tgt] or sorted(cur[tgt].split("+")) != sorted(want.split("+")):
                    return False, "%s: an error of value %d located at index %d must change chain position %d (%s) to %s - E; changed: %s" % (
                        where, E, i, pos, tok, tok, [(orig[j], cur[j]) for j in changed][:3])
                if len(pee) != 2 or [show(x) for x in pee[1][0]] != [cur[orig.index(t0)] for t0 in chain0] or pee[1][1] != k:
                    return False, "%s: after the correction the syndromes must be re-evaluated over the same chain and all %d cells (calls: %d, cells: %s)" % (where, k, len(pee), pee[1][1] if len(pee) > 1 else None)
                if mode == "fix-ok" and kind != "Ok":
                    return False, "%s: a corrected block whose re-evaluation is clean gives %s(%s)" % (where, kind, errv)
                if mode == "fix-bad" and kind != "Err":
                    return False, "%s: Ok is returned although the re-evaluated syndromes are not all zero" % where
    return True, "%d runs over %d block views: the store hits chain position n-i-1, out-of-range locations are refused, both evaluations use the whole chain and k cells, Ok iff the re-evaluation is clean" % (n_cases, len(views))


def _with_gs_fallback(ctx, rule, shape_fn, keys_decided, names):
    """run the statement-shape rule; obligations about decode_gen that it cannot establish (or its anchors missing) are decided by
    folding decode_gen with model callbacks (gs_exec); in the thorough tier the fold is reported as well"""
    from .core import AnchorMissing
    try:
        obs = shape_fn(ctx)
    except (AnchorMissing, KeyError, IndexError, TypeError) as ex:
        obs = [Ob(rule, k0, False, "%s - statement shape not recognised (%s)" % (w0, str(ex)[:80])) for k0, w0 in names]
    failed = [o for o in obs if not o.ok and keys_decided(o.key.split(":", 1)[1])]
    if not failed and ctx.tier != "thorough" and all(o.ok for o in obs):
        return obs
    okx, detx = gs_exec(ctx)
    out = []
    for o in obs:
        k1 = o.key.split(":", 1)[1]
        if not o.ok and k1 in ("pee-or", "pee-points"):
            okp, detp = pee_exec(ctx)
            if okp:
                out.append(Ob(rule, k1, True, o.what + " (decided by folding primitive_element_evaluation over linear forms: " + str(detp) + ")", site=o.site))
                continue
        if not o.ok and k1 == "decode-all-blocks":
            okd, detd = rsdec_exec(ctx)
            oke, dete = errprop_exec(ctx)
            detd = str(detd) + "; " + str(dete)
            if okd and oke:
                out.append(Ob(rule, k1, True, o.what + " (decided by folding decode() for all 48 sizes: " + str(detd) + ")", site=o.site))
                continue
        if o in failed and okx:
            out.append(Ob(rule, o.key.split(":", 1)[1], True, o.what + " (statement shape not recognised; decided by folding decode_gen with a model locator: " + str(detx) + ")", site=o.site))
        else:
            out.append(o)
    if ctx.tier == "thorough" or failed:
        out.append(Ob(rule, "exec:decode_gen", bool(okx) or (okx is None and not failed), ("cannot decide: " if okx is None else "") + "decode_gen folded with a model locator: " + str(detx)))
    return out


def synzero(ctx):
    return _with_gs_fallback(ctx, "SYNZERO", _synzero_shape, lambda k0: k0.startswith(("syndromes-len", "eval:", "ok:", "ok-sites")),
                             [("syndromes-len", "k syndrome cells"), ("eval:1:view", "first evaluation over the block's chain"), ("eval:1:all-syndromes", "first evaluation fills all k cells"),
                              ("ok:1", "Ok on a clean block"), ("eval:2:view", "re-evaluation over the block's chain"), ("eval:2:all-syndromes", "re-evaluation fills all k cells"),
                              ("ok:2", "Ok only after a clean re-evaluation"), ("ok-sites", "no other Ok exit"), ("pee-or", "the flag is the OR over all cells"),
                              ("pee-points", "evaluation points"), ("decode-all-blocks", "every block decoded")])


def gather_scatter(ctx):
    return _with_gs_fallback(ctx, "GATHER-SCATTER", _gather_scatter_shape, lambda k0: True,
                             [("location", "the location index is the discrete log"), ("range-reject", "an index >= n is refused"),
                              ("store-address", "the store goes through the chain at n-i-1"), ("n", "n = chain length")])


def chien_exec(ctx):
    """chien_search folded with opaque coefficients (linear forms; lengths 3 .. 35): every push of a root must be guarded by
    exactly `p(x) = 0` for the element x that is pushed, where p is the polynomial with the given coefficients (highest power
    first), and the elements tried must be all 255 non-zero field elements, each once, plus 0 guarded by `constant term = 0`.
    (ok | None, detail)"""
    return ctx.memo("chien_exec", lambda: list(_chien_exec(ctx)))


def _chien_exec(ctx):
    f = ctx.facts()
    b = f.thir.get(CHIEN)
    if b is None or len(b["params"]) != 1 or (b["params"][0].get("pat") or {}).get("k") != "Bind":
        return None, "chien_search(c) not found"
    pn = b["params"][0]["pat"]["name"]
    lens = (3, 4, 6, 18, 35) if ctx.tier != "thorough" else tuple(range(3, 36))
    total = 0
    for L in lens:
        coeff = [{"__adt__": GFT, "__variant__": "GF", "#0": T.Token("c%d" % j), "0": T.Token("c%d" % j)} for j in range(L)]
        fo = T.Folder(f, env={pn: coeff}, on_call=_gf_hooks(), effects=True, local_calls=3)
        fo.max_iter = 100000
        fo.sym_eq = lambda a_, b_: True
        fo.guarded = []
        try:
            res = fo.run(b["body"])
        except T.Trap as ex:
            return False, "polynomial with %d coefficients: %s" % (L, ex)
        except T.Undecidable as ex:
            return None, "chien_search does not fold on linear forms (%s)" % ex
        if [T._loaded(x) for x in (res or [])]:
            return False, "polynomial with %d coefficients: %d roots are reported unconditionally" % (L, len(res))
        seen = {}
        for cond, val in fo.guarded:
            x = val.get("#0") if isinstance(val, dict) else val
            if not isinstance(x, int) or isinstance(x, bool):
                return False, "polynomial with %d coefficients: a pushed root is not a field constant (%r)" % (L, x)
            try:
                req = T.sym_required(cond.f, True)
            except T.Undecidable as ex:
                return False, "polynomial with %d coefficients: the test guarding root %d is not a single equation (%s)" % (L, x, ex)
            if len(req) != 1:
                return False, "polynomial with %d coefficients: root %d is guarded by %d equations" % (L, x, len(req))

            def form(v):
                v = T._loaded(v)
                if isinstance(v, dict) and "#0" in v:
                    v = T._loaded(v["#0"])
                return _lin(v).t
            lhs, rhs = form(req[0][0]), form(req[0][1])
            diff = dict(lhs)
            for k0, c0 in rhs.items():
                c2 = diff.get(k0, 0) ^ c0
                if c2:
                    diff[k0] = c2
                else:
                    diff.pop(k0, None)
            # p(x) with coefficients highest power first: c_j * x^(L-1-j)
            want = {}
            p = 1
            for j in range(L - 1, -1, -1):
                if p:
                    want["c%d" % j] = p
                p = gf.mul(p, x)
            if x == 0:
                want = {"c%d" % (L - 1): 1}
            if diff != want:
                d0 = next((t0 for t0 in sorted(set(diff) | set(want), key=str) if diff.get(t0, 0) != want.get(t0, 0)), None)
                return False, "polynomial with %d coefficients: root %d is reported when a sum with coefficient %s for %s vanishes; p(%d) has %s there" % (
                    L, x, diff.get(d0, 0), d0, x, want.get(d0, 0))
            if x in seen:
                return False, "polynomial with %d coefficients: element %d is tried twice" % (L, x)
            seen[x] = True
        missing = [x for x in range(256) if x not in seen]
        if missing:
            return False, "polynomial with %d coefficients: %d field elements are never tried (first: %d)" % (L, len(missing), missing[0])
        total += len(seen)
    return True, "%d polynomial lengths: each of the 256 field elements x is reported exactly when p(x) = 0" % len(lens)


def root_cover(ctx):
    """ROOT-COVER: statement shapes of the Chien search (cheap, names the element); when they are not recognised - and always in
    the thorough tier - decided by folding chien_search over linear forms (chien_exec)"""
    from .core import AnchorMissing
    r = "ROOT-COVER"
    try:
        obs = _root_cover_shape(ctx)
    except (AnchorMissing, KeyError, IndexError, TypeError) as ex:
        obs = [Ob(r, "shape", False, "the Chien search's statement shape is not recognised (%s)" % (str(ex)[:100],))]
    failed = [o for o in obs if not o.ok]
    if not failed and ctx.tier != "thorough":
        return obs
    okx, detx = chien_exec(ctx)
    out = [o if o.ok or not okx else Ob(r, o.key.split(":", 1)[1], True, o.what + " (statement shape not recognised; decided by folding chien_search over linear forms: " + str(detx) + ")", site=o.site) for o in obs]
    out.append(Ob(r, "exec", bool(okx) or (okx is None and not failed), ("cannot decide: " if okx is None else "") + "chien_search folded with opaque coefficients: " + str(detx)))
    return out


def errprop_exec(ctx):
    """decode() folded for the multi-block sizes with the syndrome evaluation reporting `errors` for exactly one block j and the
    locator refusing (Err): whatever j is, decode() must return Err - a failing block is never swallowed by a later clean one.
    (ok | None, detail)"""
    return ctx.memo("errprop_exec", lambda: list(_errprop_exec(ctx)))


def _errprop_exec(ctx):
    f = ctx.facts()
    b = f.thir.get(DEC)
    if b is None:
        return None, "decode not found"
    t = p_symbols.tables(ctx)
    pn = [p_["pat"]["name"] for p_ in b["params"] if p_.get("pat", {}).get("k") == "Bind"]
    if len(pn) != 2:
        return None, "unexpected parameters"
    multi = [v for v in t["variants"] if t["setup"][v]["num_ecc_blocks"] > 1]
    pick = [multi[0], multi[len(multi) // 2], multi[-1]] if ctx.tier != "thorough" else multi
    n = 0
    for v in pick:
        su, nd = t["setup"][v], t["data"][v]
        B, k = su["num_ecc_blocks"], su["num_ecc_per_block"]
        for j in range(B):
            st = {"call": 0}

            def on_call(folder, c, st=st, j=j, su=su, nd=nd):
                cc = T.canon(T.callee_of(c))
                if cc == SS + "::block_setup":
                    d = {"__adt__": "symbol_size::BlockSetup", "__variant__": "BlockSetup"}
                    for i, nm in enumerate(T.ADT_FIELDS.get("symbol_size::BlockSetup") or list(su)):
                        d[nm] = su.get(nm)
                        d["#%d" % i] = su.get(nm)
                    return d
                if cc == SS + "::num_data_codewords":
                    return nd
                if cc == PEE:
                    st["call"] += 1
                    return st["call"] - 1 == j         # only block j has non-zero syndromes
                if cc.endswith("find_inv_error_locations_levinson_durbin") or cc.endswith("find_inv_error_locations_bm"):
                    return {"__adt__": "core::result::Result", "__variant__": "Err", "#0": {"__adt__": "errorcode::decoding::ErrorDecodingError", "__variant__": "TooManyErrors"}, "0": None}
                if cc.endswith("split_at_mut") and len(c["args"]) == 2:
                    v0 = T._loaded(folder.fold(c["args"][0]))
                    m = folder.fold(c["args"][1])
                    if isinstance(v0, list) and isinstance(m, int) and 0 <= m <= len(v0):
                        refs = [x if isinstance(x, T.Ref) else T.Ref(v0, i) for i, x in enumerate(v0)]
                        return (refs[:m], refs[m:])
                return NotImplemented
            fo = T.Folder(f, env={pn[0]: [T.Token("c%d" % i) for i in range(nd + B * k)], pn[1]: v}, on_call=on_call, effects=True, local_calls=3)
            fo.max_iter = 5000
            try:
                res = fo.run(b["body"])
            except T.Trap as ex:
                return False, "%s: decode() traps: %s" % (v, ex)
            except T.Undecidable as ex:
                return None, "%s: decode() does not fold with a failing block (%s)" % (v, ex)
            n += 1
            if not (isinstance(res, dict) and res.get("__variant__") == "Err"):
                return False, "%s: block %d of %d cannot be decoded, yet decode() returns %s" % (v, j, B, res.get("__variant__") if isinstance(res, dict) else res)
    return True, "%d (size, failing block) combinations: the failure is returned" % n
