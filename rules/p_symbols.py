"""Symbol catalogue rules (C12; shared by C06, C08, C10, C05).

TAB-SYM     : the per-variant tables of `SymbolSize` equal ISO/IEC 16022 Table 7 / ISO 21471
ORD         : `Ord for SymbolSize` orders by (data codewords, ...) with pairwise distinct keys
PROV-FILTER : list constructors and filters are wired to the right predicate / field
"""
import json
import os

from .core import Ob, need, floor, VERIF
from . import thirlib as T

SS = "symbol_size::SymbolSize"
SL = "symbol_size::SymbolList"


def reference():
    with open(os.path.join(VERIF, "reference", "symbols.json")) as fh:
        return json.load(fh)["symbols"]


def variants(f, rule):
    vs = f.enum_variants(SS)
    need(vs, rule, SS)
    return vs


def variant_table(f, fn, rule, folder=None):
    """table {variant: folded arm body} of `fn(self)` whose body is a match on self"""
    b = f.thir.get(fn)
    need(b, rule, fn)
    vs = variants(f, rule)
    m = None
    for n in T.exprs(b["body"], "Match"):
        s = T.strip(n["scrut"])
        if s.get("k") == "Var" and s["name"].startswith("self#"):
            m = n
            break
    need(m, rule, fn, "(no match on self)")
    rows, rest = T.enum_match_table(m, vs)
    fo = folder or T.Folder(f)
    table = {}
    sites = {}
    for vs_, body, arm in rows:
        for v in vs_:
            try:
                table[v] = fo.fold(body)
            except (T.Undecidable, T.Trap) as e:
                table[v] = ("undecidable", str(e))
            sites[v] = T.span_str(arm["span"])
    return table, sites, rest


def _capacity_call(folder, e):
    c = T.canon(T.callee_of(e))
    if c.endswith("Capacity::new") and len(e["args"]) == 2:
        return {"max": folder.fold(e["args"][0]), "min": folder.fold(e["args"][1])}
    return NotImplemented


_cache = {}


def tables(ctx):
    """all per-variant tables extracted from the crate (cached per fact file)"""
    f = ctx.facts()
    if f.path in _cache:
        return _cache[f.path]
    r = "TAB-SYM"
    out = {}
    out["variants"] = variants(f, r)
    out["data"], out["data_sites"], rest1 = variant_table(f, SS + "::num_data_codewords", r)
    out["setup"], out["setup_sites"], rest2 = variant_table(f, SS + "::block_setup", r)
    out["capacity"], out["cap_sites"], rest3 = variant_table(f, SS + "::capacity", r, T.Folder(f, on_call=_capacity_call))
    out["padding"], _, _ = variant_table(f, SS + "::has_padding_modules", r)
    out["square"], _, _ = variant_table(f, SS + "::is_square", r)
    out["dmre"], _, _ = variant_table(f, SS + "::is_dmre", r)
    out["unmatched"] = {"num_data_codewords": rest1, "block_setup": rest2, "capacity": rest3}
    sizes = f.const("symbol_size::SYMBOL_SIZES")
    need(sizes is not None, r, "symbol_size::SYMBOL_SIZES")
    adt = f.adts[SS]
    idx2name = {v["idx"]: v["name"] for v in adt["variants"]}
    out["SYMBOL_SIZES"] = [idx2name[x[0]] for x in sizes]
    _cache[f.path] = out
    return out


def tab_sym(ctx):
    r = "TAB-SYM"
    t = tables(ctx)
    ref = {row["name"]: row for row in reference()}
    obs = []
    vs = t["variants"]
    obs.append(Ob(r, "variants", sorted(vs) == sorted(ref), "SymbolSize has exactly the 48 standard variants",
                  detail={"extra": sorted(set(vs) - set(ref)), "missing": sorted(set(ref) - set(vs))}))
    for fn, rest in t["unmatched"].items():
        obs.append(Ob(r, "exhaustive:" + fn, not rest, "%s covers every variant" % fn, detail=rest))
    for v in vs:
        if v not in ref:
            continue
        x = ref[v]
        su = t["setup"].get(v)
        site = t["setup_sites"].get(v)
        def fld(name):
            return su.get(name) if isinstance(su, dict) else None
        checks = [
            ("data", t["data"].get(v), x["data"], t["data_sites"].get(v)),
            ("width", fld("width"), x["width"], site),
            ("height", fld("height"), x["height"], site),
            ("ecc_blocks", fld("num_ecc_blocks"), x["blocks"], site),
            ("ecc_per_block", fld("num_ecc_per_block"), x["ecc_per_block"], site),
            ("extra_vertical_alignments", fld("extra_vertical_alignments"), x["region_cols"] - 1, site),
            ("extra_horizontal_alignments", fld("extra_horizontal_alignments"), x["region_rows"] - 1, site),
            ("padding", t["padding"].get(v), x["padding"], None),
            ("square", t["square"].get(v), x["square"], None),
            ("dmre", t["dmre"].get(v), x["dmre"], None),
        ]
        for name, got, want, s in checks:
            obs.append(Ob(r, "%s:%s" % (v, name), got == want,
                          "%s.%s = %r, standard says %r" % (v, name, got, want), site=s))
        # derived: mapping matrix area
        if isinstance(su, dict) and all(isinstance(su.get(k), int) for k in ("width", "height", "extra_vertical_alignments", "extra_horizontal_alignments", "num_ecc_blocks", "num_ecc_per_block")) and isinstance(t["data"].get(v), int):
            cw = su["width"] - 2 - 2 * su["extra_vertical_alignments"]
            ch = su["height"] - 2 - 2 * su["extra_horizontal_alignments"]
            area = cw * ch
            exp = 8 * (t["data"][v] + su["num_ecc_blocks"] * su["num_ecc_per_block"]) + (4 if t["padding"].get(v) else 0)
            ok = cw > 0 and ch > 0 and area == exp and cw % (su["extra_vertical_alignments"] + 1) == 0 \
                and ch % (su["extra_horizontal_alignments"] + 1) == 0
            obs.append(Ob(r, "%s:area" % v, ok, "%s mapping matrix %dx%d = %d modules, 8*codewords+padding = %d; content divisible by region counts" % (v, ch, cw, area, exp), site=site))
    # SYMBOL_SIZES: every variant exactly once
    ss = t["SYMBOL_SIZES"]
    obs.append(Ob(r, "SYMBOL_SIZES", sorted(ss) == sorted(vs) and len(set(ss)) == len(ss),
                  "SYMBOL_SIZES lists each of the %d variants exactly once (found %d entries, %d distinct)" % (len(vs), len(ss), len(set(ss)))))
    # pixel dimensions identify a size
    dims = {}
    for v in vs:
        su = t["setup"].get(v)
        if isinstance(su, dict):
            dims.setdefault((su.get("width"), su.get("height")), []).append(v)
    dup = {str(k): v for k, v in dims.items() if len(v) > 1}
    obs.append(Ob(r, "dims-unique", not dup, "(width, height) pairs are pairwise distinct", detail=dup))
    obs += floor(obs, r, 48 * 9, "symbol table rows")
    return obs


def capacity_info(ctx):
    """informational + GATE-CAP obligations on the internal capacity hints"""
    r = "GATE-CAP"
    t = tables(ctx)
    obs = []
    for v in t["variants"]:
        c = t["capacity"].get(v)
        d = t["data"].get(v)
        ok = isinstance(c, dict) and isinstance(d, int) and c["max"] >= 2 * d
        obs.append(Ob(r, "%s:max" % v, ok,
                      "%s: capacity().max = %s must be >= 2*data codewords = %s (digit pairs are the densest encodation), "
                      "otherwise the early `too much data` rejection refuses encodable input" % (v, c and c.get("max") if isinstance(c, dict) else c, 2 * d if isinstance(d, int) else d),
                      site=t["cap_sites"].get(v)))
    # the gate compares the length of what will actually be encoded: max_capacity() is consulted only by the encoder's
    # codewords(), against self.data.len() (the input after macro stripping) - a caller that tests the raw input would refuse
    # macro messages whose compacted form fits
    f = ctx.facts()
    fn = SL + "::max_capacity"
    callers = sorted({T.canon(name) for name, b in f.thir.items() for c in T.calls(b["body"]) if T.canon(T.callee_of(c)) == fn})
    cw = [n for n in f.thir if T.canon(n).endswith("GenericDataEncoder::codewords")]
    ok = len(cw) == 1 and callers == [T.canon(cw[0])]
    det = None
    if ok:
        sts = T.stmts(f.thir[cw[0]]["body"], {"__noinline__": True})
        lv = T.let_values(sts)
        cmps = [x for st in T.stmt_walk(sts) for ex in T.stmt_exprs(st) for x in T.sx_walk(ex)
                if isinstance(x, tuple) and x and x[0] == "bin" and x[1] in ("Gt", "Lt", "Ge", "Le") and any(isinstance(y, tuple) and y and y[0] == "call" and y[1] == fn for y in T.sx_walk(T.map_sx(x, lambda n: T.look_through(n, lv) if n[0] == "var" else n)))]
        det = [T.sx_show(x, 160) for x in cmps]

        def is_data_len(y):
            y = T.look_through(y, lv)
            return y[0] == "call" and y[1].endswith("::len") and len(y[2]) == 1 and any(isinstance(z, tuple) and z and z[0] == "field" and z[2] == "data" and z[1][:2] == ("var", "self") for z in T.sx_walk(y[2][0]))
        ok = len(cmps) == 1 and (is_data_len(cmps[0][2]) or is_data_len(cmps[0][3]))
    obs.append(Ob(r, "gate-on-stripped-data", ok, "max_capacity() is consulted only by GenericDataEncoder::codewords(), compared with self.data.len() (the input after macro stripping)", detail=det or callers))
    return obs


def key_table(ctx):
    """evaluate Ord's key function for every variant using the extracted tables"""
    f = ctx.facts()
    t = tables(ctx)
    keyfn = None
    for name in f.thir:
        if name.startswith("<symbol_size::SymbolSize as core::cmp::Ord>::cmp::"):
            keyfn = name
    return keyfn


def ord_rule(ctx):
    r = "ORD"
    f = ctx.facts()
    t = tables(ctx)
    obs = []
    cmpfn = "<symbol_size::SymbolSize as core::cmp::Ord>::cmp"
    b = f.thir.get(cmpfn)
    need(b, r, cmpfn)
    # the whole 48 x 48 comparison table: cmp's body (and its private key helpers) folded with the extracted size tables
    pnames = [p_["pat"]["name"] for p_ in b["params"] if p_.get("pat", {}).get("k") == "Bind"]
    need(len(pnames) == 2, r, cmpfn, "(two plain parameters)")

    def on_call(folder, e2):
        c = T.canon(T.callee_of(e2))
        if c == SS + "::num_data_codewords":
            return t["data"][folder.fold(e2["args"][0])]
        if c == SS + "::block_setup":
            return t["setup"][folder.fold(e2["args"][0])]
        return NotImplemented
    tab = {}
    und = None
    for a in t["variants"]:
        for c in t["variants"]:
            try:
                v = T.Folder(f, env={pnames[0]: a, pnames[1]: c}, on_call=on_call, effects=True, local_calls=3).run(b["body"])
            except (T.Undecidable, T.Trap) as ex:
                v = None
                und = und or "cmp(%s, %s): %s" % (a, c, ex)
            tab[(a, c)] = v.get("__variant__") if isinstance(v, dict) and v.get("__adt__") == "core::cmp::Ordering" else None
            if tab[(a, c)] is None:
                und = und or "cmp(%s, %s) does not fold to an Ordering" % (a, c)
        if und:
            break
    obs.append(Ob(r, "cmp-evaluable", und is None, "Ord::cmp folds to an Ordering for all %d pairs of sizes" % (len(t["variants"]) ** 2), site=T.span_str(b["span"]), detail=und))
    pc = f.thir.get("<symbol_size::SymbolSize as core::cmp::PartialOrd>::partial_cmp")
    need(pc, r, "PartialOrd::partial_cmp")
    pe = T.sx(pc["body"], T.let_env(pc["body"]))
    okp = pe[0] == "adt" and pe[2] == "Some" and pe[3][0][1][0] == "call" and pe[3][0][1][1].endswith("Ord>::cmp") \
        and [a[:2] for a in pe[3][0][1][2]] == [("var", "self"), ("var", "other")]
    obs.append(Ob(r, "partial_cmp", okp, "partial_cmp is Some(self.cmp(other))", detail=T.sx_show(pe)))
    if und:
        return obs
    V = t["variants"]
    d = t["data"]
    bad = [(a, c) for a in V for c in V if (d[a] < d[c] and tab[(a, c)] != "Less") or (d[a] > d[c] and tab[(a, c)] != "Greater")]
    obs.append(Ob(r, "key-first", not bad, "the order is by number of data codewords first: fewer data codewords always compares Less (so set order = non-decreasing capacity)", detail=bad[:4]))
    bad = [(a, c) for a in V for c in V if (tab[(a, c)] == "Equal") != (a == c)]
    obs.append(Ob(r, "key-distinct", not bad, "cmp is Equal only for identical sizes (Ord agrees with Eq; the BTreeSet drops nothing)", detail=bad[:4]))
    rev = {"Less": "Greater", "Greater": "Less", "Equal": "Equal"}
    bad = [(a, c) for a in V for c in V if tab[(a, c)] != rev[tab[(c, a)]]]
    rank = {a: sum(1 for c in V if tab[(c, a)] == "Less") for a in V}
    bad2 = [(a, c) for a in V for c in V if (tab[(a, c)] == "Less") != (rank[a] < rank[c])]
    obs.append(Ob(r, "total-order", not bad and not bad2, "cmp is antisymmetric and transitive on the 48 sizes (a strict total order, as BTreeSet requires)", detail=(bad + bad2)[:4]))
    # storage is a BTreeSet<SymbolSize>
    adt = f.adts.get(SL)
    need(adt, r, SL)
    ftys = adt["variants"][0].get("fieldtys", [])
    ok_store = len(ftys) == 1 and ftys[0]["ty"].startswith("alloc::collections::BTreeSet<symbol_size::SymbolSize")
    obs.append(Ob(r, "storage", ok_store, "SymbolList stores exactly one BTreeSet<SymbolSize>", detail=ftys))
    return obs


def _body_sx(f, name, rule):
    b = f.thir.get(name)
    need(b, rule, name)
    return T.sx(b["body"], T.let_env(b["body"])), b


def _closure_sx(f, cdef, rule):
    b = f.thir.get(cdef)
    need(b, rule, cdef)
    return T.sx(b["body"], T.let_env(b["body"])), b


def _is_symbols_of_self(x):
    return x == ("field", ("var", "self", x[1][2] if len(x) > 1 and len(x[1]) > 2 else None), "symbols") or \
        (x[0] == "field" and x[2] == "symbols" and x[1][:2] == ("var", "self"))


def _whitelist_arg(e):
    """the iterator a SymbolList is built from: with_whitelist(it) | SymbolList::from_iter(it) | it.collect() (into a SymbolList) -
    the three spellings of the same constructor (with_whitelist and FromIterator are checked on their own); None otherwise"""
    if not (isinstance(e, tuple) and e and e[0] == "call"):
        return None
    if e[1].endswith("SymbolList::with_whitelist") and len(e[2]) == 1:
        return e[2][0]
    if e[1].endswith("::from_iter") and "symbol_size::SymbolList" in e[1] and len(e[2]) == 1:
        return e[2][0]
    if e[1].endswith("Iterator::collect") and len(e[2]) == 1:
        return e[2][0]
    return None


FILTER_WHAT = {
    "default": "default() = the non-DMRE sizes, in order", "with_extended_rectangles": "with_extended_rectangles() = all 48 sizes, in order",
    "all": "all() = all 48 sizes", "with_whitelist": "with_whitelist() = the set of its argument (sorted, duplicates dropped)",
    "from_iter": "FromIterator = the set of the given iterator", "enforce_square": "enforce_square keeps exactly the square sizes",
    "enforce_rectangular": "enforce_rectangular keeps exactly the non-square sizes",
    "enforce_width_in": "enforce_width_in keeps exactly the sizes whose symbol width lies in the bounds (all six RangeBounds kinds, bounds around every catalogue width)",
    "enforce_height_in": "enforce_height_in keeps exactly the sizes whose symbol height lies in the bounds",
    "first_symbol_big_enough_for": "first_symbol_big_enough_for(n) = the first size in set order with >= n data codewords (n around every capacity)",
    "iter": "iter() yields the set in order", "into_iter": "into_iter() yields the set in order", "contains": "contains() is set membership",
    "is_empty": "is_empty() is set emptiness", "max_capacity": "max_capacity() = maximum of capacity().max over the list (0 when empty)",
    "Extend": "Extend adds exactly the given sizes", "From:single": "From<SymbolSize> = the one-element list, for each of the 48 sizes",
    "From:array": "From<[SymbolSize; N]> = the set of the array",
}


def prov_filter(ctx):
    """PROV-FILTER: every constructor / filter / query of SymbolList folded on concrete lists (filter_exec) and compared with its
    specification; the statement-shape wiring rules below are the fallback for a function the folder has no model for"""
    from .core import AnchorMissing
    r = "PROV-FILTER"
    f = ctx.facts()
    ex = filter_exec(ctx)
    shape = None
    obs = []
    for key, what in FILTER_WHAT.items():
        ok, det = ex.get(key, (None, "not folded"))
        if ok is None:
            if shape is None:
                try:
                    shape = {o.key.split(":", 1)[1]: o for o in _prov_filter_shape(ctx)}
                except (AnchorMissing, KeyError, IndexError, TypeError) as e2:
                    shape = {"__error__": str(e2)}
            o = shape.get(key)
            if o is not None:
                obs.append(o)
            else:
                obs.append(Ob(r, key, False, "cannot decide: %s - %s; and the statement shape is not recognised (%s)" % (what, det, shape.get("__error__", "no such obligation"))))
        else:
            obs.append(Ob(r, key, bool(ok), what + (" - by folding the function on the full, the default, a custom, a one-element and the empty list" if ok else ": " + str(det)),
                          site="src/symbol_size.rs"))
    obs += floor(obs, r, 18, "filter obligations")
    return obs


def _prov_filter_shape(ctx):
    r = "PROV-FILTER"
    f = ctx.facts()
    obs = []

    def ob(key, ok, what, b=None, detail=None):
        obs.append(Ob(r, key, ok, what, site=T.span_str(b["span"]) if b else None, detail=detail))

    # default(): SYMBOL_SIZES filtered by !is_dmre
    dname = "<symbol_size::SymbolList as core::default::Default>::default"
    e, b = _body_sx(f, dname, r)
    ok = False

    def not_dmre(ce, var):
        return ce[0] == "un" and ce[1] == "Not" and ce[2][0] == "call" and ce[2][1] == SS + "::is_dmre" and (var is None or ce[2][2][0][:2] == ("var", var))
    filt = T.sx_calls(e, "Iterator::filter")
    if _whitelist_arg(e) is not None and filt:
        fl = filt[0]
        src = fl[2][0]
        srcs = [x for x in T.sx_walk(src) if x[0] == "const"]
        if srcs and srcs[0][1] == "symbol_size::SYMBOL_SIZES" and fl[2][1][0] == "closure":
            ce, _ = _closure_sx(f, fl[2][1][1], r)
            ok = not_dmre(ce, None)
    else:
        # explicit loop: let mut set = BTreeSet::new(); for s in SYMBOL_SIZES { if !s.is_dmre() { set.insert(*s); } } Self { symbols: set }
        ds = T.stmts(b["body"], {})
        news = [st for st in ds if st[0] == "let" and st[3][0] == "call" and st[3][1].endswith("BTreeSet::new")]
        loops = [st for st in ds if st[0] == "for"]
        if len(news) == 1 and len(loops) == 1 and len(ds) == 3 and ds[-1][0] == "expr":
            setv = news[0][1].split("#")[0]
            lp = loops[0]
            src_ok = any(x[0] == "const" and x[1] == "symbol_size::SYMBOL_SIZES" for x in T.sx_walk(lp[2])) and not T.sx_calls(lp[2], "::skip") \
                and not T.sx_calls(lp[2], "::take") and not T.sx_calls(lp[2], "::filter") and not T.sx_calls(lp[2], "::step_by")
            ev = lp[1][0].split("#")[0] if len(lp[1]) == 1 else None
            body = lp[3]
            ins_ok = len(body) == 1 and body[0][0] == "if" and not body[0][3] and not_dmre(body[0][1], ev) and len(body[0][2]) == 1 \
                and body[0][2][0][0] == "expr" and body[0][2][0][1][0] == "call" and body[0][2][0][1][1].endswith("BTreeSet::insert") \
                and body[0][2][0][1][2][0][:2] == ("var", setv) and body[0][2][0][1][2][1][:2] == ("var", ev)
            res = ds[-1][1]
            res_ok = res[0] == "adt" and res[1] == SL and len(res[3]) == 1 and res[3][0][0] == "symbols" and res[3][0][1][:2] == ("var", setv)
            ok = src_ok and ins_ok and res_ok
            e = ("loop-form",)
    ob("default", ok, "default() = SYMBOL_SIZES filtered by !is_dmre", b, T.sx_show(e))

    # with_extended_rectangles(): all of SYMBOL_SIZES
    e, b = _body_sx(f, SL + "::with_extended_rectangles", r)
    ok = _whitelist_arg(e) is not None and not T.sx_calls(e, "::filter") \
        and not T.sx_calls(e, "::take") and not T.sx_calls(e, "::skip") and not T.sx_calls(e, "::step_by") \
        and any(x[0] == "const" and x[1] == "symbol_size::SYMBOL_SIZES" for x in T.sx_walk(e)) \
        and len(T.sx_calls(e, "")) <= 3
    ob("with_extended_rectangles", ok, "with_extended_rectangles() = every entry of SYMBOL_SIZES", b, T.sx_show(e))
    e, b = _body_sx(f, SL + "::all", r)
    ok = e == ("call", SL + "::with_extended_rectangles", ())
    ob("all", ok, "all() = with_extended_rectangles()", b, T.sx_show(e))

    # with_whitelist / from_iter
    e, b = _body_sx(f, SL + "::with_whitelist", r)
    def collects(x, var):
        """from_iter(var) / var.into_iter().collect()"""
        if x[0] == "call" and x[1].endswith("::from_iter") and len(x[2]) == 1:
            return x[2][0][:2] == ("var", var)
        if x[0] == "call" and x[1].endswith("Iterator::collect") and len(x[2]) == 1:
            y = x[2][0]
            while y[0] == "call" and y[1].endswith("into_iter") and len(y[2]) == 1:
                y = y[2][0]
            return y[:2] == ("var", var)
        return False
    wl_param = b["params"][0]["pat"]["name"].split("#")[0] if b["params"] and b["params"][0].get("pat", {}).get("k") == "Bind" else "whitelist"
    ok = (e[0] == "call" and e[1].endswith("::from_iter") and "symbol_size::SymbolList as" in e[1] and e[2][0][:2] == ("var", wl_param)) or collects(e, wl_param)
    ob("with_whitelist", ok, "with_whitelist() collects exactly its argument", b, T.sx_show(e))
    e, b = _body_sx(f, "<symbol_size::SymbolList as core::iter::FromIterator<symbol_size::SymbolSize>>::from_iter", r)
    it_param = b["params"][0]["pat"]["name"].split("#")[0] if b["params"] and b["params"][0].get("pat", {}).get("k") == "Bind" else "iter"
    ok = e[0] == "adt" and e[1] == SL and e[3][0][0] == "symbols" and collects(e[3][0][1], it_param)
    ob("from_iter", ok, "FromIterator builds the set from exactly the given iterator", b, T.sx_show(e))

    # retain-based filters
    def retain_closure(fn):
        """(body, receiver sx, predicate sx, substitution): the one `retain` call of fn, or of the private helper fn
        delegates to (then the substitution maps the helper's parameters to fn's arguments)"""
        b = f.thir.get(fn)
        need(b, r, fn)
        rc = [c for c in T.calls(b["body"]) if T.canon(T.callee_of(c)).endswith("BTreeSet::retain")]
        sub = {}
        if not rc:
            e0 = T.sx(b["body"], T.let_env(b["body"]))
            hb = None
            if e0[0] == "call":
                for n, bb in f.thir.items():
                    if T.canon(n) == e0[1] and n.startswith(SL + "::"):
                        hb = bb
            if hb is not None and len(hb["params"]) == len(e0[2]) and e0[2][0][:2] == ("var", "self"):
                for p_, a in zip(hb["params"], e0[2]):
                    pat = p_.get("pat") or {}
                    if pat.get("k") == "Bind":
                        sub[pat["name"]] = a
                rc = [c for c in T.calls(hb["body"]) if T.canon(T.callee_of(c)).endswith("BTreeSet::retain")]
                tail = T.stmts(hb["body"], {})
                need(tail and tail[-1][0] == "expr" and tail[-1][1][:2] == ("var", "self"), r, fn, "(delegate must return self)")
        need(len(rc) == 1, r, fn, "(expected exactly one retain call)")
        recv = T.sx(rc[0]["args"][0])
        pred = T.sx(rc[0]["args"][1])
        return b, recv, pred, sub

    def pred_body(pred, sub):
        """closure predicate as (parameter name, body sx) with a delegating helper's parameters substituted and closure
        arguments beta-reduced"""
        cb = T.closure_body_sx(f, pred[1])
        need(cb and len(cb[0]) == 1, r, pred[1])
        return cb[0][0].split("#")[0], T.beta(f, T.subst_sx(cb[1], sub))

    b, recv, pred, sub = retain_closure(SL + "::enforce_square")
    ok = _is_symbols_of_self(recv) and pred == ("fn", SS + "::is_square")
    if not ok and _is_symbols_of_self(recv) and pred[0] == "closure":
        pv, ce = pred_body(pred, sub)
        ok = ce[0] == "call" and ce[1] == SS + "::is_square" and ce[2][0][:2] == ("var", pv)
    ob("enforce_square", ok, "enforce_square retains by is_square", b, T.sx_show(pred))

    b, recv, pred, sub = retain_closure(SL + "::enforce_rectangular")
    ok = False
    if _is_symbols_of_self(recv) and pred[0] == "closure":
        pv, ce = pred_body(pred, sub)
        ok = ce[0] == "un" and ce[1] == "Not" and ce[2][0] == "call" and ce[2][1] == SS + "::is_square" and ce[2][2][0][:2] == ("var", pv)
    ob("enforce_rectangular", ok, "enforce_rectangular retains by !is_square", b, T.sx_show(pred))

    for fn, field in ((SL + "::enforce_width_in", "width"), (SL + "::enforce_height_in", "height")):
        b, recv, pred, sub = retain_closure(fn)
        ok = False
        det = None
        bname = [p_["pat"]["name"].split("#")[0] for p_ in b["params"][1:2] if p_.get("pat", {}).get("k") == "Bind"]
        if _is_symbols_of_self(recv) and pred[0] == "closure" and bname:
            pv, ce = pred_body(pred, sub)
            det = T.sx_show(ce)
            if ce[0] == "call" and ce[1].endswith("RangeBounds::contains") and len(ce[2]) == 2:
                rng, item = ce[2]
                ok = rng[:2] == ("var", bname[0]) and item[0] == "field" and item[2] == field \
                    and item[1][0] == "call" and item[1][1] == SS + "::block_setup" and item[1][2][0][:2] == ("var", pv)
        ob(fn.split("::")[-1], ok, "%s retains by bounds.contains(&block_setup().%s)" % (fn.split("::")[-1], field), b, det)

    # first_symbol_big_enough_for
    fsb = SL + "::first_symbol_big_enough_for"
    e, b = _body_sx(f, fsb, r)
    ok = False
    det = T.sx_show(e)
    pn = [p_["pat"]["name"].split("#")[0] for p_ in b["params"][1:2] if p_.get("pat", {}).get("k") == "Bind"]
    pn = pn[0] if pn else "size_needed"
    fnd = None
    if e[0] == "call" and e[1] == "core::iter::Iterator::find" and e[2][0] == ("call", SL + "::iter", (e[2][0][2][0],)) and e[2][0][2][0][:2] == ("var", "self"):
        # self.iter() is the copying set iterator (obligation `iter` below)
        fnd = ("call", e[1], (("call", "alloc::collections::BTreeSet::iter", (("field", e[2][0][2][0], "symbols"),)), e[2][1]))
    if e[0] == "call" and e[1].endswith("Option::copied"):
        fnd = e[2][0]
    elif e[0] == "call" and e[1] == "core::iter::Iterator::find" and e[2][0][0] == "call" and e[2][0][1].endswith("Iterator::copied"):
        # .iter().copied().find(p) - the same element, copied before instead of after the search
        fnd = ("call", e[1], (e[2][0][2][0], e[2][1]))
    if fnd is not None:
        if fnd[0] == "call" and fnd[1] == "core::iter::Iterator::find":
            it, cl = fnd[2]
            if it[0] == "call" and it[1].endswith("BTreeSet::iter") and _is_symbols_of_self(it[2][0]) and cl[0] == "closure":
                cb = T.closure_body_sx(f, cl[1])
                if cb and len(cb[0]) == 1:
                    det = T.sx_show(cb[1])
                    ok = _cmp_ge_data(cb[1], pn, cb[0][0].split("#")[0])
    else:
        # for s in self.symbols.iter() { if s.num_data_codewords() >= n { return Some(*s); } } None
        ds = T.stmts(b["body"], {})
        if len(ds) == 2 and ds[0][0] == "for" and ds[1][0] == "expr" and ds[1][1][0] == "adt" and ds[1][1][2] == "None":
            lp = ds[0]
            it = lp[2]
            while it[0] == "call" and it[1].endswith("into_iter"):
                it = it[2][0]
            ev = lp[1][0].split("#")[0] if len(lp[1]) == 1 else None
            src_ok = (it[0] == "call" and it[1].endswith("BTreeSet::iter") and _is_symbols_of_self(it[2][0])) or _is_symbols_of_self(it)
            body = lp[3]
            if src_ok and len(body) == 1 and body[0][0] == "if" and not body[0][3] and len(body[0][2]) == 1 and body[0][2][0][0] == "return":
                rv = body[0][2][0][1]
                ret_ok = rv is not None and rv[0] == "adt" and rv[2] == "Some" and rv[3][0][1][:2] == ("var", ev)
                det = T.sx_show(body[0][1])
                ok = ret_ok and _cmp_ge_data(body[0][1], pn, ev)
    ob("first_symbol_big_enough_for", ok, "first_symbol_big_enough_for = first in set order with num_data_codewords() >= size_needed", b, det)

    # iter / into_iter / contains / is_empty / extend delegate to the set
    e, b = _body_sx(f, SL + "::iter", r)
    ok = e[0] == "call" and e[1].endswith("Iterator::copied") and e[2][0][0] == "call" and e[2][0][1].endswith("BTreeSet::iter") and _is_symbols_of_self(e[2][0][2][0])
    ob("iter", ok, "iter() is the set's ordered iterator", b, T.sx_show(e))
    e, b = _body_sx(f, "<symbol_size::SymbolList as core::iter::IntoIterator>::into_iter", r)
    ok = e[0] == "call" and e[1].endswith("IntoIterator>::into_iter") and _is_symbols_of_self(e[2][0])
    ob("into_iter", ok, "into_iter() is the set's ordered iterator", b, T.sx_show(e))
    e, b = _body_sx(f, SL + "::contains", r)
    ok = e[0] == "call" and e[1].endswith("BTreeSet::contains") and _is_symbols_of_self(e[2][0]) and e[2][1][:2] == ("var", "symbol_size")
    ob("contains", ok, "contains() delegates to the set", b, T.sx_show(e))
    e, b = _body_sx(f, SL + "::is_empty", r)
    ok = e[0] == "call" and e[1].endswith("BTreeSet::is_empty") and _is_symbols_of_self(e[2][0])
    ob("is_empty", ok, "is_empty() delegates to the set", b, T.sx_show(e))
    e, b = _body_sx(f, SL + "::max_capacity", r)
    mx = T.sx_calls(e, "Iterator::max")
    mp = T.sx_calls(e, "Iterator::map")
    ok = bool(mx) and bool(mp) and e[0] == "call" and e[1].endswith("Option::unwrap_or")
    if ok:
        ce, _ = _closure_sx(f, mp[0][2][1][1], r)
        ok = ce[0] == "field" and ce[2] == "max" and ce[1][0] == "call" and ce[1][1] == SS + "::capacity"
    if not ok and e[0] == "call" and e[1].endswith("Iterator::fold") and len(e[2]) == 3 and e[2][1] == ("lit", 0) and e[2][2][0] == "closure":
        # .fold(0, |largest, s| largest.max(s.capacity().max))
        src = e[2][0]
        while src[0] == "call" and (src[1].endswith("BTreeSet::iter") or src[1].endswith("into_iter")):
            src = src[2][0]
        cb2 = T.closure_body_sx(f, e[2][2][1])
        if _is_symbols_of_self(src) and cb2 and len(cb2[0]) == 2:
            accn, evn = [n.split("#")[0] for n in cb2[0]]
            c2 = cb2[1]
            if c2[0] == "call" and c2[1].split("::")[-1] == "max" and len(c2[2]) == 2:
                parts = list(c2[2])
                is_acc = [p0[:2] == ("var", accn) for p0 in parts]
                is_cap2 = [p0[0] == "field" and p0[2] == "max" and p0[1][0] == "call" and p0[1][1] == SS + "::capacity" and p0[1][2][0][:2] == ("var", evn) for p0 in parts]
                ok = any(is_acc) and any(is_cap2)
    if not ok:
        # running maximum: let mut m = 0; for s in &self.symbols { if cap(s).max >= m (or >) { m = cap(s).max } } m
        ms = T.stmts(b["body"], {})
        if len(ms) == 3 and ms[0][0] == "let" and ms[0][2] and ms[0][3] == ("lit", 0) and ms[1][0] == "for" and ms[2][0] == "expr" and ms[2][1][:2] == ("var", ms[0][1].split("#")[0]):
            acc = ms[0][1].split("#")[0]
            it = ms[1][2]
            while it[0] == "call" and (it[1].endswith("into_iter") or it[1].endswith("BTreeSet::iter")):
                it = it[2][0]
            ev = ms[1][1][0].split("#")[0] if len(ms[1][1]) == 1 else None

            def is_cap(x):
                return x[0] == "field" and x[2] == "max" and x[1][0] == "call" and x[1][1] == SS + "::capacity" and x[1][2][0][:2] == ("var", ev)
            body = [st for st in ms[1][3] if st[0] != "let"]
            if _is_symbols_of_self(it) and len(body) == 1 and body[0][0] == "if" and not body[0][3] and len(body[0][2]) == 1:
                c, st = body[0][1], body[0][2][0]
                cmp_ok = c[0] == "bin" and ((c[1] in ("Ge", "Gt") and is_cap(c[2]) and c[3][:2] == ("var", acc)) or (c[1] in ("Le", "Lt") and is_cap(c[3]) and c[2][:2] == ("var", acc)))
                ok = cmp_ok and st[0] == "assign" and st[1][:2] == ("var", acc) and is_cap(st[2])
    ob("max_capacity", ok, "max_capacity() = maximum of capacity().max over the list", b, T.sx_show(e))
    # From<SymbolSize>, From<[SymbolSize; N]>, Extend: delegate to the whitelist constructor / the set
    for name in list(f.thir):
        cn = T.canon(name)
        if cn.startswith("<symbol_size::SymbolList as core::convert::From<") and cn.endswith(">::from"):
            e = T.sx(f.thir[name]["body"], T.let_env(f.thir[name]["body"]))
            a = _whitelist_arg(e)
            ok = a is not None
            if ok:
                while a[0] == "call" and a[1].endswith("into_iter") and len(a[2]) == 1:
                    a = a[2][0]
                pb = f.thir[name]["params"][0].get("pat", {}) if f.thir[name]["params"] else {}
                pname = pb.get("name", "#").split("#")[0] if pb.get("k") == "Bind" else None
                ok = (a[0] == "var" and a[1] == pname) or (a[0] == "array" and len(a[1]) == 1 and a[1][0][0] == "var" and a[1][0][1] == pname)
            ob("From:" + ("array" if "[" in cn else "single"), ok, "%s builds the list from exactly its argument" % cn.split("::<impl ")[-1][:60], f.thir[name], T.sx_show(e))
        if cn == "<symbol_size::SymbolList as core::iter::Extend<symbol_size::SymbolSize>>::extend":
            e = T.sx(f.thir[name]["body"], T.let_env(f.thir[name]["body"]))
            sts_ = T.stmts(f.thir[name]["body"], {})
            calls = [x for st in sts_ for ex in T.stmt_exprs(st) for x in T.sx_calls(ex, "::extend")]
            pb = f.thir[name]["params"][1].get("pat", {}) if len(f.thir[name]["params"]) > 1 else {}
            itn = pb.get("name", "#").split("#")[0] if pb.get("k") == "Bind" else "iter"
            ok = len(calls) == 1 and _is_symbols_of_self(calls[0][2][0]) and calls[0][2][1][:2] == ("var", itn)
            if not calls:
                # `for s in iter { self.symbols.insert(s); }`
                fl = [st for st in sts_ if st[0] == "for"]
                if len(fl) == 1 and len(sts_) == 1:
                    it = fl[0][2]
                    while it[0] == "call" and it[1].endswith("into_iter") and len(it[2]) == 1:
                        it = it[2][0]
                    ev = fl[0][1][0].split("#")[0] if len(fl[0][1]) == 1 else None
                    body = fl[0][3]
                    ok = it[:2] == ("var", itn) and len(body) == 1 and body[0][0] in ("expr", "let") and isinstance(body[0][1 if body[0][0] == "expr" else 3], tuple)
                    if ok:
                        c0 = body[0][1] if body[0][0] == "expr" else body[0][3]
                        ok = c0[0] == "call" and c0[1].endswith("BTreeSet::insert") and _is_symbols_of_self(c0[2][0]) and c0[2][1][:2] == ("var", ev)
            ob("Extend", ok, "Extend adds exactly the given iterator to the set", f.thir[name])
    obs += floor(obs, r, 18, "filter wiring obligations")
    return obs


def _cmp_ge_data(ce, param, elem="s"):
    """closure body equivalent to s.num_data_codewords() >= param"""
    if ce[0] != "bin":
        return False
    op, a, c = ce[1], ce[2], ce[3]
    def is_data(x):
        return x[0] == "call" and x[1] == SS + "::num_data_codewords" and x[2][0][:2] == ("var", elem)
    def is_param(x):
        return x[:2] == ("var", param)
    if is_data(a) and is_param(c):
        return op == "Ge"
    if is_param(a) and is_data(c):
        return op == "Le"
    return False


# ---- PROV-FILTER by folding the SymbolList API on concrete lists (BTreeSet modelled as a sorted duplicate-free list) ---------------

def filter_exec(ctx):
    """every constructor / filter / query of SymbolList folded on concrete lists of catalogue sizes and compared with its
    specification computed from the extracted size tables (which TAB-SYM ties to the standard); the set order is the reference
    order (data codewords, then squared diagonal) that ORD shows the crate's `Ord` to be.  {key: (ok | None, detail)}"""
    res = ctx.memo("filter_exec", lambda: _filter_exec(ctx))
    return {k: tuple(v) for k, v in res.items()}


def _filter_exec(ctx):
    f = ctx.facts()
    t = tables(ctx)
    V = list(t["variants"])
    okey = {v: (t["data"][v], t["setup"][v]["width"] ** 2 + t["setup"][v]["height"] ** 2) for v in V}
    order = sorted(V, key=lambda v: okey[v])
    out = {}

    def mk(v):
        return {"__adt__": SS, "__variant__": v}

    def sl(vs):
        bs = T.BSet(mk(v) for v in sorted(set(vs), key=lambda v: okey[v]))
        return {"__adt__": SL, "__variant__": "SymbolList", "symbols": bs, "#0": bs}

    def names(x):
        x = T._loaded(x)
        if isinstance(x, dict) and "symbols" in x:
            x = x["symbols"]
        if isinstance(x, list):
            return [T._loaded(y).get("__variant__") if isinstance(T._loaded(y), dict) else y for y in x]
        return x

    def call(fn, args):
        b = f.thir.get(fn)
        if b is None:
            hits = [n for n in f.thir if T.canon(n) == fn]
            if len(hits) != 1:
                raise T.Undecidable("function %s not found" % fn)
            b = f.thir[hits[0]]
        if len(b["params"]) != len(args):
            raise T.Undecidable("%s: arity" % fn)
        fo = T.Folder(f, env={}, on_call=size_attr, effects=True, local_calls=5)
        fo.set_key = lambda x: okey[x["__variant__"]]
        for p_, v in zip(b["params"], args):
            ok, bd = fo._pat_match(p_["pat"], v)
            if not ok:
                raise T.Undecidable("%s: parameter pattern" % fn)
            fo.env.update(bd)
        return fo.run(b["body"]), fo

    def size_attr(folder, c):
        # the per-size attribute functions are big matches over the variant; their tables were extracted (and compared with the
        # standard by TAB-SYM) once - here they are looked up
        cc = T.canon(T.callee_of(c))
        if cc.startswith(SS + "::") and len(c["args"]) == 1:
            last = cc.split("::")[-1]
            tab = {"block_setup": t["setup"], "num_data_codewords": t["data"], "is_square": t["square"], "is_dmre": t["dmre"]}.get(last)
            if tab is None and last == "capacity":
                tab = {v: {"__adt__": "symbol_size::Capacity", "__variant__": "Capacity", "max": t["capacity"][v]["max"], "#0": t["capacity"][v]["max"],
                           "min": t["capacity"][v]["min"], "#1": t["capacity"][v]["min"]} for v in V if isinstance(t["capacity"].get(v), dict)}
            if tab is not None:
                x = T._loaded(folder.fold(c["args"][0]))
                if isinstance(x, dict) and x.get("__variant__") in tab:
                    val = tab[x["__variant__"]]
                    return bool(val) if last in ("is_square", "is_dmre") else val
        return NotImplemented

    def opt(x):
        x = T._loaded(x)
        if isinstance(x, dict) and x.get("__variant__") == "Some":
            y = T._loaded(x.get("#0"))
            return y.get("__variant__") if isinstance(y, dict) else y
        if isinstance(x, dict) and x.get("__variant__") == "None":
            return None
        return ("?", x)

    def rng(kind, lo=None, hi=None):
        d = {"__adt__": "core::ops::" + kind, "__variant__": kind}
        if lo is not None:
            d["start"] = lo
        if hi is not None:
            d["end"] = hi
        return d
    nondmre = [v for v in order if not t["dmre"].get(v)]
    custom = [order[3], order[0], order[20], order[3], order[47], order[11]]
    lists = {"all": order, "default": nondmre, "custom": custom, "one": [order[17]], "empty": []}

    def decide(key, thunk):
        try:
            bad = thunk()
            out[key] = (bad is None, bad or "folded")
        except T.Trap as ex:
            out[key] = (False, "traps: %s" % ex)
        except T.Undecidable as ex:
            out[key] = (None, "does not fold (%s)" % ex)

    def t_default():
        r, _ = call("<symbol_size::SymbolList as core::default::Default>::default", [])
        return None if names(r) == nondmre else "default() is %d sizes %s.., expected the %d non-DMRE sizes in order" % (len(names(r)), names(r)[:3], len(nondmre))
    decide("default", t_default)

    def t_ext():
        r, _ = call(SL + "::with_extended_rectangles", [])
        return None if names(r) == order else "with_extended_rectangles() is %d sizes, expected all %d in order" % (len(names(r)), len(order))
    decide("with_extended_rectangles", t_ext)

    def t_all():
        r, _ = call(SL + "::all", [])
        return None if names(r) == order else "all() is %d sizes, expected all %d in order" % (len(names(r)), len(order))
    decide("all", t_all)

    def coll(fn):
        def thunk():
            for nm, vs in lists.items():
                for arg in ([mk(v) for v in vs], [mk(v) for v in reversed(vs)]):
                    r, _ = call(fn, [arg])
                    want = sorted(set(vs), key=lambda v: okey[v])
                    if names(r) != want:
                        return "%s of the %s list gives %r.., expected %r.." % (fn.split("::")[-1], nm, names(r)[:4], want[:4])
            return None
        return thunk
    decide("with_whitelist", coll(SL + "::with_whitelist"))
    decide("from_iter", coll("<symbol_size::SymbolList as core::iter::FromIterator<symbol_size::SymbolSize>>::from_iter"))

    def filt(fn, pred, args=()):
        def thunk():
            for nm, vs in lists.items():
                r, _ = call(fn, [sl(vs)] + list(args))
                want = [v for v in sorted(set(vs), key=lambda v: okey[v]) if pred(v)]
                if names(r) != want:
                    return "%s on the %s list keeps %r.., expected %r.." % (fn.split("::")[-1], nm, names(r)[:4], want[:4])
            return None
        return thunk
    decide("enforce_square", filt(SL + "::enforce_square", lambda v: bool(t["square"].get(v))))
    decide("enforce_rectangular", filt(SL + "::enforce_rectangular", lambda v: not t["square"].get(v)))

    def dim(fn, field):
        def thunk():
            vals = sorted({t["setup"][v][field] for v in V})
            pts = sorted({x + d for x in vals for d in (-1, 0, 1)} | {0, 1000})
            cases = []
            for lo in pts[::3]:
                cases += [("RangeFrom", lo, None), ("RangeTo", None, lo), ("RangeToInclusive", None, lo)]
                for hi in pts[1::4]:
                    cases += [("Range", lo, hi), ("RangeInclusive", lo, hi)]
            cases.append(("RangeFull", None, None))
            for kind, lo, hi in cases:
                def inside(x):
                    if lo is not None and x < lo:
                        return False
                    if hi is not None and (x > hi if "Inclusive" in kind else x >= hi):
                        return False
                    return True
                for nm in ("all", "custom"):
                    vs = lists[nm]
                    r, _ = call(fn, [sl(vs), rng(kind, lo, hi)])
                    want = [v for v in sorted(set(vs), key=lambda v: okey[v]) if inside(t["setup"][v][field])]
                    if names(r) != want:
                        return "%s(%s %s..%s) on the %s list keeps %d sizes %r.., expected %d %r.." % (fn.split("::")[-1], kind, lo, hi, nm, len(names(r)), names(r)[:3], len(want), want[:3])
            return None
        return thunk
    decide("enforce_width_in", dim(SL + "::enforce_width_in", "width"))
    decide("enforce_height_in", dim(SL + "::enforce_height_in", "height"))

    def t_first():
        pts = sorted({t["data"][v] + d for v in V for d in (-1, 0, 1)} | {0, 5000})
        for nm, vs in lists.items():
            srt = sorted(set(vs), key=lambda v: okey[v])
            for n in pts:
                r, _ = call(SL + "::first_symbol_big_enough_for", [sl(vs), n])
                want = next((v for v in srt if t["data"][v] >= n), None)
                if opt(r) != want:
                    return "first_symbol_big_enough_for(%d) on the %s list is %r, expected %r" % (n, nm, opt(r), want)
        return None
    decide("first_symbol_big_enough_for", t_first)

    def t_max():
        for nm, vs in lists.items():
            r, _ = call(SL + "::max_capacity", [sl(vs)])
            want = max([t["capacity"][v]["max"] for v in vs], default=0)
            if r != want:
                return "max_capacity() of the %s list is %r, expected %r" % (nm, r, want)
        return None
    decide("max_capacity", t_max)

    def t_hint():
        for nm, vs in lists.items():
            srt = sorted(set(vs), key=lambda v: okey[v])
            for n in (0, 1, 3, 50, 500, 1558, 1559, 5000):
                r, _ = call(SL + "::upper_limit_for_number_of_codewords", [sl(vs), n])
                if not srt:
                    want = None
                elif len(srt) == 1:
                    want = t["data"][srt[0]]
                else:
                    hit = next((v for v in srt if t["capacity"][v]["min"] >= n), srt[-1])
                    want = t["data"][hit]
                if opt(r) != want:
                    return "upper_limit_for_number_of_codewords(%d) on the %s list is %r, expected %r" % (n, nm, opt(r), want)
        return None
    decide("upper_limit", t_hint)

    def t_iter(fn):
        def thunk():
            for nm, vs in lists.items():
                r, _ = call(fn, [sl(vs)])
                want = sorted(set(vs), key=lambda v: okey[v])
                if names(r) != want:
                    return "%s of the %s list yields %r.., expected %r.." % (fn.split("::")[-1], nm, names(r)[:4], want[:4])
            return None
        return thunk
    decide("iter", t_iter(SL + "::iter"))
    decide("into_iter", t_iter("<symbol_size::SymbolList as core::iter::IntoIterator>::into_iter"))

    def t_contains():
        for nm, vs in lists.items():
            for v in (order[0], order[3], order[17], order[30], order[47]):
                r, _ = call(SL + "::contains", [sl(vs), mk(v)])
                if r is not (v in vs):
                    return "contains(%s) on the %s list is %r" % (v, nm, r)
        return None
    decide("contains", t_contains)

    def t_empty():
        for nm, vs in lists.items():
            r, _ = call(SL + "::is_empty", [sl(vs)])
            if r is not (not vs):
                return "is_empty() of the %s list is %r" % (nm, r)
        return None
    decide("is_empty", t_empty)

    def t_extend():
        fn = "<symbol_size::SymbolList as core::iter::Extend<symbol_size::SymbolSize>>::extend"
        for nm, vs in lists.items():
            for add in ([], [order[1]], [order[40], order[3], order[40], order[2]]):
                me = sl(vs)
                call(fn, [me, [mk(v) for v in add]])
                want = sorted(set(vs) | set(add), key=lambda v: okey[v])
                if names(me) != want:
                    return "extend(%r) on the %s list gives %r.., expected %r.." % (add, nm, names(me)[:4], want[:4])
        return None
    decide("Extend", t_extend)

    def t_from_single():
        hits = [n for n in f.thir if T.canon(n).startswith("<symbol_size::SymbolList as core::convert::From<") and "[" not in T.canon(n) and T.canon(n).endswith(">::from")]
        if len(hits) != 1:
            raise T.Undecidable("From<SymbolSize> not found")
        for v in order:
            r, _ = call(hits[0], [mk(v)])
            if names(r) != [v]:
                return "SymbolList::from(%s) is %r" % (v, names(r))
        return None
    decide("From:single", t_from_single)

    def t_from_array():
        hits = [n for n in f.thir if T.canon(n).startswith("<symbol_size::SymbolList as core::convert::From<[") and T.canon(n).endswith(">::from")]
        if len(hits) != 1:
            raise T.Undecidable("From<[SymbolSize; N]> not found")
        for nm, vs in lists.items():
            r, _ = call(hits[0], [[mk(v) for v in vs]])
            want = sorted(set(vs), key=lambda v: okey[v])
            if names(r) != want:
                return "SymbolList::from(array %s) is %r.., expected %r.." % (nm, names(r)[:4], want[:4])
        return None
    decide("From:array", t_from_array)
    return {k: list(v) for k, v in out.items()}
