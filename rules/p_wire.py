"""Wiring / gate rules: PROV-PIPE (C01), PROV-SYM + PAD-PATH (C02), DOM-ERRCLS + GATE-HINT (C11, C10), TIE-ORDER (C10)."""
from .core import Ob, need, floor
from . import mirlib as M
from . import thirlib as T
from .p_modes import find_body, agg_sites
from .p_rs import is_var, is_num_data, adt_fields, strip_into_iter, SS

SL = "symbol_size::SymbolList"
DEE = "encodation::DataEncodingError"


def _fn(f, suffix, rule):
    hits = [n for n in f.thir if T.canon(n).endswith(suffix)]
    need(len(hits) == 1, rule, suffix, "(found %d)" % len(hits))
    return hits[0]


def _field_of_self(x, field):
    return isinstance(x, tuple) and x[0] == "field" and x[2] == field and is_var(x[1], "self")


def _strip_deref(x):
    while isinstance(x, tuple) and x[0] == "call" and (x[1].endswith("::deref") or x[1].endswith("::deref_mut") or x[1].endswith("as_slice") or x[1].endswith("as_mut_slice")):
        x = x[2][0]
    return x


def prov_pipe(ctx):
    r = "PROV-PIPE"
    f = ctx.facts()
    obs = []
    # ---- DataMatrix::decode
    fn = "DataMatrix::decode"
    need(fn in f.thir, r, fn)
    sts = T.stmts(f.thir[fn]["body"], {"__noinline__": True})
    site = T.span_str(f.thir[fn]["span"])
    lp = [s for s in sts if s[0] == "letpat" and s[2] is not None and T.sx_calls(s[2], "MatrixMap::try_from_bits")]
    ok = len(lp) == 1
    mm = sz = None
    if ok:
        c = T.sx_calls(lp[0][2], "MatrixMap::try_from_bits")[0]
        ok = is_var(c[2][0], "pixels") and is_var(c[2][1], "width") and len(lp[0][1]) == 2
        mm, sz = [n.split("#")[0] for n in lp[0][1]]
    obs.append(Ob(r, "decode:parse", ok, "decode parses (matrix, size) from try_from_bits(pixels, width)", site=site))
    cw = [s for s in sts if s[0] == "let" and s[3][0] == "call" and s[3][1].endswith("MatrixMap::codewords")]
    ok = len(cw) == 1 and mm is not None and is_var(cw[0][3][2][0], mm)
    cwn = cw[0][1].split("#")[0] if cw else None
    obs.append(Ob(r, "decode:codewords", ok, "the codewords are read from that matrix", site=site))
    ec = [x for s in sts for e in T.stmt_exprs(s) for x in T.sx_calls(e, "syndrome_based::decode")]
    ok = len(ec) == 1 and cwn and is_var(_strip_deref(ec[0][2][0]), cwn) and is_var(ec[0][2][1], sz)
    tried = any(x[0] == "try" and T.sx_calls(x, "syndrome_based::decode") for s in sts for e in T.stmt_exprs(s) for x in T.sx_walk(e))
    obs.append(Ob(r, "decode:error-correction", ok and tried, "error correction runs on those codewords with the parsed size, and its error is propagated", site=site, detail=[T.sx_show(x) for x in ec]))
    dd = [x for s in sts for e in T.stmt_exprs(s) for x in T.sx_calls(e, "decodation::decode_data")]
    ok = False
    if len(dd) == 1:
        a = T.look_through(dd[0][2][0], T.let_values(sts))
        if a[0] == "call" and a[1].endswith("::index") and is_var(_strip_deref(a[2][0]), cwn):
            rt = adt_fields(a[2][1], "core::ops::RangeTo")
            ok = bool(rt) and is_num_data(rt.get("end"), sz)
    obs.append(Ob(r, "decode:data-part", ok, "data decoding gets exactly codewords[..size.num_data_codewords()] of the same size", site=site, detail=[T.sx_show(x, 300) for x in dd]))
    # order: correction before data decoding
    idx_ec = next((i for i, s in enumerate(sts) if any(T.sx_calls(e, "syndrome_based::decode") for e in T.stmt_exprs(s))), None)
    idx_dd = next((i for i, s in enumerate(sts) if any(T.sx_calls(e, "decodation::decode_data") for e in T.stmt_exprs(s))), None)
    obs.append(Ob(r, "decode:order", idx_ec is not None and idx_dd is not None and idx_ec < idx_dd, "error correction precedes data decoding"))
    # ---- encode_eci
    fn = "DataMatrixBuilder::encode_eci"
    need(fn in f.thir, r, fn)
    sts = T.stmts(f.thir[fn]["body"], {"__noinline__": True})
    site = T.span_str(f.thir[fn]["span"])
    lp = [s for s in sts if s[0] == "letpat" and s[2] is not None and T.sx_calls(s[2], "data::encode_data_internal")]
    ok = len(lp) == 1
    cwn = szn = None
    if ok:
        c = T.sx_calls(lp[0][2], "data::encode_data_internal")[0]
        a = c[2]
        ok_opt = {nm: bool(_field_of_self(a[i], nm)) for i, nm in ((1, "symbol_list"), (3, "encodation_types"), (4, "use_macros"), (5, "fnc1_start"))}
        ok = is_var(a[0], "data") and is_var(a[2], "eci") and not any(is_var(y, "data") or is_var(y, "eci") for x in (a[1], a[3], a[4], a[5]) for y in T.sx_walk(x))
        cwn, szn = [n.split("#")[0] for n in lp[0][1]]
    else:
        ok_opt = {}
    obs.append(Ob(r, "encode:data", ok, "encode_eci encodes `data` itself, with the caller's ECI; the options do not depend on the data", site=site))
    for nm in ("symbol_list", "encodation_types", "use_macros", "fnc1_start"):
        obs.append(Ob(r, "encode:option:" + nm, ok_opt.get(nm, False), "encode_eci passes the builder's own `%s` to the encoder" % nm, site=site))
    # a plain move `let mut codewords = data_codewords;` gives the same value another name
    alias = {s0[1].split("#")[0]: s0[3][1] for s0 in sts if s0[0] == "let" and s0[3][0] == "var"}

    def root(n):
        k0 = 0
        while n in alias and k0 < 5:
            n, k0 = alias[n], k0 + 1
        return n

    def is_v(e, n):
        return n is not None and isinstance(e, tuple) and len(e) > 1 and e[0] == "var" and root(e[1]) == root(n)
    ecc = [s for s in sts if s[0] == "let" and s[3][0] == "call" and s[3][1] == "errorcode::encode_error"]
    ok = len(ecc) == 1 and cwn and is_v(_strip_deref(ecc[0][3][2][0]), cwn) and is_v(ecc[0][3][2][1], szn)
    eccn = ecc[0][1].split("#")[0] if ecc else None
    obs.append(Ob(r, "encode:ecc", ok, "error codewords are computed from exactly the returned data codewords and size", site=site))
    nd = [s for s in sts if s[0] == "let" and s[3][0] == "call" and s[3][1].endswith("Vec::len") and is_v(s[3][2][0], cwn)]
    ext = [(i, x) for i, s in enumerate(sts) for e in T.stmt_exprs(s) for x in T.sx_walk(e)
           if isinstance(x, tuple) and x and x[0] == "call" and x[1].split("::")[-1] in ("extend_from_slice", "extend", "append") and len(x[2]) == 2]
    ok = len(nd) == 1 and len(ext) == 1 and is_v(ext[0][1][2][0], cwn) and is_v(_strip_deref(ext[0][1][2][1]), eccn) and sts.index(nd[0]) < ext[0][0]
    obs.append(Ob(r, "encode:append", ok, "the error codewords are appended after the data codewords; num_data_codewords is the length before appending", site=site))
    res = sts[-1]
    ok = False
    if res[0] == "expr" and res[1][0] == "adt" and res[1][2] == "Ok":
        dm = res[1][3][0][1]
        if dm[0] == "adt" and dm[1] == "DataMatrix":
            d = dict(dm[3])
            ok = is_v(d.get("size"), szn) and is_v(d.get("codewords"), cwn) and nd and is_v(d.get("num_data_codewords"), nd[0][1].split("#")[0])
    obs.append(Ob(r, "encode:result", ok, "the DataMatrix stores that size, those codewords and that data length", site=site))
    # ---- bitmap / data_codewords
    fn = "DataMatrix::bitmap"
    need(fn in f.thir, r, fn)
    e = T.sx(f.thir[fn]["body"], {})
    nw = T.sx_calls(e, "MatrixMap::new_with_codewords")
    ok = e[0] == "call" and e[1].endswith("MatrixMap::bitmap") and len(nw) == 1 and _field_of_self(_strip_deref(nw[0][2][0]), "codewords") and _field_of_self(nw[0][2][1], "size")
    obs.append(Ob(r, "bitmap", ok, "bitmap() places self.codewords into a matrix of self.size", detail=T.sx_show(e)))
    fn = "DataMatrix::data_codewords"
    need(fn in f.thir, r, fn)
    e = T.sx(f.thir[fn]["body"], {})
    ok = e[0] == "call" and e[1].endswith("::index") and _field_of_self(_strip_deref(e[2][0]), "codewords")
    if ok:
        rt = adt_fields(e[2][1], "core::ops::RangeTo")
        ok = bool(rt) and _field_of_self(rt.get("end"), "num_data_codewords")
    obs.append(Ob(r, "data_codewords", ok, "data_codewords() = codewords[..num_data_codewords]", detail=T.sx_show(e)))
    # new_with_codewords -> new(size) + copy_from_codewords(data)
    fn = _fn(f, "MatrixMap<bool>::new_with_codewords", r) if any(T.canon(n).endswith("MatrixMap<bool>::new_with_codewords") for n in f.thir) else None
    obs += floor(obs, r, 10, "pipeline wiring obligations")
    return obs


def prov_sym(ctx):
    r = "PROV-SYM"
    f = ctx.facts()
    obs = []
    cw = _fn(f, "GenericDataEncoder::codewords", r)
    sts = T.stmts(f.thir[cw]["body"], {"__noinline__": True})
    site = T.span_str(f.thir[cw]["span"])
    ss = [s for s in sts if s[0] == "let" and T.sx_calls(s[3], "GenericDataEncoder::symbol_for")]
    ok = len(ss) == 1
    name = None
    # symbol_for's body with its parameter: the count handed to first_symbol_big_enough_for, as a function of the argument
    sf0 = _fn(f, "GenericDataEncoder::symbol_for", r)
    sfb = f.thir[sf0]
    sfe = T.sx(sfb["body"], {})
    sfp = (sfb["params"][1].get("pat") or {}).get("name") if len(sfb["params"]) == 2 else None

    def is_len_cw(x):
        return isinstance(x, tuple) and x[0] == "call" and x[1].endswith("Vec::len") and _field_of_self(x[2][0], "codewords")

    def needed(arg):
        """the number of codewords the chosen symbol must hold when symbol_for is called with `arg`: (uses codewords.len(), extra sx)"""
        if not (sfe[0] == "call" and sfe[1] == SL + "::first_symbol_big_enough_for" and _field_of_self(sfe[2][0], "symbol_list") and sfp):
            return None
        n0 = T.subst_sx(sfe[2][1], {sfp: arg})
        terms = []

        def flat(x):
            if x[0] == "bin" and x[1] == "Add":
                flat(x[2])
                flat(x[3])
            else:
                terms.append(x)
        flat(n0)
        lens = [x for x in terms if is_len_cw(x)]
        rest = [x for x in terms if not is_len_cw(x) and x != ("lit", 0)]
        return (len(lens), rest)
    if ok:
        c = T.sx_calls(ss[0][3], "GenericDataEncoder::symbol_for")[0]
        ok = is_var(c[2][0], "self") and needed(c[2][1]) == (1, []) and any(x[0] == "try" for x in T.sx_walk(ss[0][3]))
        name = ss[0][1].split("#")[0]
    obs.append(Ob(r, "chosen", ok, "after encoding, the symbol is the first of the list with room for exactly the codewords written (symbol_for(0) / symbol_for(codewords.len())), an error if none is big enough", site=site))
    pads = [(i, x) for i, s in enumerate(sts) for e in T.stmt_exprs(s) for x in T.sx_calls(e, "GenericDataEncoder::add_padding")]
    ok = len(pads) == 1 and name and is_var(pads[0][1][2][1], name) and pads[0][0] > sts.index(ss[0])
    obs.append(Ob(r, "padded-to-chosen", ok, "padding fills up to exactly the chosen symbol", site=site))
    # no codeword is pushed between the choice and the padding, and none after
    after = sts[sts.index(ss[0]) + 1:] if ss else []
    extra = [x for s in after for e in T.stmt_exprs(s) for x in T.sx_walk(e) if x[0] == "call" and (x[1].endswith("::push") or x[1].endswith("::encode") or x[1].endswith("::insert"))]
    obs.append(Ob(r, "nothing-after", not extra, "no codeword is written after the symbol has been chosen except by add_padding", detail=[T.sx_show(x) for x in extra]))
    res = sts[-1]
    ok = False
    if res[0] == "expr" and res[1][0] == "adt" and res[1][2] == "Ok":
        tup = res[1][3][0][1]
        if tup[0] == "tuple" and len(tup[1]) == 2:
            swaps = [x for s in sts for e in T.stmt_exprs(s) for x in T.sx_calls(e, "mem::swap")]
            first = tup[1][0]
            if first[0] == "var":
                src = [s for s in sts if s[0] == "let" and s[1] == first[2]]
                if src and src[0][3][0] == "call" and (src[0][3][1].endswith("mem::take") or src[0][3][1].endswith("mem::replace")):
                    first = src[0][3]
            if first[0] == "call" and (first[1].endswith("mem::take") or first[1].endswith("mem::replace")):
                ok = is_var(tup[1][1], name) and _field_of_self(first[2][0], "codewords")
            else:
                ok = is_var(tup[1][1], name) and first[0] == "var" and len(swaps) == 1 and \
                    any(_field_of_self(a, "codewords") for a in swaps[0][2]) and any(is_var(a, first[1]) for a in swaps[0][2])
    obs.append(Ob(r, "returned", ok, "the result is (the encoder's codeword vector, the chosen symbol)", site=site))
    # symbol_for
    sf = _fn(f, "GenericDataEncoder::symbol_for", r)
    e = T.sx(f.thir[sf]["body"], {})
    ok = e[0] == "call" and e[1] == SL + "::first_symbol_big_enough_for" and _field_of_self(e[2][0], "symbol_list")
    if ok:
        # every other caller (symbol_size_left) asks for codewords.len() + its extra
        others = []
        for name2, b2 in f.thir.items():
            if T.canon(name2) == T.canon(cw):
                continue
            for c2 in T.calls(b2["body"]):
                if T.canon(T.callee_of(c2)).endswith("GenericDataEncoder::symbol_for"):
                    e2 = T.sx(c2, T.let_env(b2["body"]))
                    nd2 = needed(e2[2][1])
                    pn2 = [(p_.get("pat") or {}).get("name", "#").split("#")[0] for p_ in b2["params"]]
                    others.append(nd2 is not None and nd2[0] == 1 and len(nd2[1]) == 1 and nd2[1][0][0] == "var" and nd2[1][0][1] in pn2)
        ok = bool(others) and all(others)
    obs.append(Ob(r, "symbol_for", ok, "symbol_for(extra) = first symbol of the caller's list with room for codewords.len() + extra (so size is a member of the list)", detail=T.sx_show(e)))
    # symbol_size_left uses the same
    obs += floor(obs, r, 5, "symbol choice obligations")
    return obs


def _is_not_ascii(c, neg=False):
    """`self.encodation` is not Ascii: ne(enc, Ascii) | !eq(enc, Ascii) | !enc.is_ascii() | !matches!(enc, Ascii)"""
    if c[0] == "un" and c[1] == "Not":
        return _is_not_ascii(c[2], not neg)
    if c[0] == "call" and (c[1].endswith("::ne") or c[1].endswith("::eq")) and len(c[2]) == 2:
        a, b = c[2]
        pair = (_field_of_self(a, "encodation") and b[0] == "adt" and b[2] == "Ascii") or (_field_of_self(b, "encodation") and a[0] == "adt" and a[2] == "Ascii")
        return pair and (c[1].endswith("::ne") != neg)
    if c[0] == "call" and c[1].endswith("EncodationType::is_ascii") and _field_of_self(c[2][0], "encodation"):
        return neg
    if c[0] == "match" and _field_of_self(c[1], "encodation") and len(c[2]) == 2:
        arms = dict((d, b) for d, b in c[2])
        if arms.get("Ascii") == ("lit", True) and arms.get("Wild") == ("lit", False):
            return neg
    return False


def pad_exec(ctx):
    """add_padding folded as a whole for every combination of (symbol capacity, codewords already written, current mode) of a
    small grid plus one full run over the largest symbol (every pad position 2..1558): what it appends must be the unlatch (iff
    the encoder is not in ASCII mode and room is left), the pad codeword 129, and 253-state randomised pads for their positions"""
    r = "PAD-PATH"
    f = ctx.facts()
    ap = _fn(f, "GenericDataEncoder::add_padding", r)
    b = f.thir[ap]
    pn = [p_["pat"]["name"] for p_ in b["params"] if p_.get("pat", {}).get("k") == "Bind"]
    need(len(pn) == 2, r, ap, "(parameters self, size)")
    adt = f.adts.get("encodation::GenericDataEncoder")
    need(adt, r, "encodation::GenericDataEncoder")
    fields = [x["name"] for x in adt["variants"][0]["fieldtys"]]
    need("codewords" in fields and "encodation" in fields, r, ap, "(fields codewords, encodation)")
    bad = None
    n_cases = 0

    def run(cap, have, mode):
        me = {"__adt__": "encodation::GenericDataEncoder", "__variant__": "GenericDataEncoder"}
        for i, nm in enumerate(fields):
            v = T.Token(nm)
            if nm == "codewords":
                v = [65] * have
            if nm == "encodation":
                v = {"__adt__": "encodation::encodation_type::EncodationType", "__variant__": mode}
            me[nm] = v
            me["#%d" % i] = v

        def on_call(folder, c):
            cc = T.canon(T.callee_of(c))
            if cc.endswith("SymbolSize::num_data_codewords"):
                return cap
            return NotImplemented
        fo = T.Folder(f, env={pn[0]: me, pn[1]: T.Token("size")}, on_call=on_call, effects=True, local_calls=3)
        fo.max_iter = 4000
        fo.run(b["body"])
        cw = me["codewords"]
        return list(cw[have:]), me["encodation"].get("__variant__") if isinstance(me["encodation"], dict) else me["encodation"]

    def want(cap, have, mode):
        out = []
        room = cap - have
        if room == 0:
            return out, mode
        if mode != "Ascii":
            out.append(254)
            room -= 1
        if room > 0:
            out.append(129)
            room -= 1
        for _ in range(room):
            pos = have + len(out) + 1
            t = 129 + ((149 * pos) % 253 + 1)
            out.append(t if t <= 254 else t - 254)
        return out, "Ascii"
    try:
        grid = [(cap, have, mode) for cap in (3, 5, 8, 12) for have in range(0, cap + 1) for mode in ("Ascii", "C40", "Base256")]
        grid += [(1558, 0, "Ascii"), (1558, 1, "Edifact"), (1558, 1557, "Text"), (1558, 1556, "X12")]
        for cap, have, mode in grid:
            got = run(cap, have, mode)
            exp = want(cap, have, mode)
            n_cases += 1
            if got[0] != exp[0] and bad is None:
                k = next((i for i in range(min(len(got[0]), len(exp[0]))) if got[0][i] != exp[0][i]), min(len(got[0]), len(exp[0])))
                bad = "symbol of %d data codewords, %d written, mode %s: appends %d codewords (first difference at index %d: %r vs %r)" % (
                    cap, have, mode, len(got[0]), k, got[0][k:k + 3], exp[0][k:k + 3])
            if exp[0] and mode != "Ascii" and got[1] != "Ascii" and bad is None:
                bad = "symbol of %d data codewords, %d written, mode %s: the mode is %s after padding, not Ascii" % (cap, have, mode, got[1])
    except T.Trap as ex:
        bad = "add_padding can trap: %s" % ex
    except T.Undecidable as ex:
        return None, "add_padding does not fold (%s)" % ex
    return bad is None, bad or "%d (capacity, written, mode) combinations incl. every pad position 2..1558" % n_cases


def pad_path(ctx):
    r = "PAD-PATH"
    f = ctx.facts()
    ok_exec, det_exec = pad_exec(ctx)
    if ok_exec is not None:
        # decided by folding the whole function: independent of how the unlatch / first pad / pad loop are spelled
        obs = [Ob(r, k, bool(ok_exec), what + ": " + str(det_exec), site=T.span_str(f.thir[_fn(f, "GenericDataEncoder::add_padding", r)]["span"]))
               for k, what in (("size_left", "padding fills exactly the chosen symbol"), ("unlatch", "the unlatch 254 is pushed exactly when the encoder is not in ASCII mode and room is left"),
                               ("first-pad", "the first pad is the plain codeword 129, pushed iff space is left"), ("order", "unlatch comes before the first pad"),
                               ("pad-loop", "exactly the remaining positions get further pads"), ("pad-253", "each further pad is 129 randomised with the 253-state algorithm for its 1-based position"))]
        return obs
    obs = []
    ap = _fn(f, "GenericDataEncoder::add_padding", r)
    b = f.thir[ap]
    sts = T.stmts(b["body"], {"__noinline__": True})
    site = T.span_str(b["span"])
    sl = [s for s in sts if s[0] == "let" and s[1].startswith("size_left#")]
    ok = len(sl) == 1 and sl[0][3][0] == "bin" and sl[0][3][1] == "Sub" and is_num_data(sl[0][3][2], "size") and sl[0][3][3][0] == "call" and sl[0][3][3][1].endswith("Vec::len") and _field_of_self(sl[0][3][3][2][0], "codewords")
    obs.append(Ob(r, "size_left", ok, "size_left = size.num_data_codewords() - codewords.len()", site=site))
    # UNLATCH only when not in ASCII; also resets the mode
    unl = []
    for s in T.stmt_walk(sts):
        if s[0] == "if":
            for st in s[2]:
                if st[0] == "expr" and st[1][0] == "call" and st[1][1].endswith("::push") and st[1][2][1][0] == "const" and st[1][2][1][1] == "encodation::UNLATCH":
                    unl.append(s)
    all_unl = [x for s in T.stmt_walk(sts) for e in T.stmt_exprs(s) for x in T.sx_walk(e) if x[0] == "call" and x[1].endswith("::push") and x[2][1][0] == "const" and x[2][1][1] == "encodation::UNLATCH"]
    ok = len(unl) == 1 and len(all_unl) == 1
    if ok:
        ok = _is_not_ascii(unl[0][1])
        ok = ok and any(st[0] == "assignop" and st[1] == "SubAssign" and is_var(st[2], "size_left") and st[3] == ("lit", 1) for st in unl[0][2])
    obs.append(Ob(r, "unlatch", ok, "the unlatch 254 is pushed exactly when the encoder is not in ASCII mode, and counted", site=site))
    # first pad is the constant PAD under size_left > 0
    pad = []
    for s in sts:
        if s[0] == "if" and s[1][0] == "bin" and s[1][1] == "Gt" and is_var(s[1][2], "size_left") and s[1][3] == ("lit", 0):
            if any(st[0] == "expr" and st[1][0] == "call" and st[1][1].endswith("::push") and st[1][2][1][0] == "const" and st[1][2][1][1] == "encodation::ascii::PAD" for st in s[2]) \
                    and any(st[0] == "assignop" and st[1] == "SubAssign" and is_var(st[2], "size_left") for st in s[2]):
                pad.append(s)
    obs.append(Ob(r, "first-pad", len(pad) == 1, "the first pad is the plain codeword 129, pushed iff space is left", site=site))
    order_ok = bool(unl) and bool(pad) and sts.index(unl[0]) < sts.index(pad[0])
    obs.append(Ob(r, "order", order_ok, "unlatch comes before the first pad"))
    # the randomised pads
    loops = [s for s in sts if s[0] == "for"]
    ok = len(loops) == 1
    if ok:
        rp = strip_into_iter(loops[0][2])
        rf = adt_fields(rp, "core::ops::Range")
        ok = bool(rf) and rf.get("start") == ("lit", 0) and is_var(rf.get("end"), "size_left") and sts.index(loops[0]) > sts.index(pad[0]) if pad else False
    obs.append(Ob(r, "pad-loop", ok, "exactly size_left further pads follow, from one loop", site=site))
    # 253-state algorithm: fold the loop body's pushed value for positions 1..2400
    body = None
    counters = {}
    for m in T.exprs(b["body"], "Match"):
        fl = T.for_loop_parts(m)
        if fl:
            body = fl[2]
    if body is None:
        # `while remaining > 0 { ..; remaining -= 1 }`: the body of the counting loop; its counter is just some positive number
        for lp in T.exprs(b["body"], "Loop"):
            wp = T.while_parts(lp)
            if wp and body is None:
                body = wp[1]
                for n in T.walk(body):
                    if n.get("k") == "AssignOp":
                        tgt = T.strip(n["lhs"])
                        if tgt.get("k") == "Var":
                            counters[tgt["name"]] = 1000
    bad = None
    n = 0
    if body is not None:
        for L in range(0, 2400):
            sink = []

            def on_call(folder, c):
                cc = T.canon(T.callee_of(c))
                if cc.endswith("Vec::len"):
                    return L
                if T.sink_call(folder, c, sink):
                    return None
                return NotImplemented
            try:
                selfn = b["params"][0]["pat"]["name"] if b["params"] and b["params"][0].get("pat", {}).get("k") == "Bind" else "self"
                T.Folder(f, env=dict(counters, **{selfn: "SELF"}), on_call=on_call, effects=True, local_calls=2).run(body)
            except T.Trap as ex:
                sink = "trap " + str(ex)
            except T.Undecidable as ex:
                sink = "undecidable " + str(ex)
            n += 1
            pos = L + 1
            pr = (149 * pos) % 253 + 1
            t = 129 + pr
            want = [t if t <= 254 else t - 254]
            if sink != want and bad is None:
                bad = "pad at codeword position %d is %r, 253-state algorithm gives %r" % (pos, sink, want)
    else:
        bad = "pad loop body not found"
    obs.append(Ob(r, "pad-253", bad is None, "each further pad is 129 randomised with the 253-state algorithm for its 1-based position (%d positions)%s" % (n, "" if not bad else ": " + bad), site=site))
    obs += floor(obs, r, 6, "padding obligations")
    return obs


def _total_on_nonempty(f, e, depth=6):
    """is this Option-valued expression Some whenever self.symbols is non-empty?"""
    if depth == 0 or not isinstance(e, tuple):
        return False
    if e[0] == "adt" and e[2] == "Some":
        return True
    if e[0] == "if":
        return _total_on_nonempty(f, e[2], depth - 1) and e[3] is not None and _total_on_nonempty(f, e[3], depth - 1)
    if e[0] != "call":
        return False
    c = e[1]
    last = c.split("::")[-1]
    if c.endswith("Option::map") or c.endswith("Option::copied") or c.endswith("Option::cloned"):
        return _total_on_nonempty(f, e[2][0], depth - 1)
    if c.endswith("Option::or_else"):
        if _total_on_nonempty(f, e[2][0], depth - 1):
            return True
        cl = e[2][1]
        if cl[0] == "closure" and cl[1] in f.thir:
            return _total_on_nonempty(f, T.sx(f.thir[cl[1]]["body"], {}), depth - 1)
        return False
    if c.endswith("Option::or"):
        return _total_on_nonempty(f, e[2][0], depth - 1) or _total_on_nonempty(f, e[2][1], depth - 1)
    if c.endswith("BTreeSet::first") or c.endswith("BTreeSet::last"):
        return e[2][0][0] == "field" and e[2][0][2] == "symbols"
    if last in ("next", "next_back", "last", "max", "min") and e[2]:
        src = e[2][0]
        while src[0] == "call" and (src[1].endswith("Iterator::copied") or src[1].endswith("Iterator::cloned") or src[1].endswith("Iterator::rev")):
            src = src[2][0]
        return src[0] == "call" and (src[1].endswith("BTreeSet::iter") or src[1].endswith("into_iter")) and src[2][0][0] == "field" and src[2][0][2] == "symbols"
    if c.endswith("BTreeSet::first") or c.endswith("BTreeSet::last"):
        return e[2][0][0] == "field" and e[2][0][2] == "symbols"
    return False


def gate_hint(ctx):
    r = "GATE-HINT"
    f = ctx.facts()
    obs = []
    fn = SL + "::upper_limit_for_number_of_codewords"
    need(fn in f.thir, r, fn)
    e = T.sx(f.thir[fn]["body"], {})
    ok = _total_on_nonempty(f, e)
    if not ok:
        # statement form: guard clauses `if c { return A; }` followed by a final expression - every exit must be total
        hs = T.stmts(f.thir[fn]["body"], {})
        exits = []
        shape_ok = bool(hs) and hs[-1][0] == "expr"
        for st in hs[:-1]:
            if st[0] in ("let", "letpat"):
                continue
            if st[0] == "if" and not st[3] and len(st[2]) == 1 and st[2][0][0] == "return" and st[2][0][1] is not None:
                exits.append(st[2][0][1])
            else:
                shape_ok = False
        if shape_ok:
            exits.append(hs[-1][1])
            ok = all(_total_on_nonempty(f, x) for x in exits)
            e = ("exits", tuple(exits))
    if not ok:
        # expression shape not recognised: fold the function on the full, the default, a custom and a one-element list (Some of the
        # specified size for every input length) and on the empty list (None)
        from . import p_symbols
        okx, detx = p_symbols.filter_exec(ctx).get("upper_limit", (None, "not folded"))
        if okx:
            ok = True
            e = ("folded", detx)
    obs.append(Ob(r, "hint-total", ok,
                  "SymbolList::upper_limit_for_number_of_codewords returns Some for every non-empty list on every branch (it is only a reservation hint; its None is mapped to SymbolListEmpty)",
                  site=T.span_str(f.thir[fn]["span"]), detail=T.sx_show(e, 400)))
    # the wrapper maps None to SymbolListEmpty and its only use is Vec::reserve
    if not [n for n in f.thir if T.canon(n).endswith("GenericDataEncoder::upper_limit_for_number_of_codewords")]:
        return obs + _gate_hint_inline(f, r, fn)
    w = _fn(f, "GenericDataEncoder::upper_limit_for_number_of_codewords", r)
    we = T.sx(f.thir[w]["body"], {})
    ok = we[0] == "call" and we[1].endswith("Option::ok_or") and we[2][0][0] == "call" and we[2][0][1] == fn and we[2][1][0] == "adt" and we[2][1][2] == "SymbolListEmpty"
    obs.append(Ob(r, "wrapper", ok, "the encoder's wrapper is upper_limit(..).ok_or(SymbolListEmpty)", detail=T.sx_show(we)))
    users = []
    for name, b in f.thir.items():
        for c in T.calls(b["body"]):
            if T.canon(T.callee_of(c)) == T.canon(w):
                users.append(T.canon(name))
    cw = _fn(f, "GenericDataEncoder::codewords", r)
    sts = T.stmts(f.thir[cw]["body"], {"__noinline__": True})
    res = [x for s in sts for ex in T.stmt_exprs(s) for x in T.sx_calls(ex, "Vec::reserve")]
    ok = users == [T.canon(cw)] and len(res) == 1 and any(T.canon(x[1]) == T.canon(w) for x in T.sx_walk(res[0][2][1]) if x[0] == "call")
    obs.append(Ob(r, "only-a-hint", ok, "the value is used only as the argument of Vec::reserve in codewords()", detail=users))
    return obs


def _is_hint_mapping(x, fn):
    """`<SymbolList>::upper_limit_for_number_of_codewords(..).ok_or(SymbolListEmpty)`, possibly under `?`"""
    if isinstance(x, tuple) and x and x[0] == "try":
        x = x[1]
    return isinstance(x, tuple) and x and x[0] == "call" and x[1].endswith("Option::ok_or") and x[2][0][0] == "call" and x[2][0][1] == fn \
        and x[2][1][0] == "adt" and x[2][1][2] == "SymbolListEmpty"


def _gate_hint_inline(f, r, fn):
    """no wrapper method: codewords() itself maps the missing hint and hands the value to Vec::reserve"""
    obs = []
    cw = _fn(f, "GenericDataEncoder::codewords", r)
    sts = T.stmts(f.thir[cw]["body"], {"__noinline__": True})
    users = sorted({T.canon(name) for name, b in f.thir.items() for c in T.calls(b["body"]) if T.canon(T.callee_of(c)) == fn})
    maps = [st for st in T.stmt_walk(sts) if st[0] == "let" and _is_hint_mapping(st[3], fn)]
    direct = [x for st in T.stmt_walk(sts) for ex in T.stmt_exprs(st) for x in T.sx_calls(ex, "Vec::reserve") if _is_hint_mapping(x[2][1], fn)]
    obs.append(Ob(r, "wrapper", len(maps) + len(direct) == 1 and users == [T.canon(cw)], "codewords() maps the missing hint with upper_limit(..).ok_or(SymbolListEmpty) (no wrapper method)", detail=users))
    ok = bool(direct)
    if maps and not direct:
        v = maps[0][1]
        uses = [x for st in T.stmt_walk(sts) for ex in T.stmt_exprs(st) for x in T.sx_walk(ex) if isinstance(x, tuple) and len(x) > 2 and x[0] == "var" and x[2] == v]
        res = [x for st in T.stmt_walk(sts) for ex in T.stmt_exprs(st) for x in T.sx_calls(ex, "Vec::reserve") if len(x[2]) == 2 and x[2][1][0] == "var" and len(x[2][1]) > 2 and x[2][1][2] == v]
        ok = len(uses) == 1 and len(res) == 1
    obs.append(Ob(r, "only-a-hint", ok, "the value is used only as the argument of Vec::reserve in codewords()"))
    return obs


def dom_errcls(ctx):
    r = "DOM-ERRCLS"
    f = ctx.facts()
    obs = []
    vs = f.enum_variants(DEE)
    obs.append(Ob(r, "variants", vs is not None and sorted(vs) == ["SymbolListEmpty", "TooMuchOrIllegalData"], "DataEncodingError has exactly the two variants the property names", detail=vs))
    sites = []
    for name, raw in f.mir.items():
        body = M.Body(raw)
        if "core::clone::Clone" in name or "core::fmt::Debug" in name or "core::cmp::PartialEq" in name:
            continue  # derived impls copy/compare existing values
        for b, i, v, st in agg_sites(body, DEE):
            if v == "SymbolListEmpty":
                sites.append((T.canon(name), body, b, st))
    cwn = T.canon(_fn(f, "GenericDataEncoder::codewords", r))
    whits = [n for n in f.thir if T.canon(n).endswith("GenericDataEncoder::upper_limit_for_number_of_codewords")]
    wn = T.canon(whits[0]) if len(whits) == 1 else None
    # without the wrapper method, codewords() itself holds the `.ok_or(SymbolListEmpty)` of the reservation hint
    n_hint = 0
    if wn is None:
        cw_sts = T.stmts(f.thir[_fn(f, "GenericDataEncoder::codewords", r)]["body"], {"__noinline__": True})
        n_hint = sum(1 for st0 in T.stmt_walk(cw_sts) for ex in T.stmt_exprs(st0) for x in T.sx_walk(ex) if _is_hint_mapping(x, SL + "::upper_limit_for_number_of_codewords"))
    k = 0
    for name, body, b, st in sites:
        k += 1
        site = M.fmt_span(st["span"])
        if name == cwn and n_hint:
            gs0 = []
            for cb, t in body.calls(lambda c, _t: T.canon(c) == SL + "::is_empty"):
                e0 = body.bool_edges_of_call(cb)
                if e0:
                    gs0.append(e0)
            if not any(body.dominated_by_edge(b, g0[0]) for g0 in gs0):
                n_hint -= 1
                obs.append(Ob(r, "site:%d" % k, True, "codewords() maps a missing reservation hint to SymbolListEmpty (sound iff GATE-HINT holds)", site=site))
                continue
        if name == cwn:
            gs = []
            for cb, t in body.calls(lambda c, _t: T.canon(c) == SL + "::is_empty"):
                if any(isinstance(x, tuple) and x[0] == "field" and x[2] == "symbol_list" for x in M.walk(body.expr_of_operand(t["args"][0]))):
                    e = body.bool_edges_of_call(cb)
                    if e:
                        gs.append(e)
            ok = any(body.dominated_by_edge(b, g[0]) for g in gs)
            obs.append(Ob(r, "site:%d" % k, ok, "codewords(): SymbolListEmpty is constructed only on the true edge of symbol_list.is_empty()", site=site))
            # ... and that test dominates every other exit
            others = [bb for bb, i2, v2, s2 in agg_sites(body, DEE) if v2 != "SymbolListEmpty"]
            ok2 = bool(gs) and bool(others) and all(any(body.dominated_by_edge(bb, g[1]) for g in gs) for bb in others)
            # the true edge leads straight to the return of that error: no other call on it
            for g in gs:
                tb = g[0][1]
                seen = body.reachable(tb)
                ok2 = ok2 and not any(body.term(x)["k"] == "Call" and not body.blocks[x]["cleanup"] for x in seen)
            obs.append(Ob(r, "empty-first", ok2, "codewords(): the empty-list test comes first: every other refusal lies on its false edge", site=site))
        elif name == wn:
            obs.append(Ob(r, "site:%d" % k, True, "the reservation-hint wrapper maps a missing hint to SymbolListEmpty (sound iff GATE-HINT holds)", site=site))
        else:
            obs.append(Ob(r, "site:%d" % k, False, "unexpected construction of SymbolListEmpty in %s" % name, site=site))
    obs.append(Ob(r, "sites", len(sites) >= 1, "found the constructions of SymbolListEmpty (%d)" % len(sites)))
    obs += floor(obs, r, 4, "error classification obligations")
    return obs
