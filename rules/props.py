"""Registry: property id -> rule set, level and explanations."""
from . import p_symbols, p_rs, p_charset, p_modes, p_macro, p_plan, p_codec, p_wire, p_bitmap, p_place, p_panic, p_b256, p_calib, p_endrules

PROPS = {}


def only(rule_fn, keep, label):
    """a rule restricted to the obligations that concern one side (encoder / decoder) of a two-sided rule: a property about
    the decoder must not be reported broken by an encoder-side obligation of a shared rule, and vice versa.  Anchor and floor
    failures of the rule are kept (fail closed)."""
    def run(ctx):
        out = []
        for o in rule_fn(ctx):
            k = o.key.split(":", 1)[1] if o.key.startswith(o.rule + ":") else o.key
            if k == "floor" or k.startswith("anchor-missing") or keep(k):
                out.append(o)
        return out
    run.__name__ = getattr(rule_fn, "__name__", "rule") + "[" + label + "]"
    return run


B256_ENC = lambda k: k in ("rand255-enc", "length-enc", "length-zero-form")
B256_DEC = lambda k: k in ("rand255-dec", "rand253-dec", "length-dec")
ECI_ENC = lambda k: k in ("ECI-codeword", "write-forms", "write-ranges")
ECI_DEC = lambda k: k in ("ECI-codeword", "read-table") or k.startswith("read-table")
_col = lambda k: k.rsplit(":", 1)[-1]
SYM_RS = lambda k: k.startswith(("exhaustive", "variants", "SYMBOL_SIZES")) or _col(k) in ("data", "ecc_blocks", "ecc_per_block", "area")
SYM_GEOM = lambda k: k.startswith(("exhaustive", "variants", "SYMBOL_SIZES", "dims-unique")) or _col(k) in (
    "width", "height", "extra_vertical_alignments", "extra_horizontal_alignments", "padding", "area")
MAP_TRAVERSAL = lambda k: _col(k) in ("width", "height", "has_padding", "literal")

PROPS["C12"] = {
    "level": "proof",
    "rules": [p_symbols.tab_sym, p_symbols.ord_rule, p_symbols.prov_filter, only(p_macro.fnc1, lambda k: k.startswith("setter:") or k in ("setters-found", "builder-defaults"), "builder options are kept"), only(p_wire.prov_pipe, lambda k: k == "encode:option:symbol_list", "the builder's symbol list reaches the encoder")],
    "explanation": "The property is a finite statement about literal tables and about which predicate each list "
                   "constructor/filter is wired to. TAB-SYM extracts the per-variant tables of SymbolSize from the typed "
                   "syntax tree (patterns pre-evaluated by rustc) and compares all 48 rows with ISO/IEC 16022 Table 7 / "
                   "ISO 21471 transcribed independently; ORD evaluates the Ord key for all 48 variants from those tables; "
                   "PROV-FILTER folds every constructor, filter and query of SymbolList on concrete lists (the full, the default, a custom, a "
                   "one-element and the empty list; for the dimension filters all six RangeBounds kinds with bounds around every catalogue "
                   "width / height; for first_symbol_big_enough_for every n around every capacity) with BTreeSet modelled as a sorted "
                   "duplicate-free list in the order ORD establishes, and compares the result with the specification computed from the "
                   "extracted tables; the statement-shape wiring rules remain as the fallback for a function the folder has no model for. "
                   "The builder side: every setter changes its own option only (FNC1 setter:*) and encode_eci hands the builder's own "
                   "symbol list to the encoder (PROV-PIPE encode:option:symbol_list).",
    "trusted_base": ["rustc type checking / THIR construction", "rules/thirlib.py Folder: models of BTreeSet (sorted, duplicate-free) and RangeBounds::contains",
                     "reference/symbols.json (hand transcription of the standard, self-checked)", "rules/p_symbols.py"],
    "assumptions": ["default cargo features (extended_eci does not compile on the pinned tree)"],
}

PROPS["C06"] = {
    "level": "proof",
    "rules": [p_rs.tab_gen, p_rs.tab_gf, p_rs.gf_ops, only(p_symbols.tab_sym, SYM_RS, "codeword and block columns"), p_rs.prov_rsenc, p_rs.uniform, p_rs.lfsr],
    "explanation": "Decided: (1) all 25 generator polynomials equal prod(x-2^i) computed by an independent carry-less GF(256) "
                   "implementation, one per degree required by the standard, and generator(len) selects by degree; (2) ANTI_LOG/LOG "
                   "equal the powers of 2 modulo 0x12D and GF add/sub/mul/div agree with the reference field for all 65536 operand "
                   "pairs (loop-free bodies reduced as decision lists); (3) every size's data/ecc/block numbers equal the standard; "
                   "(4) encode_error's wiring: generator of the size's k, block loop over all B blocks, block input = strided view "
                   "of `data` with offset block and stride B, output interleaved with skip(block).step_by(B), scratch of k+1 cells "
                   "zeroed per block, result length k*B - decided by folding encode_error for all 48 sizes with opaque data codewords and an "
                   "opaque block encoder; (5) ecc_block has no size-dependent branch; (6) LFSR - ecc_block folded over GF(256)-linear forms "
                   "of opaque data codewords: the register ends as the remainder of d(x) x^k modulo prod(x-2^i), highest power first, "
                   "coefficient by coefficient, for every (block length, k) of a symbol size (quick: every k with its shortest block and "
                   "all small blocks; thorough: all 42 combinations); a product of two data-dependent values is refused. Together: the "
                   "check codewords of every block of every size are the standard's, for all data.",
    "trusted_base": ["rustc const evaluation of the tables", "rules/gf.py reference field arithmetic", "reference/symbols.json",
                     "rules/thirlib.py Folder (the abstract interpreter that carries the linear forms through ecc_block)"],
    "assumptions": ["default cargo features"],
    "technique": "constant-table proof obligations + partial evaluation of encode_error / ecc_block (THIR) on opaque codewords and GF(256)-linear forms",
}

PROPS["C15"] = {
    "level": "other",
    "rules": [p_charset.tab_iso, p_charset.tab_dispatch, p_charset.tab_eci,
              p_panic.residue_rule("decode", owner_filter=lambda o: o.startswith("decodation::eci::") or o == "decodation::read_eci", rule="RESIDUE-ECI"), only(p_charset.str_branch, lambda k: k == "write_eci-iff-some", "ECI header iff requested"),
              only(p_macro.dec_macro, lambda k: k in ("eci-span", "scenarios"), "character-set span of the macro trailer")],
    "explanation": "Decided in full: the ISO-8859-9/-11 per-byte decision tables composed with the table constants equal the "
                   "standard mappings for all 256 byte values (control/undefined bytes give CharsetError, no index can leave the "
                   "table); the ECI dispatch maps 0/3, 11, 13, 26, 27 to the right decoder and passes 26/27 bytes through unchanged. "
                   "ECI designators: write_eci and read_eci are loop-free; their bodies are reduced as decision lists over the "
                   "designator value / the designator bytes. quick: all range and radix-block boundaries plus every 211th number, "
                   "reader for all first x second bytes and boundary third bytes; thorough: all 10^6 numbers and all 3-byte sequences. "
                   "Any overflow/underflow a designator byte can cause is reported as a trap.",
    "assumptions": ["default cargo features", "String::push / Vec::push append", "core::str::from_utf8 validates UTF-8"],
    "technique": "decision-table extraction from THIR + finite-domain folding of loop-free bodies against transcribed ISO tables",
}

PROPS["C14"] = {
    "level": "other",
    "rules": [p_charset.tab_l1, p_charset.str_branch, p_charset.tab_dispatch, p_macro.dom_macro, only(p_macro.dec_macro, lambda k: k != "eci-span:raw", "string-mode decoding")],
    "explanation": "Clause-level claim. Decided: both Latin-1 helper tables equal ISO-8859-1 on every code point / byte and are mutually "
                   "inverse (third sentence of the property, in full); encode_str takes the Latin-1 branch without ECI exactly when "
                   "utf8_to_latin1 succeeds and the UTF-8 branch with ECI 26 otherwise, and the ECI header is written iff requested "
                   "(second sentence, structurally); the decoder dispatches ECI 0/3 and 26 to the matching converters. NOT decided: "
                   "the string round trip itself (first sentence) - it depends on the data round trip (C01) whose core is not static.",
    "assumptions": ["default cargo features"],
    "technique": "decision-table extraction from THIR + call-structure rules",
}

PROPS["C13"] = {
    "level": "proof",
    "rules": [p_modes.dom_mode, p_modes.fld_enc, p_modes.latch_use, only(p_macro.fnc1, lambda k: k.startswith("setter:") or k in ("setters-found", "builder-defaults"), "builder options are kept"), only(p_wire.prov_pipe, lambda k: k == "encode:option:encodation_types", "the builder's mode subset reaches the encoder")],
    "explanation": "A latch for mode V is emitted only through latch_from_ascii(V) of a mode taken from the plan (FLD-ENC, LATCH-USE); "
                   "the plan names V only if a plan object for V was constructed, and every construction of PlanImpl::V / switch entry "
                   "(.., V) in add_switches is dominated by the true edge of enabled_modes.contains(V) with the same V, the start plan "
                   "by enabled_modes.contains(mode) (DOM-MODE, MIR dominance on the edge-removed CFG). The ASCII end-of-data fallback "
                   "(set_ascii_until_end / add_padding set the constant Ascii and emit no latch) is the property's stated exception.",
    "trusted_base": ["rustc MIR construction (mir-opt-level=0)", "flagset::FlagSet::contains semantics", "rules/mirlib.py dominance by edge removal",
                     "mode encoders push only computed data codewords, UNLATCH and shift values (no latch constants: LATCH-USE)"],
    "assumptions": ["default cargo features"],
    "technique": "MIR dominance (must-pass-through edge) + crate-wide field-writer enumeration + constant-use census",
}

PROPS["C16"] = {
    "level": "other",
    "rules": [p_macro.dom_macro, p_macro.fld_input, p_macro.dec_macro, p_macro.fnc1, only(p_symbols.capacity_info, lambda k: k == "gate-on-stripped-data", "the capacity gate sees the compacted data")],
    "explanation": "Clause-level claim. Decided: (only-if) every macro-codeword push and the re-slice of the input are dominated by "
                   "the true edges of codewords.is_empty(), data.ends_with(RS EOT) and data.starts_with(the header paired with that "
                   "codeword); header/trailer/codeword constants equal the standard; header and trailer cannot overlap so the re-slice "
                   "bounds hold; at most one macro codeword; macro detection only under use_macros and before ECI/encoding; the read "
                   "cursor stays a suffix of `input` (FLD-INPUT); the decoder re-creates header/trailer only for a first-position "
                   "236/237 and strips one leading FNC1; FNC1 seeding iff requested. NOT decided: that the body between header and "
                   "trailer round-trips (C01).",
    "assumptions": ["default cargo features", "slice::starts_with/ends_with semantics"],
    "technique": "MIR dominance by edge removal + crate-wide field-writer enumeration + THIR decision tables",
}

PROPS["C09"] = {
    "level": "proof",
    "rules": [p_rs.synzero, p_rs.syndromes, p_rs.prov_rsdec, p_rs.tab_gf, p_rs.gf_ops],
    "explanation": "SYNZERO is a typestate argument over decode_gen's statement structure: a bit `verified` is set only on the "
                   "all-zero edge of primitive_element_evaluation(<data.step_by(stride) ++ error.step_by(stride)>, <the whole k-entry "
                   "syndrome buffer>) and cleared by every store into data/error; every `Ok` exit of decode_gen must see the bit set; "
                   "primitive_element_evaluation returns the OR over all k outputs; decode() returns Ok only after every block returned "
                   "Ok; PEE-POINTS: the evaluation points are alpha^1..alpha^k (all coefficients as running terms, scaled by 1, alpha, "
                   "alpha^2, .. before each sum). With TAB-GF/GF-OPS (the field the code computes in is GF(256)/0x12D) this gives: Ok => "
                   "every interleaved block vanishes at 2^1..2^k => it is a codeword of the standard's code. (That the encoder's "
                   "generator table has the same roots is C06's TAB-GEN, not needed here.) SYNDROMES decides the evaluation independently of "
                   "the statement shapes: primitive_element_evaluation folded over GF(256)-linear forms of opaque codewords yields exactly "
                   "c(alpha^(i+1)) in cell i for every (word length, k) of a symbol size (the crate's own primitive_powers() is folded, not "
                   "trusted); PROV-RSDEC folds decode() for all 48 sizes with opaque codewords: block b's word is data[b], data[b+B], .. "
                   "followed by error[b], error[b+B], .. and has k syndrome cells.",
    "trusted_base": ["rustc THIR", "rules/p_rs.py typestate walk", "rules/thirlib.py Folder (models of std iterator adaptors: step_by, chain, nth, zip, cycle, rev)"],
    "assumptions": ["default cargo features"],
    "technique": "typestate (must-be-verified-at-exit) over THIR statement structure + constant-table proof obligations + partial evaluation of the syndrome evaluation (THIR) over GF(256)-linear forms",
}

PROPS["C03"] = {
    "level": "other",
    "rules": [p_rs.prov_rsdec, p_rs.gather_scatter, p_rs.synzero, p_rs.syndromes, p_rs.root_cover, only(p_symbols.tab_sym, SYM_RS, "codeword and block columns")],
    "explanation": "Clause-level claim: that every pattern of weight <= floor(k/2) is repaired is a theorem about Levinson-Durbin + "
                   "Chien + Bjoerck-Pereyra over GF(256) that no static argument in reach establishes (a mutation inside the locator "
                   "recursion is NOT detected). Decided necessary conditions, all about interleaving (the part the single-block tests "
                   "cannot see): decode() hands block b the views data[b..], error[b..] with stride = number of blocks and err_len = k "
                   "of that size, for every block; the corrected codeword is addressed through exactly the strided chain the syndromes "
                   "were computed from at position n-i-1, after rejecting i >= n; success is only reported for a verified codeword "
                   "(SYNZERO); the syndromes are exactly c(alpha^1)..c(alpha^k) of the block's word (SYNDROMES, by folding over linear forms) and each block's word is the right strided selection for all 48 sizes (PROV-RSDEC, by folding decode() on opaque codewords); the Chien search is exhaustive (ROOT-COVER; when its statement shapes are not recognised and in the thorough tier: chien_search folded with opaque coefficients - each of the 256 field elements x is reported exactly when p(x) = 0); GS-EXEC, the fallback and thorough-tier companion of GATHER-SCATTER and SYNZERO, folds decode_gen on opaque block views with a model locator (one error at index i, value E): the store hits exactly chain position n-i-1 with codeword - E, an index >= n is refused, both syndrome evaluations run over the whole chain with all k cells, and Ok is returned exactly when the re-evaluation is clean; block structure numbers equal the standard. (The generator table is the encoder's business: C06.)",
    "assumptions": ["default cargo features"],
    "technique": "provenance and shape rules over THIR (strided-view equality), typestate, partial evaluation of decode() / syndrome evaluation on opaque codewords per symbol size",
}

PROPS["C18"] = {
    "level": "other",
    "rules": [p_plan.sync, p_plan.plan_mono, p_modes.dom_mode, p_plan.prov_plan, p_modes.fld_enc, p_b256.b256_sync, p_plan.cost_write, p_plan.val_size, p_endrules.end_x12, p_endrules.end_c40, p_endrules.end_edifact],
    "explanation": "Clause-level claim. The agreement between the planner's end-of-data prices and the encoders' handle_end behaviour "
                   "(and hence `the latches in the output are exactly the plan's modes` and `never a larger symbol than predicted`) is "
                   "arithmetic in two independently written state machines and is NOT decided (known: an EDIFACT run followed by exactly "
                   "four final digits is priced 2 and encoded with 4 codewords). Decided: SYNC - plans that add_switches has already "
                   "stepped are only ever added to the list of stepped plans, with the remaining-length of the current iteration, so "
                   "planner positions and the encoder's chars_left count the same characters; PLAN-MONO - switch positions are rest_len "
                   "values that never increase and the list ends with (0, mode), append-only; PLAN-MODES (= C13 DOM-MODE) - only enabled "
                   "modes; PROV-PLAN - the planning API and the encoder obtain the plan from the same optimize() call shape and the "
                   "encoder consumes it unmodified, front entry exactly at its position; and three planner/encoder table agreements: "
                   "B256-SYNC (the planner prices the second Base256 length codeword for exactly the run lengths for which the encoder "
                   "writes it, and abandons a run one byte past what the length field can express), COST-WRITE (every whole codeword "
                   "priced by the ASCII/Base256 plans is also booked into the symbol-fill counter that later modes' end-of-data rules "
                   "read), VAL-SIZE (the per-byte value counts and base-set predicates the planner charges equal what the encoder's "
                   "C40/Text tables emit for all 256 bytes; 3/4, 2/3, 1/2 per-character prices equal the packing ratios).",
    "assumptions": ["default cargo features"],
    "technique": "list-role typestate + provenance rules over THIR, MIR dominance",
}

PROPS["C19"] = {
    "level": "other",
    "rules": [p_plan.prune_every, p_plan.pigeonhole, p_plan.fanout, only(p_plan.prov_plan, lambda k: k == "optimize-callers", "one planning pass per request"),
              only(p_modes.fld_enc, lambda k: k.startswith("planned_switches"), "who writes the plan")],
    "explanation": "Decided: the number of candidate-plan steps per input character is bounded by a constant: every main-loop "
                   "iteration prunes (PRUNE-EVERY, THIR structure + MIR must-pass on the loop's back edges); pruning leaves at most "
                   "N = 36 plans by a pigeonhole argument over the occupancy table indexed by start_mode.index()*6+current.index() "
                   "with index() a bijection onto 0..6 (PIGEONHOLE); each surviving plan is stepped once and spawns at most 6 "
                   "once-stepped plans through the loop-free add_switches (FANOUT): <= 36*(1+6) steps per character. NOT decided: that "
                   "the outer loop runs exactly n+1 times (it ends when a step reports `end`), and the amortised cost of the look-ahead "
                   "scans inside AsciiPlan::step / unbeatable_strike.",
    "assumptions": ["default cargo features"],
    "technique": "loop-structure and must-pass rules over THIR/MIR, pigeonhole table argument",
}

PROPS["C04"] = {
    "level": "other",
    "rules": [p_codec.tab_dec, p_codec.dec_thresh, p_codec.dec_mode, p_codec.tab_cw, only(p_b256.tab_b256, B256_DEC, "decoder side"), p_b256.dec_b256, p_macro.dec_macro],
    "explanation": "Clause-level claim. Decided: the decoder's per-codeword decision tables - ASCII (256 codewords x upper-shift state), "
                   "C40 and Text (4 shift sets x 256 values x upper-shift state, with the table constants decode_parts passes for each "
                   "mode), X12 values, EDIFACT six-bit values, the 16-bit pair unpacking - equal ISO/IEC 16022 Table 2 / Annex C / 5.2.7 / "
                   "5.2.8 transcribed independently; the termination forms (EDIFACT hands <= 2 trailing codewords to ASCII, C40/Text/X12 "
                   "decode pairs while > 1 codeword remains and consume a final single 254) hold as integer predicates; decode_parts "
                   "dispatches all six modes without wildcard to the decoder and tables of that mode and every non-ASCII decoder hands "
                   "control back to ASCII; DEC-B256 - decode_base256 folded as a whole with the crate's own Reader on ~2000 streams built from "
                   "the standard's 255-state algorithm (every run length 1..260 and long runs with the prescribed length field, field 0, all "
                   "1536 two-codeword fields, exact / surplus / short streams): the plain bytes, the reader position, the next mode and "
                   "UnexpectedEnd exactly for a stream that ends early; the EDIFACT value table is read off decode_edifact folded as a whole "
                   "(every six-bit value at each of the four positions of a triple, unlatch at each position); DEC-MACRO - the Macro 05/06 header is recognised only as the first codeword, expands to the standard's prefix and trailer, and opens character-set spans only in string mode (in raw mode a span makes decode_data refuse the stream). NOT decided: that the state "
                   "machines compose correctly for every legal script (pad checking and mode sequences are loops over run-time positions); "
                   "the Base256 streams are a grid, not all streams. When the statement shapes of the termination forms are not recognised, "
                   "DEC-THRESH reads them off the three packed-mode decoders folded on every stream shape of up to five codewords "
                   "(consumed / appended counts and the next mode).",
    "assumptions": ["default cargo features"],
    "technique": "decision-table extraction from THIR (finite-domain folding of loop bodies) against transcribed ISO tables; whole-function partial evaluation of the Base256 and EDIFACT decoders",
}

PROPS["C02"] = {
    "level": "other",
    "rules": [p_codec.tab_cw, p_codec.tab_sets, p_wire.prov_sym, p_wire.pad_path, only(p_b256.tab_b256, B256_ENC, "encoder side"), p_rs.prov_rsenc, only(p_symbols.tab_sym, SYM_RS, "codeword and block columns"), p_endrules.end_x12, p_endrules.end_c40, p_endrules.end_edifact, only(p_plan.prov_plan, lambda k: k == "encoder-plan", "the plan the encoder follows")],
    "explanation": "Clause-level claim. Decided: every codeword constant equals ISO/IEC 16022 Table 2; the encoder-side C40/Text/X12/"
                   "EDIFACT/ASCII character tables (extracted as per-byte decision tables) equal Annex C / 5.2.7 / 5.2.8 transcribed "
                   "independently of the decoder, with the 1600/40/1 packing; the returned symbol is symbol_for(0) = the first symbol of "
                   "the caller's list that is big enough, padding fills exactly to that symbol's data capacity and nothing is written "
                   "afterwards; add_padding emits unlatch iff not in ASCII, then 129, then 253-state randomised pads for their 1-based "
                   "positions (formula folded for 2400 positions); encode_error produces k*B error codewords for that size (PROV-RSENC). "
                   "The Base256 field as written - length 0 / one / two codewords at the right thresholds and the 255-state randomisation for "
                   "the 1-based position - for all 1555 run lengths (TAB-B256; when the helper shapes are not recognised, write_length is "
                   "folded as a whole on a grid of runs); the end-of-data code of the X12, C40/Text and EDIFACT encoders against 5.2.7.2 / "
                   "5.2.5.2 / 5.2.8.2 over an abstract context (END-*). NOT decided: the encoders' main loops and therefore the conformance "
                   "of every position of every stream - behaviour over run-time positions.",
    "assumptions": ["default cargo features"],
    "technique": "decision-table extraction from THIR against transcribed ISO tables + provenance rules",
}

PROPS["C01"] = {
    "level": "other",
    "rules": [p_macro.fld_input, p_codec.tab_codec, p_b256.tab_b256, only(p_wire.prov_pipe, lambda k: not k.startswith("encode:option:"), "data path; which options are passed is not a round-trip question"), p_codec.dec_mode, p_endrules.end_x12, p_endrules.end_c40, p_endrules.end_edifact, only(p_plan.prov_plan, lambda k: k == "encoder-plan", "the plan the encoder follows"),
              p_rs.prov_rsenc, p_rs.lfsr, p_rs.prov_rsdec, p_rs.syndromes, p_place.plc_rt, p_bitmap.render_geom, p_bitmap.parse_accepts],
    "explanation": "Clause-level claim; the inverse law itself (equality of byte strings over all inputs and configurations) is not "
                   "decidable statically. Three structural necessary conditions are decided: FLD-INPUT - the encoder's read cursor "
                   "`.data` always stays a suffix of `.input` (every writer enumerated crate-wide), which backup() relies on; TAB-CODEC - "
                   "for every byte 0..=255 the value sequence the encoder tables emit (C40, Text, X12, EDIFACT, ASCII) is mapped back to "
                   "that byte by the decoder's tables (table composition), with the EDIFACT bit packing layout; PROV-PIPE - decode() and "
                   "encode_eci()/bitmap() pass the same size and the right codeword slices between placement, error correction and data "
                   "(de)coding; TAB-B256 / DEC-B256 - the Base256 field (length forms, 255-state randomisation) as written and as read, by "
                   "folding write_length's header block and decode_base256 as a whole; END-X12 / END-C40 / END-EDIFACT - the loop-free "
                   "end-of-data code of the packed-mode encoders folded over an abstract context and compared with 5.2.7.2 / 5.2.5.2 / 5.2.8.2. "
                   "The symbol path of the round trip (module matrix, finder pattern, Reed-Solomon part) is decided per symbol size by folding "
                   "the functions on opaque values: PROV-RSENC + LFSR (every block's check codewords are the remainder modulo the standard's "
                   "generator, interleaved as specified), PROV-RSDEC + SYNDROMES (the decoder evaluates exactly those blocks at alpha^1..alpha^k, "
                   "so an undamaged symbol has zero syndromes and is left alone), PLC-RT (writer and reader of the mapping matrix folded per size: "
                   "reading returns what was written and the traversal they share gives every codeword eight in-range modules of its own - "
                   "whether these are Annex F's positions is C07's question, a self-consistent permutation keeps every round trip), RENDER-GEOM + "
                   "PARSE-ACC (every rendered bitmap is accepted and parsed to its content and size; refusing non-renderings is C08's question). "
                   "PROV-PIPE's per-option obligations (which builder options reach the encoder) are not part of this rule set: the round trip "
                   "holds whatever options are passed. NOT decided: the "
                   "main loops of the six mode encoders (which characters reach the end-of-data code), planner/encoder agreement on prices, and "
                   "that the decoder's state machine inverts every legal mode sequence.",
    "assumptions": ["default cargo features"],
    "technique": "table composition (decoder table o encoder table = identity) + field-writer typestate + provenance + partial evaluation of the typed syntax tree (THIR) on opaque values per symbol size",
}

PROPS["C11"] = {
    "level": "other",
    "engine": "dmx-facts + panic-residue",
    "rules": [p_wire.dom_errcls, p_wire.gate_hint, only(p_macro.dom_macro, lambda k: k == "guards-present" or k.startswith(("reslice:", "push:")), "guards of the macro re-slice"), p_plan.sync, only(p_charset.tab_eci, lambda k: k == "write-ranges", "writer panic domain"), only(p_b256.b256_sync, lambda k: k in ("run-limit", "run-counter"), "run limit"), p_panic.residue_rule("encode"), only(p_panic.invariants, lambda k: k in ("log-range", "data>=blocks"), "shared tables"), p_panic.invariants_encode, p_panic.t_loops_encode],
    "explanation": "Clause-level claim. Decided: DOM-ERRCLS - the error is SymbolListEmpty iff the list is empty (its only constructions are "
                   "on the true edge of symbol_list.is_empty(), which is tested first, and in the reservation-hint wrapper, which GATE-HINT "
                   "shows is Some for every non-empty list); DOM-MACRO - the macro re-slice cannot panic for short envelopes; SYNC - planner "
                   "and encoder count the same characters (the defect that made 13% of inputs panic with ASCII disabled); ECI domain - "
                   "write_eci's arms cover 0..=999999; RESIDUE (encode scope) - no panic site beyond the reviewed ledger: every other "
                   "potential site is deleted by the optimiser as unreachable. The dozen planner/encoder agreement assertions "
                   "(maybe_switch_mode, no-progress counter, x12 unreachable!, EDIFACT space_left, Base256 length) are ledger class "
                   "not-decided - their unreachability IS property C18's undecided core - and are reported as UNDECIDED, as is "
                   "termination of the encode loop (bounded by the no-progress assertion).",
    "assumptions": ["default cargo features"],
    "technique": "MIR dominance + provenance rules; LLVM panic-residue census",
}

PROPS["C10"] = {
    "level": "other",
    "rules": [p_symbols.capacity_info, p_wire.gate_hint, p_wire.prov_sym, p_symbols.ord_rule, p_symbols.prov_filter, p_plan.cost_write, p_b256.b256_sync, p_plan.val_size, p_modes.dom_mode],
    "explanation": "Clause-level claim (gates and tie-break only). Minimality itself quantifies over every alternative legal encoding of "
                   "every input; its truth lives in the arithmetic of six cost models and their agreement with six encoders and is NOT "
                   "decided (known: ABCDEFGH12345678 gets a 16-codeword symbol where ASCII needs 12 - the EDIFACT four-final-digits "
                   "mismatch). Decided: GATE-CAP - the early `too much data` rejection is sound because every size's capacity().max is "
                   ">= 2 * data codewords (digit pairs are the densest encodation) and max_capacity() is the maximum over the list; "
                   "GATE-HINT - the reservation hint is Some for every non-empty list, so it never turns into a refusal; TIE-ORDER - the "
                   "returned symbol is the first of the BTreeSet order (capacity, then diagonal; keys pairwise distinct) that is big enough; "
                   "and the planner/encoder table agreements B256-SYNC, COST-WRITE, VAL-SIZE (see C18), which are necessary for the "
                   "planner's minimum to be realised by the encoder; DOM-MODE - each mode's plans are created under the test for that same mode "
                   "(an enabled mode guarded by another mode's flag is never offered).",
    "assumptions": ["default cargo features"],
    "technique": "table inequalities + provenance rules over THIR",
}

PROPS["C08"] = {
    "level": "other",
    "rules": [p_bitmap.dom_bitmap, p_bitmap.align_cover, p_bitmap.prov_map, p_bitmap.render_geom, p_bitmap.parse_inv, only(p_symbols.tab_sym, SYM_GEOM, "geometry columns")],
    "explanation": "Clause-level claim. Decided: the rejection clause (last sentence): ZeroWidth exactly on the true edge of the first test "
                   "`width == 0`, every division by width on its false edge, DataSize exactly for len % width != 0, SymbolSize exactly "
                   "for a failed lookup of (width, len/width) in the full catalogue, five error variants; ALIGN-COVER - the finder tests "
                   "read the complete first and last row of every band of regions and the first and last module of every row piece "
                   "(a parser that looks at fewer modules accepts damaged finder patterns); the catalogue's region arithmetic "
                   "(content size positive and divisible by the region counts) for all 48 sizes. The inverse clause itself: PARSE-INV - "
                   "try_from_bits folded for every size on a W x H array of opaque pixels; tests of a pixel against LOW/HIGH are symbolic "
                   "booleans, a branch on one is followed only when its other side is nothing but `return Err(..)`; the conditions collected "
                   "on the accepting path must be exactly `pixel = the geometry's value` for every finder, clock, alignment and fixed-corner "
                   "module (23948 over the 48 sizes), the returned content the remaining pixels in row-major order, the size and map fields "
                   "that size's. So an array of catalogue dimensions is accepted iff all fixed modules are right, and then its content is read "
                   "back exactly; with RENDER-GEOM (bitmap() = that geometry around the content: polynomial shape rules, or every pixel of a "
                   "symbolic rendering for all 48 sizes) both directions of the inverse hold for all contents. Assumption: M = bool.",
    "assumptions": ["default cargo features", "M = bool (the crate's only Bit implementation; LOW != HIGH)"],
    "technique": "MIR dominance by edge removal + expression-shape rules over THIR + partial evaluation of try_from_bits / bitmap (THIR) on opaque pixels with symbolic branch conditions",
}

PROPS["C07"] = {
    "level": "other",
    "rules": [p_place.tab_plc, p_place.plc_rw, only(p_bitmap.prov_map, MAP_TRAVERSAL, "traversal fields"), only(p_symbols.tab_sym, SYM_GEOM, "geometry columns")],
    "explanation": "Clause-level claim by source-level comparison with the standard's reference placement program (Annex F.3, transcribed "
                   "independently; the repo's extra/symbol_placement.c is not the oracle). Decided after canonicalisation (polynomial "
                   "normal form over i, j, h, w; integer comparison normalisation; De Morgan): the five module tables (utah, corner1-4: "
                   "40 cells), the start point, the four corner triggers and their order, both diagonal sweeps with their steps and "
                   "continuation conditions, the visited test, the wrap rules of idx() including the DMRE row wrap, the fixed corner "
                   "pattern at (h-2,w-2),(h-1,w-1) for sizes with padding modules, MSB-first bit order of writer and reader, and that "
                   "traversal uses the matrix's own dimensions; the padding set {12,16,20,24} and the mapping-matrix dimensions of all 48 "
                   "sizes (TAB-SYM). Since every element equals the reference program, the placement it computes is the standard's. "
                   "Independently of the source shape: exec:traversal - IndexTraversal::run folded with a recording visit function for the "
                   "mapping matrix of all 48 sizes equals an Annex F.3 implementation written out independently (13302 codeword placements; "
                   "the traversal never reads module values, so this holds for all contents) - run whenever the source comparison does not "
                   "recognise something and always in the thorough tier; PLC-RW - new_with_codewords and codewords() folded (M = bool) with a "
                   "codeword pattern and its complement: every bit lands MSB-first in Annex F's module, the modules no codeword covers are "
                   "exactly the fixed 2x2 corner with its pattern, reading returns what was written (quick: 14 small sizes that exercise all "
                   "corner cases, the fixed corner and the DMRE row wrap; thorough: all 48) - the bijection / inversion clause per size.",
    "assumptions": ["default cargo features", "the reference program of Annex F.3 as transcribed twice, independently, in rules/p_place.py (REF_* tables and annex_f())"],
    "technique": "source-level equivalence with the standard's reference program after canonicalisation (polynomial normal form) + partial evaluation of the traversal, writer and reader (THIR) per symbol size",
}

PROPS["C05"] = {
    "level": "other",
    "engine": "panic-residue + dmx-facts",
    "rules": [p_panic.residue_rule("decode"), p_panic.invariants, p_panic.div_guard, p_rs.gather_scatter, p_bitmap.dom_bitmap, p_place.plc_index,
              p_panic.t_alt, p_panic.t_loops, p_codec.dec_mode, only(p_charset.tab_eci, ECI_DEC, "reader"), p_charset.tab_iso_traps],
    "explanation": "Decided per site; undecided sites are listed, never counted as proved. Panic part: the crate is compiled to LLVM IR "
                   "at opt-level 3 with overflow checks and debug assertions ON; every arithmetic overflow, bounds check, division by "
                   "zero, unwrap and assertion is then a call to a noreturn function, and the optimiser deletes those it proves dead. "
                   "The residue in the decode scope (functions reachable from the six decoding entry points in the MIR call graph) is "
                   "attributed through core::panic::Location constants and must stay within the reviewed ledger (keyed by function and "
                   "kind, never by line): a new unproved site - or one that was provable until a guard was dropped - is a violation. "
                   "Ledger classes: table-invariant (re-checked here: INV), counter<=len, quotient-remainder, reviewed (one reason each), "
                   "precondition (codeword vector of the symbol's length), std-internal, alloc-failure, relies-on:<rule> (discharged by a rule of this "
                   "run - PLC-INDEX: the traversal folded for the mapping matrix of all 48 sizes evaluates every index and every debug "
                   "assertion of the placement without a trap and hands out h*w/8 groups of eight distinct in-range indices, and every map the crate builds has h*w "
                   "entries), and not-decided (Reed-Solomon index algebra) which are reported as UNDECIDED. DIV-GUARD classifies every GF division's "
                   "divisor (GF::div's zero assertion is shared by all callers); the decision tables of read_eci / ISO-8859-9/-11 are "
                   "folded over all inputs and any trap is reported. Termination part: T-ALT (decode_ascii consumes >= 1 codeword, every "
                   "other decoder returns to ASCII, the reader only shrinks) and T-LOOPS (every loop in the scope is iterator-bounded, "
                   "reader-consuming, or has a reviewed variant). NOT decided: the ~100 not-decided sites, stack/heap exhaustion.",
    "assumptions": ["default cargo features", "rustc/LLVM only delete checks they prove dead (soundness of the optimiser)",
                    "release builds contain a subset of these checks", "error correction is called with a codeword vector of the symbol's length (the property's own precondition)"],
    "technique": "compiler-proved dead-check elimination (LLVM IR residue) + reviewed ledger + MIR/THIR dominance and loop rules",
}

NOT_APPLICABLE = {
    "C17": "Correctness of the Hierholzer splice, path compression and even-odd filling depends on the topology of each "
           "bitmap; no table, guard or ordering clause of the property is visible in the shape of the code, and a rule "
           "matching the two-line pixel/unicode arithmetic would be a frozen source fragment. No sound static argument in reach.",
}


# ---- thorough tier: release-configuration pass of the MIR rules + calibration against mutants -------------
_REL = {
    "C08": [p_bitmap.dom_bitmap], "C11": [p_wire.dom_errcls], "C13": [p_modes.dom_mode, p_modes.fld_enc],
    "C16": [p_macro.dom_macro, p_macro.fld_input, p_macro.fnc1], "C18": [p_plan.sync, p_plan.plan_mono],
    "C19": [p_plan.prune_every, p_plan.fanout], "C01": [p_macro.fld_input], "C04": [p_b256.dec_b256],
}
for _pid, _spec in PROPS.items():
    _spec.setdefault("thorough_rules", [])
    for _r in _REL.get(_pid, []):
        _spec["thorough_rules"].append(p_calib.in_release(_r))
    _spec["thorough_rules"].append(p_calib.calibration(_pid))
