"""Registry: property id -> rule set, level and explanations."""
from . import p_symbols, p_rs

PROPS = {}

PROPS["C12"] = {
    "level": "proof",
    "rules": [p_symbols.tab_sym, p_symbols.ord_rule, p_symbols.prov_filter],
    "explanation": "The property is a finite statement about literal tables and about which predicate each list "
                   "constructor/filter is wired to. TAB-SYM extracts the per-variant tables of SymbolSize from the typed "
                   "syntax tree (patterns pre-evaluated by rustc) and compares all 48 rows with ISO/IEC 16022 Table 7 / "
                   "ISO 21471 transcribed independently; ORD evaluates the Ord key for all 48 variants from those tables; "
                   "PROV-FILTER checks the call structure of every constructor and filter.",
    "trusted_base": ["rustc type checking / THIR construction", "std BTreeSet and RangeBounds::contains semantics",
                     "reference/symbols.json (hand transcription of the standard, self-checked)", "rules/p_symbols.py"],
    "assumptions": ["default cargo features (extended_eci does not compile on the pinned tree)"],
}

PROPS["C06"] = {
    "level": "proof",
    "rules": [p_rs.tab_gen, p_rs.tab_gf, p_rs.gf_ops, p_symbols.tab_sym, p_rs.prov_rsenc, p_rs.uniform],
    "explanation": "Decided: (1) all 25 generator polynomials equal prod(x-2^i) computed by an independent carry-less GF(256) "
                   "implementation, one per degree required by the standard, and generator(len) selects by degree; (2) ANTI_LOG/LOG "
                   "equal the powers of 2 modulo 0x12D and GF add/sub/mul/div agree with the reference field for all 65536 operand "
                   "pairs (loop-free bodies reduced as decision lists); (3) every size's data/ecc/block numbers equal the standard; "
                   "(4) encode_error's wiring: generator of the size's k, block loop over all B blocks, block input = strided view "
                   "of `data` with offset block and stride B, output interleaved with skip(block).step_by(B), scratch of k+1 cells "
                   "zeroed per block, result length k*B; (5) ecc_block has no size-dependent branch. NOT decided: the LFSR recurrence "
                   "inside ecc_block itself (pinned for k=5 by the existing tests ecc_block_1/test_error_code; UNIFORM shows it is the "
                   "same code for every k).",
    "trusted_base": ["rustc const evaluation of the tables", "rules/gf.py reference field arithmetic", "reference/symbols.json",
                     "existing tests ecc_block_1 and test_error_code pin the LFSR for k=5"],
    "assumptions": ["default cargo features"],
    "technique": "constant-table proof obligations + structural wiring rules over THIR",
}

NOT_APPLICABLE = {
    "C17": "Correctness of the Hierholzer splice, path compression and even-odd filling depends on the topology of each "
           "bitmap; no table, guard or ordering clause of the property is visible in the shape of the code, and a rule "
           "matching the two-line pixel/unicode arithmetic would be a frozen source fragment. No sound static argument in reach.",
}
