"""Registry: property id -> rule set, level and explanations."""
from . import p_symbols

PROPS = {}

PROPS["C12"] = {
    "level": "proof",
    "rules": [p_symbols.tab_sym, p_symbols.ord_rule, p_symbols.prov_filter],
    "explanation": "The property is a finite statement about literal tables and about which predicate each list "
                   "constructor/filter is wired to. TAB-SYM extracts the per-variant tables of SymbolSize from the typed "
                   "syntax tree (patterns pre-evaluated by rustc) and compares all 48 rows with ISO/IEC 16022 Table 7 / "
                   "ISO 21471 transcribed independently; ORD evaluates the Ord key for all 48 variants from those tables; "
                   "PROV-FILTER checks the call structure of every constructor and filter.",
    "trusted_base": ["rustc type checking / THIR construction", "std BTreeSet and RangeBounds::contains semantics",
                     "reference/symbols.json (hand transcription of the standard, self-checked)", "rules/p_symbols.py"],
    "assumptions": ["default cargo features (extended_eci does not compile on the pinned tree)"],
}

NOT_APPLICABLE = {
    "C17": "Correctness of the Hierholzer splice, path compression and even-odd filling depends on the topology of each "
           "bitmap; no table, guard or ordering clause of the property is visible in the shape of the code, and a rule "
           "matching the two-line pixel/unicode arithmetic would be a frozen source fragment. No sound static argument in reach.",
}
