"""Engine B: panic residue.

Build the crate's LLVM IR at opt-level 3 with overflow checks and debug assertions compiled in, and list the
calls to `noreturn` functions that the optimiser could NOT delete.  rustc/LLVM only delete a check they can
prove dead, so a site that is absent from the residue is proved unreachable for all inputs; a site that remains
is *not proved* (it may still be safe) and must be discharged by the reviewed ledger.

Attribution is through the `&'static core::panic::Location` constant passed to the panic entry point
(file, line, column; resolved through phi/select), falling back to the innermost debug-location frame under src/.
Nothing is executed."""
import fcntl
import json
import os
import re
import shutil
import subprocess
import tempfile

from . import facts as factsmod

RUSTFLAGS = ("-C opt-level=3 -C codegen-units=1 -C overflow-checks=on -C debug-assertions=on "
             "-Zub-checks=no -C debuginfo=1 --emit=llvm-ir -Awarnings")


def ir_path(repo=None):
    repo = repo or factsmod.REPO
    key = factsmod.tree_hash(repo, extra="residue" + RUSTFLAGS)
    d = os.path.join(factsmod.CACHE, key)
    p = os.path.join(d, "datamatrix.ll")
    if os.path.exists(p):
        return p
    os.makedirs(d, exist_ok=True)
    with open(os.path.join(d, ".lock-ir"), "w") as lk:
        fcntl.flock(lk, fcntl.LOCK_EX)
        if os.path.exists(p):
            return p
        tmp = tempfile.mkdtemp(prefix="dmxir-")
        try:
            env = dict(os.environ)
            env["CARGO_NET_OFFLINE"] = "true"
            env["CARGO_TARGET_DIR"] = os.path.join(tmp, "target")
            env["RUSTFLAGS"] = RUSTFLAGS
            env.pop("RUSTC_WORKSPACE_WRAPPER", None)
            env.pop("RUSTC_WRAPPER", None)
            r = subprocess.run(["cargo", "+nightly", "build", "--offline", "--lib", "--quiet"], cwd=repo, env=env,
                               stdout=subprocess.PIPE, stderr=subprocess.STDOUT, text=True)
            deps = os.path.join(tmp, "target", "debug", "deps")
            lls = [x for x in (os.listdir(deps) if os.path.isdir(deps) else []) if x.startswith("datamatrix-") and x.endswith(".ll")]
            if r.returncode != 0 or len(lls) != 1:
                raise RuntimeError("IR build failed (rc=%d):\n%s" % (r.returncode, r.stdout[-4000:]))
            shutil.move(os.path.join(deps, lls[0]), p + ".tmp")
            os.replace(p + ".tmp", p)
        finally:
            shutil.rmtree(tmp, ignore_errors=True)
    return p


_ESC = re.compile(r"\\([0-9A-Fa-f]{2}|\\)")


def unescape(s):
    out = bytearray()
    i = 0
    while i < len(s):
        c = s[i]
        if c == "\\":
            if s[i + 1] == "\\":
                out.append(92)
                i += 2
            else:
                out.append(int(s[i + 1:i + 3], 16))
                i += 3
        else:
            out.append(ord(c))
            i += 1
    return bytes(out)


RE_ATTR = re.compile(r"^attributes #(\d+) = \{(.*)\}")
RE_LOC = re.compile(r'^(@[\w.$]+) = .*constant <\{ ptr, \[16 x i8\] \}> <\{ ptr (@[\w.$]+), \[16 x i8\] c"((?:[^"\\]|\\.)*)" \}>')
RE_STR = re.compile(r'^(@[\w.$]+) = .*constant (?:<\{ )?\[(\d+) x i8\](?: \}>)? (?:<\{ \[\d+ x i8\] )?c"((?:[^"\\]|\\.)*)"')
RE_DECL = re.compile(r"^declare .*?(@[\w.$]+)\(.*\).*?#(\d+)")
RE_DEFINE = re.compile(r"^define .*?(@[\w.$]+)\(")
RE_CALL = re.compile(r"\b(?:call|invoke)\b.*?(@[\w.$]+)\((.*)\)(.*)$")
RE_DBG = re.compile(r"!dbg !(\d+)")
RE_PHI = re.compile(r"^\s*(%[\w.]+) = phi ptr (.*)$")
RE_SEL = re.compile(r"^\s*(%[\w.]+) = select i1 [^,]+, ptr ([^,]+), ptr ([^,\s]+)")
RE_MD = re.compile(r"^!(\d+) = (?:distinct )?!(\w+)\((.*)\)$")


def parse(path):
    lines = open(path, errors="replace").read().split("\n")
    noreturn_groups = set()
    for ln in lines:
        m = RE_ATTR.match(ln)
        if m and re.search(r"\bnoreturn\b", m.group(2)):
            noreturn_groups.add(m.group(1))
    strs = {}
    locs_raw = {}
    noreturn_fns = set()
    for ln in lines:
        if ln.startswith("@"):
            m = RE_LOC.match(ln)
            if m:
                locs_raw[m.group(1)] = (m.group(2), unescape(m.group(3)))
                continue
            m = RE_STR.match(ln)
            if m:
                strs[m.group(1)] = unescape(m.group(3))
        elif ln.startswith("declare"):
            m = RE_DECL.match(ln)
            if m and m.group(2) in noreturn_groups:
                noreturn_fns.add(m.group(1))
    locs = {}
    for name, (fsym, raw) in locs_raw.items():
        if len(raw) != 16 or fsym not in strs:
            continue
        flen = int.from_bytes(raw[0:8], "little")
        line = int.from_bytes(raw[8:12], "little")
        col = int.from_bytes(raw[12:16], "little")
        fname = strs[fsym][:flen].decode("utf8", "replace")
        locs[name] = (fname, line, col)
    # debug metadata
    md = {}
    for ln in lines:
        if ln.startswith("!"):
            m = RE_MD.match(ln)
            if m:
                md[m.group(1)] = (m.group(2), m.group(3))

    def md_field(body, key):
        m = re.search(r"\b%s: ([^,)]+)" % key, body)
        return m.group(1).strip() if m else None

    def file_of_scope(sid, depth=0):
        if sid is None or depth > 30:
            return None
        sid = sid.lstrip("!")
        node = md.get(sid)
        if not node:
            return None
        kind, body = node
        if kind == "DIFile":
            m = re.search(r'filename: "([^"]*)"', body)
            return m.group(1) if m else None
        fl = md_field(body, "file")
        if fl and kind in ("DISubprogram", "DILexicalBlock", "DILexicalBlockFile", "DINamespace"):
            r = file_of_scope(fl, depth + 1)
            if r:
                return r
        sc = md_field(body, "scope")
        return file_of_scope(sc, depth + 1) if sc else None

    def dbg_frames(did):
        """[(file, line, col)] innermost first along the inlinedAt chain"""
        out = []
        cur = did
        n = 0
        while cur and n < 40:
            node = md.get(cur)
            if not node or node[0] != "DILocation":
                break
            body = node[1]
            line = md_field(body, "line")
            col = md_field(body, "column")
            sc = md_field(body, "scope")
            out.append((file_of_scope(sc), int(line) if line else 0, int(col) if col else 0))
            ia = md_field(body, "inlinedAt")
            cur = ia.lstrip("!") if ia else None
            n += 1
        return out

    sites = []
    cur_fn = None
    cur_name = None
    comment = None
    body_lines = []
    fn_bodies = []

    def flush():
        if cur_fn is not None:
            fn_bodies.append((cur_fn, cur_name, list(body_lines)))

    for ln in lines:
        if ln.startswith("; ") and not ln.startswith("; call") and not ln.startswith("; invoke") and not ln.startswith("; Function Attrs"):
            comment = ln[2:].strip()
        if ln.startswith("define"):
            m = RE_DEFINE.match(ln)
            cur_fn = m.group(1) if m else "?"
            cur_name = comment
            body_lines = []
        elif ln.startswith("}") and cur_fn is not None:
            flush()
            cur_fn = None
        elif cur_fn is not None:
            body_lines.append(ln)

    for fn, name, bl in fn_bodies:
        defs = {}
        for ln in bl:
            m = RE_PHI.match(ln)
            if m:
                defs[m.group(1)] = ("phi", re.findall(r"\[ ([^,\]]+),", m.group(2)))
                continue
            m = RE_SEL.match(ln)
            if m:
                defs[m.group(1)] = ("sel", [m.group(2).strip(), m.group(3).strip()])

        def resolve(op, depth=0):
            op = op.strip()
            if op in locs:
                return {locs[op]}
            if op.startswith("%") and op in defs and depth < 8:
                out = set()
                for x in defs[op][1]:
                    out |= resolve(x, depth + 1)
                return out
            return set()
        prev_comment = None
        for ln in bl:
            s = ln.strip()
            if s.startswith("; call ") or s.startswith("; invoke "):
                prev_comment = s.split(" ", 2)[2]
                continue
            if " call " not in ln and not s.startswith("call ") and " invoke " not in ln and not s.startswith("invoke ") and "tail call" not in ln:
                prev_comment = None if s and not s.startswith(";") else prev_comment
                continue
            m = RE_CALL.search(ln)
            if not m:
                prev_comment = None
                continue
            callee, args, rest = m.group(1), m.group(2), m.group(3)
            groups = re.findall(r"#(\d+)", rest)
            nr = callee in noreturn_fns or any(g in noreturn_groups for g in groups)
            if not nr:
                prev_comment = None
                continue
            ls = set()
            for a in re.findall(r"(@alloc_[\w]+|%[\w.]+)(?=[,)]|$)", args):
                ls |= resolve(a)
            dm = RE_DBG.search(ln)
            frames = dbg_frames(dm.group(1)) if dm else []
            sites.append({"fn": name or fn, "sym": fn, "callee": prev_comment or callee, "locs": sorted(ls), "frames": frames})
            prev_comment = None
    return sites


_cache = {}


def residue(repo=None):
    p = ir_path(repo)
    if p not in _cache:
        jp = p + ".sites.json"
        if os.path.exists(jp) and os.path.getmtime(jp) >= os.path.getmtime(p) and os.path.getmtime(jp) >= os.path.getmtime(__file__):
            _cache[p] = json.load(open(jp))
        else:
            s = parse(p)
            with open(jp + ".tmp", "w") as fh:
                json.dump(s, fh)
            os.replace(jp + ".tmp", jp)
            _cache[p] = json.load(open(jp))
    return _cache[p]


# ---- attribution and scopes -----------------------------------------------------------------

from . import thirlib as _T  # noqa: E402

DECODE_ENTRIES = ["DataMatrix::decode", "placement::MatrixMap::try_from_bits", "placement::MatrixMap::codewords",
                  "errorcode::decoding::syndrome_based::decode", "decodation::decode_data", "decodation::decode_str"]
ENCODE_ENTRIES = ["DataMatrix::encode", "DataMatrix::encode_str", "DataMatrix::encode_gs1", "DataMatrixBuilder::encode",
                  "DataMatrixBuilder::encode_str", "DataMatrixBuilder::encode_eci", "data::encode_data", "data::encodation_plan"]


def kind_of(callee):
    c = callee.split("::")[-1]
    for pat, k in (("add_overflow", "overflow-add"), ("sub_overflow", "overflow-sub"), ("mul_overflow", "overflow-mul"),
                   ("neg_overflow", "overflow-neg"), ("shl_overflow", "overflow-shl"), ("shr_overflow", "overflow-shr"),
                   ("div_by_zero", "div-by-zero"), ("rem_by_zero", "rem-by-zero"), ("div_overflow", "div-overflow"),
                   ("rem_overflow", "rem-overflow"), ("panic_bounds_check", "bounds"), ("slice_index", "slice-range"),
                   ("slice_start_index", "slice-range"), ("slice_end_index", "slice-range"), ("unwrap_failed", "unwrap"),
                   ("expect_failed", "expect"), ("handle_error", "alloc"), ("handle_alloc_error", "alloc"),
                   ("capacity_overflow", "alloc"), ("panic_already", "refcell"), ("panic_in_cleanup", "cleanup"),
                   ("ord_violation", "sort"), ("llvm.trap", "trap"), ("panic_nounwind", "nounwind")):
        if pat in callee:
            return k
    if "assert_failed" in callee or callee.startswith("<"):
        return "assert"
    if c in ("panic", "panic_fmt", "panic_explicit", "unreachable_display", "panic_display"):
        return "panic"
    return "other:" + c


def call_graph(f):
    """name(canon) -> set of local callee names(canon); trait calls on generic receivers go to every local impl"""
    local = {_T.canon(n): n for n in f.mir}
    by_method = {}
    for cn in local:
        # <Type as Trait>::method  or Type::method
        m = cn.split("::")[-1]
        by_method.setdefault(m, set()).add(cn)
    g = {cn: set() for cn in local}

    def add(src, callee, fanout=True):
        c = _T.canon(callee)
        if c in local:
            g[src].add(c)
            return
        if not fanout:
            return
        # unresolved trait method: `<T as Trait>::m` / `Trait::m`
        m = c.split("::")[-1]
        tr = None
        mm = re.match(r"^<.* as (.*)>::\w+$", c)
        if mm:
            tr = mm.group(1)
        elif "::" in c:
            tr = c.rsplit("::", 1)[0]
        if tr:
            for cand in by_method.get(m, ()):
                if (" as " + tr + ">") in cand or cand.startswith(tr + "::"):
                    g[src].add(cand)

    def visit_const(src, c):
        if "fn" in c:
            add(src, c.get("resolved") or c["fn"], fanout="resolved" not in c)

    def visit_op(src, op):
        if isinstance(op, dict) and "const" in op:
            visit_const(src, op["const"])
    for name, raw in f.mir.items():
        src = _T.canon(name)
        for blk in raw["blocks"]:
            for st in blk["stmts"]:
                if st["k"] != "Assign":
                    continue
                rv = st["rv"]
                if rv["k"] == "Aggregate" and rv.get("agg") == "Closure":
                    add(src, rv["def"])
                for key in ("op", "a", "b"):
                    if key in rv:
                        visit_op(src, rv[key])
                for o in rv.get("ops", []):
                    visit_op(src, o)
            t = blk["term"]
            if t["k"] == "Call":
                if "callee" in t:
                    # a call rustc could resolve has exactly that target; only unresolvable (generic receiver)
                    # trait calls fan out to every local impl of the trait method
                    add(src, t.get("resolved") or t["callee"], fanout="resolved" not in t)
                for a in t["args"]:
                    visit_op(src, a)
    return g


def reachable(g, entries):
    seen = set()
    stack = [e for e in entries if e in g]
    missing = [e for e in entries if e not in g]
    while stack:
        x = stack.pop()
        if x in seen:
            continue
        seen.add(x)
        stack.extend(g.get(x, ()))
    return seen, missing


def universe(f):
    """(file,line,col) -> [(owner canon, kind, snippet)] for every potential panic site in MIR"""
    uni = {}

    def key(sp):
        return (sp["file"], sp["line"], sp["col"])

    def ckey(sp):
        return (sp.get("cfile"), sp.get("cline"), sp.get("ccol")) if sp.get("exp") else None
    for name, raw in f.mir.items():
        owner = _T.canon(name)
        for blk in raw["blocks"]:
            if blk["cleanup"]:
                continue
            t = blk["term"]
            if t["k"] == "Assert":
                for k in (key(t["span"]), ckey(t["span"])):
                    if k:
                        uni.setdefault(k, []).append((owner, "assert:" + t["msg"], t.get("snippet", "")))
            elif t["k"] == "Call":
                callee = _T.canon(t.get("resolved") or t.get("callee") or "")
                for sp in (t["span"], t["fn_span"]):
                    for k in (key(sp), ckey(sp)):
                        if k:
                            uni.setdefault(k, []).append((owner, "call:" + callee, t.get("snippet", "")))
    return uni


def fn_ranges(f):
    out = []
    for name, raw in f.mir.items():
        sp = raw["span"]
        out.append((sp["file"], sp["line"], sp["eline"], _T.canon(name)))
    return out


def owner_by_position(ranges, file, line):
    best = None
    for fl, lo, hi, name in ranges:
        if fl == file and lo <= line <= hi:
            if best is None or (hi - lo) < (best[1] - best[0]):
                best = (lo, hi, name)
    return best[2] if best else None


_MIR_KIND = {"overflow-add": ("Overflow", "Add"), "overflow-sub": ("Overflow", "Sub"), "overflow-mul": ("Overflow", "Mul"),
             "overflow-neg": ("OverflowNeg", ""), "overflow-shl": ("Overflow", "Shl"), "overflow-shr": ("Overflow", "Shr"),
             "bounds": ("BoundsCheck", ""), "div-by-zero": ("DivisionByZero", ""), "rem-by-zero": ("RemainderByZero", "")}


def _kind_matches(kind, mir_kind):
    """does the MIR site description (`assert:<msg>` / `call:<callee>`) fit the residual panic kind"""
    if kind in _MIR_KIND:
        a, b = _MIR_KIND[kind]
        return mir_kind.startswith("assert:") and a in mir_kind and b in mir_kind
    return mir_kind.startswith("call:")


def attributed(f, repo=None):
    """residual sites with owner function(s): list of dict(owner, kind, pos, callee, snippet, via)"""
    uni = universe(f)
    ranges = fn_ranges(f)
    src_ranges = {}
    out = []
    for s in residue(repo):
        kind = kind_of(s["callee"])
        placed = False
        for l in s["locs"]:
            l = tuple(l)
            if l in uni:
                owners = sorted({o for o, _k, _s in uni[l]})
                for o in owners:
                    # a panic Location only carries the start line:col; `(a - b) - c` has two subtraction checks that start at
                    # the same column. Every MIR site of the matching kind at this position is taken to be residual.
                    cands = []
                    for o2, k2, sn in uni[l]:
                        if o2 == o and _kind_matches(kind, k2) and sn not in cands:
                            cands.append(sn)
                    if not cands:
                        cands = [uni[l][0][2]]
                    for i, sn in enumerate(cands):
                        out.append({"owner": o, "kind": kind, "pos": ("%s:%d:%d" % l) + ("" if i == 0 else "#%d" % i), "callee": s["callee"], "snippet": sn, "via": "location", "ir_fn": s["fn"]})
                placed = True
            elif l[0].startswith("src/"):
                o = owner_by_position(ranges, l[0], l[1])
                out.append({"owner": o or "?", "kind": kind, "pos": "%s:%d:%d" % l, "callee": s["callee"], "snippet": "", "via": "location-range", "ir_fn": s["fn"]})
                placed = True
        if placed:
            continue
        # std-internal location or no Location: innermost debug frame under src/
        fr = [x for x in s["frames"] if x[0] and x[0].startswith("src/")]
        if fr:
            o = owner_by_position(ranges, fr[0][0], fr[0][1])
            std = s["locs"][0] if s["locs"] else None
            if std is None and s["frames"] and s["frames"][0][0] and "/library/" in s["frames"][0][0]:
                # no Location at all (llvm.trap = intrinsics::abort) and the instruction itself belongs to alloc/core code
                # (e.g. the abort-on-unwind guard of btree/mem.rs): std-internal, whichever crate frame it was inlined into
                std = (s["frames"][0][0], s["frames"][0][1])
            out.append({"owner": o or "?", "kind": kind, "pos": "%s:%d:%d" % tuple(fr[0]), "callee": s["callee"], "snippet": "", "via": "debug-frame",
                        "std_loc": ("%s:%d" % (std[0].split("/library/")[-1], std[1])) if std else None, "ir_fn": s["fn"]})
        else:
            out.append({"owner": "(std) " + s["fn"][:120], "kind": kind, "pos": "-", "callee": s["callee"], "snippet": "", "via": "none",
                        "std_loc": ("%s:%d" % (s["locs"][0][0].split("/library/")[-1], s["locs"][0][1])) if s["locs"] else None, "ir_fn": s["fn"]})
    return out
