"""Helpers over the THIR facts: tree walking, evaluated patterns, decision-table
extraction and a *pure-expression folder* over finite domains.

The folder handles only literals, named constants, variables bound by the table's
scrutinee, arithmetic/bit/comparison operators, casts, indexing into constant
arrays, `if`/`match` on foldable values and blocks of immutable `let`s.  Anything
else (calls, loops, assignments, memory) raises `Undecidable`: no control flow of
the crate is interpreted.  Overflow and out-of-bounds conditions that the folded
expression would hit are reported as `Trap`.
"""

INT_TYPES = {
    "u8": (0, 2**8 - 1), "u16": (0, 2**16 - 1), "u32": (0, 2**32 - 1), "u64": (0, 2**64 - 1),
    "usize": (0, 2**64 - 1), "u128": (0, 2**128 - 1),
    "i8": (-2**7, 2**7 - 1), "i16": (-2**15, 2**15 - 1), "i32": (-2**31, 2**31 - 1),
    "i64": (-2**63, 2**63 - 1), "isize": (-2**63, 2**63 - 1),
    "char": (0, 0x10FFFF),
}


class Undecidable(Exception):
    pass


class ReturnEx(Exception):
    def __init__(self, value):
        super().__init__("return")
        self.value = value


class Trap(Exception):
    """the folded expression would panic (overflow / out of bounds / explicit panic)"""
    pass


def span_str(sp):
    if not sp:
        return "?"
    if sp.get("exp") and sp.get("cfile"):
        return "%s:%d:%d" % (sp["cfile"], sp["cline"], sp["ccol"])
    return "%s:%d:%d" % (sp["file"], sp["line"], sp["col"])


def children(node):
    for k, v in node.items():
        if k in ("span", "ty"):
            continue
        if isinstance(v, dict):
            yield v
        elif isinstance(v, list):
            for x in v:
                if isinstance(x, dict):
                    yield x


def walk(node):
    """all dict nodes (expressions, statements, arms, patterns) below node"""
    stack = [node]
    while stack:
        n = stack.pop()
        yield n
        stack.extend(reversed(list(children(n))))


def exprs(node, kind=None):
    for n in walk(node):
        if "k" in n and "span" in n and (kind is None or n["k"] == kind):
            yield n


def strip(e):
    """drop wrappers that do not change the value"""
    while True:
        k = e.get("k")
        if k in ("Borrow", "Deref", "Coerce", "RawBorrow"):
            e = e["arg"]
        elif k == "Block" and not e.get("stmts") and "expr" in e:
            e = e["expr"]
        else:
            return e


def calls(node, pred=None):
    for n in exprs(node, "Call"):
        callee = n.get("resolved") or n.get("callee") or ""
        if pred is None or pred(callee, n):
            yield n


def callee_of(n):
    return n.get("resolved") or n.get("callee") or ""


def let_env(body):
    """name -> initializer for immutable `let name = init;` bindings (unique ids make this safe)"""
    env = {}
    for n in walk(body):
        if n.get("k") == "Let" and "pat" in n and "init" in n:
            p = n["pat"]
            if p.get("k") == "Bind" and "sub" not in p and "Mut" not in p.get("mode", "").split(",")[-1]:
                env[p["name"]] = n["init"]
    return env


def is_mut_binding(p):
    return p.get("k") == "Bind" and p.get("mode", "").endswith("Mut)")


# ---- patterns ------------------------------------------------------------------

def pat_values(pat, domain):
    """set of integers of `domain` matched by an (integer) pattern"""
    k = pat["k"]
    if k in ("Wild",):
        return set(domain)
    if k == "Bind":
        if "sub" in pat:
            return pat_values(pat["sub"], domain)
        return set(domain)
    if k == "Const":
        v = pat["val"]
        if isinstance(v, int):
            return {v} & set(domain)
        raise Undecidable("non-scalar constant pattern")
    if k == "Range":
        lo, hi = pat["lo"], pat["hi"]
        lo = min(domain) if lo == "-inf" else lo
        hi = max(domain) if hi == "+inf" else hi
        if not pat["incl"]:
            hi -= 1
        return {x for x in domain if lo <= x <= hi}
    if k == "Or":
        s = set()
        for p in pat["pats"]:
            s |= pat_values(p, domain)
        return s
    if k == "Deref":
        return pat_values(pat["sub"], domain)
    raise Undecidable("pattern kind " + k)


def pat_binding(pat):
    """name bound to the whole scrutinee value by this pattern, if any"""
    k = pat["k"]
    if k == "Bind":
        return pat["name"]
    if k == "Deref":
        return pat_binding(pat["sub"])
    return None


def pat_variants(pat):
    """set of variant names matched by an enum pattern; None = everything"""
    k = pat["k"]
    if k == "Wild":
        return None
    if k == "Bind":
        return pat_variants(pat["sub"]) if "sub" in pat else None
    if k == "Variant":
        return {pat["variant"]}
    if k == "Or":
        s = set()
        for p in pat["pats"]:
            v = pat_variants(p)
            if v is None:
                return None
            s |= v
        return s
    if k == "Deref":
        return pat_variants(pat["sub"])
    if k == "Leaf":
        return None
    raise Undecidable("variant pattern kind " + k)


def int_match_table(m, domain):
    """[(values, binding_name, guard, body, arm)] with first-match semantics; guards make the
    arm's value set an over-approximation for later arms, so guarded arms are reported."""
    rows = []
    rest = set(domain)
    for arm in m["arms"]:
        vals = pat_values(arm["pat"], domain) & rest
        rows.append((vals, pat_binding(arm["pat"]), arm.get("guard"), arm["body"], arm))
        if "guard" not in arm:
            rest -= vals
    return rows, rest


def enum_match_table(m, variants):
    rows = []
    rest = list(variants)
    for arm in m["arms"]:
        vs = pat_variants(arm["pat"])
        cur = [v for v in rest if vs is None or v in vs]
        rows.append((cur, arm["body"], arm))
        if "guard" not in arm:
            rest = [v for v in rest if v not in cur]
    return rows, rest


# ---- folding -------------------------------------------------------------------

def ty_range(ty):
    return INT_TYPES.get(ty)


def wrap(v, ty):
    r = INT_TYPES.get(ty)
    if r is None:
        return v
    lo, hi = r
    span = hi - lo + 1
    return (v - lo) % span + lo


class Folder:
    def __init__(self, facts, env=None, lets=None, on_call=None, effects=False):
        self.effects = effects  # loop-free statement execution (let mut, assignment, early return)
        self.facts = facts
        self.env = dict(env or {})
        self.lets = lets or {}
        self.on_call = on_call

    def const_val(self, node):
        if "val" in node:
            return node["val"]
        c = self.facts.consts.get(node["def"])
        if c is not None and "val" in c:
            return c["val"]
        raise Undecidable("constant %s has no value" % node.get("def"))

    def fold(self, e):
        e0 = e
        k = e["k"]
        if k == "Lit":
            if "int" in e:
                return e["int"]
            if "bool" in e:
                return e["bool"]
            if "bytes" in e:
                return list(e["bytes"])
            if "str" in e:
                return e["str"]
            raise Undecidable("literal")
        if k == "NamedConst":
            return self.const_val(e)
        if k in ("Var", "Upvar"):
            n = e["name"]
            if n in self.env:
                return self.env[n]
            if n in self.lets:
                return self.fold(self.lets[n])
            raise Undecidable("free variable " + n)
        if k in ("Borrow", "Deref", "Coerce"):
            return self.fold(e["arg"])
        if k == "Cast":
            v = self.fold(e["arg"])
            if isinstance(v, bool):
                v = int(v)
            if not isinstance(v, int):
                raise Undecidable("cast of non-int")
            return wrap(v, e["ty"])
        if k == "Unary":
            v = self.fold(e["arg"])
            if e["op"] == "Not":
                if isinstance(v, bool):
                    return not v
                r = ty_range(e["ty"])
                return wrap(~v, e["ty"]) if r else ~v
            if e["op"] == "Neg":
                return self._chk(-v, e)
            raise Undecidable("unary " + e["op"])
        if k == "Logical":
            a = self.fold(e["lhs"])
            if e["op"] == "And":
                return a and self.fold(e["rhs"])
            return a or self.fold(e["rhs"])
        if k == "Binary":
            a = self.fold(e["lhs"])
            b = self.fold(e["rhs"])
            return self._bin(e["op"], a, b, e)
        if k == "Index":
            base = self.fold(e["lhs"])
            idx = self.fold(e["index"])
            if not isinstance(base, list) or not isinstance(idx, int):
                raise Undecidable("index")
            if not (0 <= idx < len(base)):
                raise Trap("index %d out of bounds (len %d) at %s" % (idx, len(base), span_str(e["span"])))
            return base[idx]
        if k == "If" and e["cond"].get("k") == "Let":
            v = self.fold(e["cond"]["expr"])
            ok, binds = self._pat_match(e["cond"]["pat"], v)
            if ok:
                shadow = {n: self.env[n] for n in binds if n in self.env}
                self.env.update(binds)
                try:
                    return self.fold(e["then"])
                finally:
                    for n in binds:
                        self.env.pop(n, None)
                    self.env.update(shadow)
            if "else" in e:
                return self.fold(e["else"])
            return None
        if k == "If":
            c = self.fold(e["cond"])
            if c:
                return self.fold(e["then"])
            if "else" in e:
                return self.fold(e["else"])
            return None
        if k == "Block":
            introduced = []
            shadow = {}
            try:
                for st in e.get("stmts", []):
                    if st["k"] == "Let":
                        if "init" not in st:
                            raise Undecidable("let without initialiser")
                        v = self.fold(st["init"])
                        ok, binds = self._pat_match(st["pat"], v)
                        if not ok:
                            if "else" in st:
                                for x in st["else"]:
                                    self.fold(x)
                            raise Undecidable("refutable let")
                        for n, bv in binds.items():
                            if n in self.env and n not in shadow:
                                shadow[n] = self.env[n]
                            introduced.append(n)
                            self.env[n] = bv
                    else:
                        if not self.effects:
                            raise Undecidable("statement in block")
                        self.fold(st["expr"])
                if "expr" in e:
                    return self.fold(e["expr"])
                return None
            finally:
                for n in introduced:
                    self.env.pop(n, None)
                self.env.update(shadow)
        if k in ("Assign", "AssignOp") and self.effects:
            lhs = strip(e["lhs"])
            if lhs["k"] not in ("Var", "Upvar") or lhs["name"] not in self.env:
                raise Undecidable("assignment to non-local")
            if k == "Assign":
                self.env[lhs["name"]] = self.fold(e["rhs"])
            else:
                op = e["op"].replace("Assign", "")
                self.env[lhs["name"]] = self._bin(op, self.env[lhs["name"]], self.fold(e["rhs"]), {"ty": lhs["ty"], "span": e["span"]})
            return None
        if k == "Return" and self.effects:
            raise ReturnEx(self.fold(e["value"]) if "value" in e else None)
        if k == "Match":
            if str(e.get("source", "")).startswith("TryDesugar"):
                inner = e["scrut"]["args"][0]
                v = self.fold(inner)
                if isinstance(v, dict) and v.get("__variant__") in ("Err", "None"):
                    if not self.effects:
                        raise Undecidable("`?` outside effect mode")
                    raise ReturnEx(v)
                if isinstance(v, dict) and v.get("__variant__") in ("Ok", "Some"):
                    return v.get("#0")
                raise Undecidable("`?` on unknown value")
            v = self.fold(e["scrut"])
            for arm in e["arms"]:
                ok, binds = self._pat_match(arm["pat"], v)
                if not ok:
                    continue
                shadow = {n: self.env[n] for n in binds if n in self.env}
                self.env.update(binds)
                try:
                    if "guard" in arm and not self.fold(arm["guard"]):
                        continue
                    return self.fold(arm["body"])
                finally:
                    for n in binds:
                        self.env.pop(n, None)
                    self.env.update(shadow)
            raise Undecidable("no arm matched")
        if k == "Adt":
            d = {"__adt__": e["adt"], "__variant__": e["variant"]}
            for f in e["fields"]:
                v = self.fold(f["expr"])
                d[f["field"] or str(f["idx"])] = v
                d["#%d" % f["idx"]] = v
            return d
        if k == "Field":
            b = self.fold(e["lhs"])
            if isinstance(b, dict) and e["field"] in b:
                return b[e["field"]]
            if isinstance(b, (tuple, list)) and e["idx"] < len(b):
                return b[e["idx"]]
            raise Undecidable("field")
        if k == "Tuple":
            return tuple(self.fold(x) for x in e["fields"])
        if k == "Loop":
            raise Undecidable("loop")
        if k == "Array":
            return [self.fold(x) for x in e["fields"]]
        if k == "Call":
            if self.on_call:
                r = self.on_call(self, e)
                if r is not NotImplemented:
                    return r
            r = self._builtin(e)
            if r is not NotImplemented:
                return r
            callee = callee_of(e)
            if callee.startswith("core::panicking") or "panic" in callee.split("::")[-1]:
                raise Trap("explicit panic at " + span_str(e["span"]))
            raise Undecidable("call to " + callee)
        raise Undecidable("expression kind " + k)

    def _builtin(self, e):
        """models of a few pure core functions"""
        cc = canon(callee_of(e))
        last = cc.split("::")[-1]
        a = e["args"]

        def opt(v):
            if v is None:
                return {"__adt__": "core::option::Option", "__variant__": "None"}
            return {"__adt__": "core::option::Option", "__variant__": "Some", "#0": v, "0": v}
        if cc.startswith("core::num::") and last in ("checked_sub", "checked_add", "checked_mul") and len(a) == 2:
            x, y = self.fold(a[0]), self.fold(a[1])
            v = {"checked_sub": x - y, "checked_add": x + y, "checked_mul": x * y}[last]
            rng = ty_range(a[0]["ty"])
            return opt(v if rng and rng[0] <= v <= rng[1] else None)
        if cc.startswith("core::num::") and last in ("wrapping_sub", "wrapping_add", "wrapping_mul") and len(a) == 2:
            x, y = self.fold(a[0]), self.fold(a[1])
            return wrap({"wrapping_sub": x - y, "wrapping_add": x + y, "wrapping_mul": x * y}[last], a[0]["ty"])
        if cc.startswith("core::num::") and last == "pow" and len(a) == 2:
            v = self.fold(a[0]) ** self.fold(a[1])
            return self._chk(v, e)
        if cc == "core::option::Option::ok_or" and len(a) == 2:
            o = self.fold(a[0])
            if isinstance(o, dict) and o.get("__variant__") == "Some":
                return {"__adt__": "core::result::Result", "__variant__": "Ok", "#0": o["#0"], "0": o["#0"]}
            if isinstance(o, dict) and o.get("__variant__") == "None":
                err = self.fold(a[1])
                return {"__adt__": "core::result::Result", "__variant__": "Err", "#0": err, "0": err}
        if cc == "core::option::Option::unwrap_or" and len(a) == 2:
            o = self.fold(a[0])
            if isinstance(o, dict) and o.get("__variant__") == "Some":
                return o["#0"]
            if isinstance(o, dict) and o.get("__variant__") == "None":
                return self.fold(a[1])
        if last in ("is_ascii_digit",) and len(a) == 1:
            v = self.fold(a[0])
            return 48 <= v <= 57
        if cc.endswith("core::convert::Into<U>>::into") or cc.endswith("core::convert::From<T>>::from"):
            if len(a) == 1 and e["ty"] in INT_TYPES:
                v = self.fold(a[0])
                if isinstance(v, int):
                    return v
        return NotImplemented

    def run(self, body):
        """execute a loop-free body; the result is its value or the early-returned value"""
        try:
            return self.fold(body)
        except ReturnEx as r:
            return r.value

    def _pat_match(self, pat, v):
        k = pat["k"]
        if k == "Wild":
            return True, {}
        if k == "Bind":
            if "sub" in pat:
                ok, b = self._pat_match(pat["sub"], v)
                if not ok:
                    return False, {}
                b = dict(b)
                b[pat["name"]] = v
                return True, b
            return True, {pat["name"]: v}
        if k == "Const":
            return (pat["val"] == v or (isinstance(v, bool) and pat["val"] == int(v))), {}
        if k == "Range":
            lo, hi = pat["lo"], pat["hi"]
            if lo != "-inf" and v < lo:
                return False, {}
            if hi != "+inf" and (v > hi or (not pat["incl"] and v == hi)):
                return False, {}
            return True, {}
        if k == "Or":
            for p in pat["pats"]:
                ok, b = self._pat_match(p, v)
                if ok:
                    return True, b
            return False, {}
        if k == "Deref":
            return self._pat_match(pat["sub"], v)
        if k == "Variant":
            if isinstance(v, dict):
                if v.get("__variant__") != pat["variant"]:
                    return False, {}
                binds = {}
                for fp in pat["fields"]:
                    ok, b = self._pat_match(fp["pat"], v.get("#%d" % fp["f"]))
                    if not ok:
                        return False, {}
                    binds.update(b)
                return True, binds
            if isinstance(v, str):  # fieldless enum given by variant name
                return v == pat["variant"], {}
            raise Undecidable("variant pattern on non-adt")
        if k == "Leaf":
            binds = {}
            for fp in pat["fields"]:
                if isinstance(v, dict):
                    sub = v.get("#%d" % fp["f"])
                elif isinstance(v, (tuple, list)):
                    sub = v[fp["f"]]
                else:
                    raise Undecidable("leaf pattern")
                ok, b = self._pat_match(fp["pat"], sub)
                if not ok:
                    return False, {}
                binds.update(b)
            return True, binds
        raise Undecidable("pattern " + k)

    def _chk(self, v, e):
        r = ty_range(e["ty"])
        if r and not (r[0] <= v <= r[1]):
            raise Trap("arithmetic overflow (%s = %d) at %s" % (e["ty"], v, span_str(e["span"])))
        return v

    def _bin(self, op, a, b, e):
        if isinstance(a, bool) and op in ("BitAnd", "BitOr", "BitXor", "Eq", "Ne"):
            pass
        if op == "Add":
            return self._chk(a + b, e)
        if op == "Sub":
            return self._chk(a - b, e)
        if op == "Mul":
            return self._chk(a * b, e)
        if op == "Div":
            if b == 0:
                raise Trap("division by zero at " + span_str(e["span"]))
            return int(a / b) if (a < 0) != (b < 0) else a // b
        if op == "Rem":
            if b == 0:
                raise Trap("remainder by zero at " + span_str(e["span"]))
            return a - b * (int(a / b) if (a < 0) != (b < 0) else a // b)
        if op == "BitAnd":
            return a & b
        if op == "BitOr":
            return a | b
        if op == "BitXor":
            return a ^ b
        if op == "Shl":
            r = ty_range(e["ty"])
            bits = {"u8": 8, "u16": 16, "u32": 32, "u64": 64, "usize": 64, "i16": 16, "i32": 32, "i64": 64, "isize": 64, "i8": 8}.get(e["ty"])
            if bits and b >= bits:
                raise Trap("shift overflow at " + span_str(e["span"]))
            return wrap(a << b, e["ty"]) if r else a << b
        if op == "Shr":
            return a >> b
        if op == "Eq":
            return a == b
        if op == "Ne":
            return a != b
        if op == "Lt":
            return a < b
        if op == "Le":
            return a <= b
        if op == "Gt":
            return a > b
        if op == "Ge":
            return a >= b
        raise Undecidable("binary op " + op)


def find_fn(facts, name):
    b = facts.thir.get(name)
    if b is None:
        return None
    return b


def top_match(body, scrut_name=None):
    """the first `match` in the function body (optionally on the given variable)"""
    for n in exprs(body, "Match"):
        s = strip(n["scrut"])
        if scrut_name is None or (s.get("k") in ("Var", "Upvar") and s["name"].split("#")[0] == scrut_name):
            return n
    return None


# ---- normalised S-expressions ---------------------------------------------------

import re as _re

_GEN = _re.compile(r"::<[^<>]*(?:<[^<>]*(?:<[^<>]*>[^<>]*)*>[^<>]*)*>")


def canon(path):
    """strip generic arguments from a def path"""
    prev = None
    while prev != path:
        prev = path
        path = _GEN.sub("", path)
    return path


def sx(e, lets=None, depth=40):
    """normalised tuple form of an expression; immutable lets are inlined"""
    lets = lets or {}
    if depth <= 0:
        return ("deep",)
    k = e["k"]
    if k in ("Borrow", "Deref", "Coerce", "RawBorrow"):
        return sx(e["arg"], lets, depth)
    if k == "Block":
        if not e.get("stmts") and "expr" in e:
            return sx(e["expr"], lets, depth)
        # block of immutable lets followed by an expression
        if "expr" in e and all(st["k"] == "Let" and st["pat"].get("k") == "Bind" and "sub" not in st["pat"]
                               and not is_mut_binding(st["pat"]) and "init" in st for st in e.get("stmts", [])):
            l2 = dict(lets)
            for st in e["stmts"]:
                l2[st["pat"]["name"]] = st["init"]
            return sx(e["expr"], l2, depth)
        return ("opaque", "Block", span_str(e["span"]))
    if k in ("Var", "Upvar"):
        n = e["name"]
        if n in lets:
            return sx(lets[n], lets, depth - 1)
        return ("var", n.split("#")[0], n)
    if k == "Lit":
        if "int" in e:
            return ("lit", e["int"])
        if "bool" in e:
            return ("lit", e["bool"])
        if "bytes" in e:
            return ("lit", tuple(e["bytes"]))
        if "str" in e:
            return ("lit", e["str"])
        return ("lit", None)
    if k == "NamedConst":
        v = e.get("val")
        return ("const", e["def"], tuple(v) if isinstance(v, list) and all(isinstance(x, int) for x in v) else v if isinstance(v, int) else None)
    if k == "Call":
        return ("call", canon(callee_of(e)), tuple(sx(a, lets, depth - 1) for a in e["args"]))
    if k == "Field":
        return ("field", sx(e["lhs"], lets, depth - 1), e["field"])
    if k == "Binary":
        return ("bin", e["op"], sx(e["lhs"], lets, depth - 1), sx(e["rhs"], lets, depth - 1))
    if k == "Logical":
        return ("logic", e["op"], sx(e["lhs"], lets, depth - 1), sx(e["rhs"], lets, depth - 1))
    if k == "Unary":
        return ("un", e["op"], sx(e["arg"], lets, depth - 1))
    if k == "Cast":
        return ("cast", sx(e["arg"], lets, depth - 1), e["ty"])
    if k == "Index":
        return ("index", sx(e["lhs"], lets, depth - 1), sx(e["index"], lets, depth - 1))
    if k == "Closure":
        return ("closure", e["def"])
    if k == "Zst":
        return ("fn", canon(e.get("resolved") or e.get("fn") or "?"))
    if k == "Adt":
        return ("adt", e["adt"], e["variant"], tuple((f["field"] or str(f["idx"]), sx(f["expr"], lets, depth - 1)) for f in e["fields"]))
    if k == "Tuple":
        return ("tuple", tuple(sx(a, lets, depth - 1) for a in e["fields"]))
    if k == "Array":
        return ("array", tuple(sx(a, lets, depth - 1) for a in e["fields"]))
    if k == "If":
        return ("if", sx(e["cond"], lets, depth - 1), sx(e["then"], lets, depth - 1),
                sx(e["else"], lets, depth - 1) if "else" in e else None)
    if k == "Repeat":
        return ("repeat", sx(e["value"], lets, depth - 1), e.get("n"))
    if k == "Return":
        return ("return", sx(e["value"], lets, depth - 1) if "value" in e else None)
    if k == "Match":
        if str(e.get("source", "")).startswith("TryDesugar"):
            return ("try", sx(e["scrut"]["args"][0], lets, depth - 1))
        return ("match", sx(e["scrut"], lets, depth - 1),
                tuple((_pat_desc(a["pat"]), sx(a["body"], lets, depth - 1)) for a in e["arms"]), span_str(e["span"]))
    return ("opaque", k, span_str(e["span"]))


def sx_walk(t):
    yield t
    if isinstance(t, tuple):
        for x in t[1:]:
            if isinstance(x, tuple):
                if x and isinstance(x[0], str):
                    yield from sx_walk(x)
                else:
                    for y in x:
                        if isinstance(y, tuple):
                            yield from sx_walk(y)


def sx_calls(t, name_suffix):
    return [x for x in sx_walk(t) if isinstance(x, tuple) and x and x[0] == "call" and x[1].endswith(name_suffix)]


def sx_show(t, limit=220):
    s = _sxs(t)
    return s if len(s) <= limit else s[:limit] + "…"


def _sxs(t):
    if not isinstance(t, tuple) or not t:
        return repr(t)
    k = t[0]
    if k == "var":
        return t[1]
    if k == "lit":
        return repr(t[1])
    if k == "const":
        return t[1].split("::")[-1]
    if k == "call":
        return "%s(%s)" % ("::".join(t[1].split("::")[-2:]), ", ".join(_sxs(a) for a in t[2]))
    if k == "field":
        return "%s.%s" % (_sxs(t[1]), t[2])
    if k == "bin":
        return "(%s %s %s)" % (_sxs(t[2]), t[1], _sxs(t[3]))
    if k == "logic":
        return "(%s %s %s)" % (_sxs(t[2]), t[1], _sxs(t[3]))
    if k == "un":
        return "%s(%s)" % (t[1], _sxs(t[2]))
    if k == "cast":
        return "(%s as %s)" % (_sxs(t[1]), t[2])
    if k == "index":
        return "%s[%s]" % (_sxs(t[1]), _sxs(t[2]))
    if k == "closure":
        return "|..|{%s}" % t[1].split("::")[-2]
    if k == "tuple":
        return "(%s)" % ", ".join(_sxs(a) for a in t[1])
    if k == "adt":
        return "%s::%s{..}" % (t[1].split("::")[-1], t[2])
    if k == "try":
        return _sxs(t[1]) + "?"
    if k == "match":
        return "match %s {%d arms}" % (_sxs(t[1]), len(t[2]))
    return str(t)


# ---- structured statements --------------------------------------------------------

def for_loop_parts(m):
    """if `m` is a desugared `for pat in iter { body }` return (iter_expr, pat, body_expr)"""
    if m.get("k") != "Match" or m.get("source") != "ForLoopDesugar":
        return None
    sc = m["scrut"]
    if sc.get("k") != "Call" or not canon(callee_of(sc)).endswith("into_iter"):
        return None
    it = sc["args"][0]
    arm = m["arms"][0]
    lp = arm["body"]
    if lp.get("k") != "Loop":
        return None
    inner = None
    for n in exprs(lp["body"], "Match"):
        if n.get("source") == "ForLoopDesugar":
            inner = n
            break
    if inner is None:
        return None
    for a in inner["arms"]:
        p = a["pat"]
        if p.get("k") == "Variant" and p.get("variant") == "Some":
            return (it, p["fields"][0]["pat"], a["body"])
    return None


def pat_names(p):
    out = []
    for n in walk(p):
        if n.get("k") == "Bind":
            out.append(n["name"])
    return out


def stmts(e, lets=None):
    """flatten an expression used in statement position into a list of simplified statements:
    ('let', name, is_mut, sx) | ('for', [names], sx_iter, [stmts], span) | ('assign', sx_l, sx_r, span)
    | ('assignop', op, sx_l, sx_r, span) | ('if', sx_cond, [then], [else], span) | ('loop', [stmts], span)
    | ('return', sx|None, span) | ('break',) | ('continue',) | ('match', sx_scrut, [(pat, [stmts])], span)
    | ('expr', sx, span)"""
    lets = lets if lets is not None else {}
    k = e["k"]
    sp = span_str(e["span"]) if "span" in e else "?"
    if k == "Block":
        out = []
        for st in e.get("stmts", []):
            if st["k"] == "Let":
                p = st["pat"]
                if p.get("k") == "Bind" and "sub" not in p and "init" in st:
                    mut = is_mut_binding(p)
                    if not mut and "else" not in st and not lets.get("__noinline__") and _inlinable(st["init"]):
                        lets[p["name"]] = st["init"]
                    out.append(("let", p["name"], mut, sx(st["init"], lets), span_str(st["span"])))
                else:
                    init = sx(st["init"], lets) if "init" in st else None
                    out.append(("letpat", pat_names(p), init, span_str(st["span"]), p))
                    if "else" in st:
                        for x in st["else"]:
                            out.append(("letelse", stmts(x, lets)))
            else:
                out.extend(stmts(st["expr"], lets))
        if "expr" in e:
            out.extend(stmts(e["expr"], lets))
        return out
    if k == "Match":
        if str(e.get("source", "")).startswith("TryDesugar"):
            return [("expr", sx(e, lets), sp)]
        fl = for_loop_parts(e)
        if fl:
            it, pat, body = fl
            return [("for", pat_names(pat), sx(it, lets), stmts(body, lets), sp)]
        arms = []
        for a in e["arms"]:
            arms.append((a["pat"], stmts(a["body"], lets), sx(a["guard"], lets) if "guard" in a else None))
        return [("match", sx(e["scrut"], lets), arms, sp)]
    if k == "If":
        return [("if", sx(e["cond"], lets) if e["cond"]["k"] != "Let" else ("iflet", sx(e["cond"]["expr"], lets), tuple(pat_names(e["cond"]["pat"])), _pat_desc(e["cond"]["pat"])),
                 stmts(e["then"], lets), stmts(e["else"], lets) if "else" in e else [], sp)]
    if k == "Loop":
        return [("loop", stmts(e["body"], lets), sp)]
    if k == "Assign":
        return [("assign", sx(e["lhs"], lets), sx(e["rhs"], lets), sp)]
    if k == "AssignOp":
        return [("assignop", e["op"], sx(e["lhs"], lets), sx(e["rhs"], lets), sp)]
    if k == "Return":
        return [("return", sx(e["value"], lets) if "value" in e else None, sp)]
    if k == "Break":
        return [("break", sp)]
    if k == "Continue":
        return [("continue", sp)]
    return [("expr", sx(e, lets), sp)]


def _inlinable(init):
    """only side-effect free, branch-free initialisers are inlined at their uses"""
    for n in walk(init):
        if n.get("k") in ("Match", "If", "Loop", "Block", "Assign", "AssignOp", "Return", "Break", "Let"):
            return False
        if n.get("k") == "Borrow" and n.get("mut"):
            return False
    return True


def _pat_desc(p):
    k = p.get("k")
    if k == "Variant":
        return p["variant"]
    if k == "Deref":
        return _pat_desc(p["sub"])
    return k


def stmt_walk(sts):
    """all statements, depth first"""
    for s in sts:
        yield s
        if s[0] == "for":
            yield from stmt_walk(s[3])
        elif s[0] == "if":
            yield from stmt_walk(s[2])
            yield from stmt_walk(s[3])
        elif s[0] == "loop":
            yield from stmt_walk(s[1])
        elif s[0] == "match":
            for _p, body, _g in s[2]:
                yield from stmt_walk(body)
        elif s[0] == "letelse":
            yield from stmt_walk(s[1])


def stmt_exprs(s):
    """sx expressions directly contained in a statement"""
    k = s[0]
    if k == "let":
        return [s[3]]
    if k == "letpat":
        return [s[2]] if s[2] else []
    if k == "for":
        return [s[2]]
    if k == "assign":
        return [s[1], s[2]]
    if k == "assignop":
        return [s[2], s[3]]
    if k == "if":
        return [s[1]]
    if k == "return":
        return [s[1]] if s[1] else []
    if k == "match":
        return [s[1]]
    if k == "expr":
        return [s[1]]
    return []


def fn_stmts(facts, name):
    b = facts.thir.get(name)
    if b is None:
        return None, None
    lets = {}
    return stmts(b["body"], lets), lets


# ---- polynomial normal form for index arithmetic -----------------------------------------------

def poly(e, atom):
    """normalise an sx arithmetic expression over + - * (unsigned, no overflow assumed) to
    {monomial(tuple of atom names): coefficient}.  `atom(x)` names a sub-expression that is to be treated
    as an indeterminate (or returns None).  Unknown sub-expressions become their own atoms."""
    a = atom(e)
    if a is not None:
        return {(a,): 1}
    if e[0] == "lit" and isinstance(e[1], int) and not isinstance(e[1], bool):
        return {(): e[1]} if e[1] else {}
    if e[0] == "cast":
        return poly(e[1], atom)
    if e[0] == "bin" and e[1] in ("Add", "Sub", "Mul"):
        p, q = poly(e[2], atom), poly(e[3], atom)
        if e[1] == "Mul":
            out = {}
            for m1, c1 in p.items():
                for m2, c2 in q.items():
                    m = tuple(sorted(m1 + m2))
                    out[m] = out.get(m, 0) + c1 * c2
        else:
            out = dict(p)
            sgn = 1 if e[1] == "Add" else -1
            for m, c in q.items():
                out[m] = out.get(m, 0) + sgn * c
        return {m: c for m, c in out.items() if c}
    return {("?" + sx_show(e, 80),): 1}


# ---- one-level inlining of small pure crate-local helpers -----------------------------------------

def inline_pure_helper(facts, e, depth=2):
    """if `e` is a call to a crate-local function whose body is a pure expression (after let-inlining), return the
    body with parameters substituted by the arguments (recursively, bounded); otherwise return e"""
    if depth <= 0 or not isinstance(e, tuple) or e[0] != "call":
        return e
    body = None
    for n, b in facts.thir.items():
        if canon(n) == e[1]:
            body = b
            break
    if body is None or len(body["params"]) != len(e[2]):
        return e
    pnames = []
    for p in body["params"]:
        pat = p.get("pat")
        if not pat or pat.get("k") != "Bind" or "sub" in pat:
            return e
        pnames.append(pat["name"])
    bx = sx(body["body"], {})
    if any(isinstance(x, tuple) and x and x[0] in ("opaque", "match", "if", "try", "closure") for x in sx_walk(bx)):
        return e
    mapping = dict(zip(pnames, e[2]))

    def subst(t):
        if not isinstance(t, tuple):
            return t
        if t and t[0] == "var" and len(t) > 2 and t[2] in mapping:
            return mapping[t[2]]
        return tuple(subst(x) if isinstance(x, tuple) else x for x in t)
    return inline_pure_helper(facts, subst(bx), depth - 1)


def map_sx(t, fn):
    """rebuild an sx tree bottom-up applying fn to every node"""
    if not isinstance(t, tuple):
        return t
    out = tuple(map_sx(x, fn) if isinstance(x, tuple) else x for x in t)
    return fn(out) if out and isinstance(out[0], str) else out
