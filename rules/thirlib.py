"""Helpers over the THIR facts: tree walking, evaluated patterns, decision-table
extraction and a *pure-expression folder* over finite domains.

The folder handles only literals, named constants, variables bound by the table's
scrutinee, arithmetic/bit/comparison operators, casts, indexing into constant
arrays, `if`/`match` on foldable values and blocks of immutable `let`s.  Anything
else (calls, loops, assignments, memory) raises `Undecidable`: no control flow of
the crate is interpreted.  Overflow and out-of-bounds conditions that the folded
expression would hit are reported as `Trap`.
"""

INT_TYPES = {
    "u8": (0, 2**8 - 1), "u16": (0, 2**16 - 1), "u32": (0, 2**32 - 1), "u64": (0, 2**64 - 1),
    "usize": (0, 2**64 - 1), "u128": (0, 2**128 - 1),
    "i8": (-2**7, 2**7 - 1), "i16": (-2**15, 2**15 - 1), "i32": (-2**31, 2**31 - 1),
    "i64": (-2**63, 2**63 - 1), "isize": (-2**63, 2**63 - 1),
    "char": (0, 0x10FFFF),
}


class Undecidable(Exception):
    pass


class ReturnEx(Exception):
    def __init__(self, value):
        super().__init__("return")
        self.value = value


class BreakEx(Exception):
    def __init__(self, value=None):
        Exception.__init__(self, "break")
        self.value = value


class ContinueEx(Exception):
    pass


class Trap(Exception):
    """the folded expression would panic (overflow / out of bounds / explicit panic)"""
    pass


def span_str(sp):
    if not sp:
        return "?"
    if sp.get("exp") and sp.get("cfile"):
        return "%s:%d:%d" % (sp["cfile"], sp["cline"], sp["ccol"])
    return "%s:%d:%d" % (sp["file"], sp["line"], sp["col"])


def children(node):
    for k, v in node.items():
        if k in ("span", "ty"):
            continue
        if isinstance(v, dict):
            yield v
        elif isinstance(v, list):
            for x in v:
                if isinstance(x, dict):
                    yield x


def walk(node):
    """all dict nodes (expressions, statements, arms, patterns) below node"""
    stack = [node]
    while stack:
        n = stack.pop()
        yield n
        stack.extend(reversed(list(children(n))))


def exprs(node, kind=None):
    for n in walk(node):
        if "k" in n and "span" in n and (kind is None or n["k"] == kind):
            yield n


def strip(e):
    """drop wrappers that do not change the value"""
    while True:
        k = e.get("k")
        if k in ("Borrow", "Deref", "Coerce", "RawBorrow"):
            e = e["arg"]
        elif k == "Block" and not e.get("stmts") and "expr" in e:
            e = e["expr"]
        else:
            return e


def calls(node, pred=None):
    for n in exprs(node, "Call"):
        callee = n.get("resolved") or n.get("callee") or ""
        if pred is None or pred(callee, n):
            yield n


def callee_of(n):
    return n.get("resolved") or n.get("callee") or ""


def let_env(body):
    """name -> initializer for immutable `let name = init;` bindings (unique ids make this safe)"""
    env = {}
    for n in walk(body):
        if n.get("k") == "Let" and "pat" in n and "init" in n:
            p = n["pat"]
            if p.get("k") == "Bind" and "sub" not in p and "Mut" not in p.get("mode", "").split(",")[-1]:
                env[p["name"]] = n["init"]
    return env


def is_mut_binding(p):
    return p.get("k") == "Bind" and p.get("mode", "").endswith("Mut)")


# ---- patterns ------------------------------------------------------------------

def pat_values(pat, domain):
    """set of integers of `domain` matched by an (integer) pattern"""
    k = pat["k"]
    if k in ("Wild",):
        return set(domain)
    if k == "Bind":
        if "sub" in pat:
            return pat_values(pat["sub"], domain)
        return set(domain)
    if k == "Const":
        v = pat["val"]
        if isinstance(v, int):
            return {v} & set(domain)
        raise Undecidable("non-scalar constant pattern")
    if k == "Range":
        lo, hi = pat["lo"], pat["hi"]
        lo = min(domain) if lo == "-inf" else lo
        hi = max(domain) if hi == "+inf" else hi
        if not pat["incl"]:
            hi -= 1
        return {x for x in domain if lo <= x <= hi}
    if k == "Or":
        s = set()
        for p in pat["pats"]:
            s |= pat_values(p, domain)
        return s
    if k == "Deref":
        return pat_values(pat["sub"], domain)
    raise Undecidable("pattern kind " + k)


def pat_binding(pat):
    """name bound to the whole scrutinee value by this pattern, if any"""
    k = pat["k"]
    if k == "Bind":
        return pat["name"]
    if k == "Deref":
        return pat_binding(pat["sub"])
    return None


def pat_variants(pat):
    """set of variant names matched by an enum pattern; None = everything"""
    k = pat["k"]
    if k == "Wild":
        return None
    if k == "Bind":
        return pat_variants(pat["sub"]) if "sub" in pat else None
    if k == "Variant":
        return {pat["variant"]}
    if k == "Or":
        s = set()
        for p in pat["pats"]:
            v = pat_variants(p)
            if v is None:
                return None
            s |= v
        return s
    if k == "Deref":
        return pat_variants(pat["sub"])
    if k == "Leaf":
        return None
    raise Undecidable("variant pattern kind " + k)


def int_match_table(m, domain):
    """[(values, binding_name, guard, body, arm)] with first-match semantics; guards make the
    arm's value set an over-approximation for later arms, so guarded arms are reported."""
    rows = []
    rest = set(domain)
    for arm in m["arms"]:
        vals = pat_values(arm["pat"], domain) & rest
        rows.append((vals, pat_binding(arm["pat"]), arm.get("guard"), arm["body"], arm))
        if "guard" not in arm:
            rest -= vals
    return rows, rest


def enum_match_table(m, variants):
    rows = []
    rest = list(variants)
    for arm in m["arms"]:
        vs = pat_variants(arm["pat"])
        cur = [v for v in rest if vs is None or v in vs]
        rows.append((cur, arm["body"], arm))
        if "guard" not in arm:
            rest = [v for v in rest if v not in cur]
    return rows, rest


# ---- folding -------------------------------------------------------------------

def ty_range(ty):
    return INT_TYPES.get(ty)


def wrap(v, ty):
    r = INT_TYPES.get(ty)
    if r is None:
        return v
    lo, hi = r
    span = hi - lo + 1
    return (v - lo) % span + lo


class Token(str):
    """an opaque value standing for an object the fold does not look into"""


class Ref:
    """a mutable reference to a scalar slot: (container, key) with container a list, an ADT value (dict) or an environment.
    Aggregates (lists, ADT values) are shared by identity, so only scalar slots need an explicit reference."""
    __slots__ = ("c", "k")

    def __init__(self, c, k):
        self.c, self.k = c, k

    def load(self):
        v = self.c[self.k]
        return v.load() if isinstance(v, Ref) else v

    def store(self, v):
        cur = self.c[self.k]
        if isinstance(cur, Ref):
            cur.store(v)
        else:
            self.c[self.k] = v


def _loaded(v):
    return v.load() if isinstance(v, Ref) else v


class _InPlace:
    """container adaptor: slot 0 is an ADT value reached through a reference (aggregates are shared by identity): a store
    overwrites the referenced value in place, so that every holder of the reference sees it"""
    def __init__(self, obj):
        self.obj = obj

    def __getitem__(self, _k):
        return self.obj

    def __setitem__(self, _k, v):
        if isinstance(v, dict) and v is not self.obj:
            new = dict(v)
            self.obj.clear()
            self.obj.update(new)
        elif not isinstance(v, dict):
            raise Undecidable("store of a non-ADT value through a reference to an ADT value")


class _FieldSlot:
    """container adaptor: slot 0 is the field `name` (index idx) of an ADT value, kept consistent under both keys"""
    def __init__(self, obj, name, idx):
        self.obj, self.name, self.idx = obj, name, idx

    def __getitem__(self, _k):
        if self.name in self.obj:
            return self.obj[self.name]
        return self.obj["#%d" % self.idx]

    def __setitem__(self, _k, v):
        self.obj[self.name] = v
        self.obj["#%d" % self.idx] = v


class Sym:
    """a boolean formula over equality atoms between opaque values: ("atom", a, b) | ("not", f) | ("and", f, g) | ("or", f, g)"""
    __slots__ = ("f",)

    def __init__(self, f):
        self.f = f

    def __bool__(self):
        raise Undecidable("branch on a symbolic condition")

    def __repr__(self):
        return "Sym%r" % (self.f,)


def s_not(x):
    if isinstance(x, Sym):
        return Sym(x.f[1]) if x.f[0] == "not" else Sym(("not", x.f))
    return not x


def s_and(a, b):
    if not isinstance(a, Sym):
        return b if a else False
    if not isinstance(b, Sym):
        return a if b else False
    return Sym(("and", a.f, b.f))


def s_or(a, b):
    if not isinstance(a, Sym):
        return True if a else b
    if not isinstance(b, Sym):
        return True if b else a
    return Sym(("or", a.f, b.f))


def sym_required(f, want=True, out=None):
    """the equalities [(a, b)] that must all hold for formula f to have the truth value `want`; raises Undecidable when that
    condition is not a plain conjunction of equalities (a disjunction or an inequality would be needed)"""
    out = [] if out is None else out
    k = f[0]
    if k == "atom":
        if not want:
            raise Undecidable("an inequality is required")
        out.append((f[1], f[2]))
    elif k == "not":
        sym_required(f[1], not want, out)
    elif k == "and":
        if not want:
            raise Undecidable("a disjunction is required")
        sym_required(f[1], True, out)
        sym_required(f[2], True, out)
    elif k == "or":
        if want:
            raise Undecidable("a disjunction is required")
        sym_required(f[1], False, out)
        sym_required(f[2], False, out)
    return out


class BSet(list):
    """a BTreeSet value: a list kept sorted and duplicate-free by the client's key function (Folder.set_key)"""
    pass


class Cycle:
    """`iter.cycle()` of a finite sequence (only consumable through zip with a finite one)"""
    def __init__(self, items):
        self.items = list(items)


def strip_keep_deref(e):
    return e


def strip_borrow_mut(e):
    """the borrowed place if `e` is `&mut <place>` (through coercions), else None"""
    while e.get("k") in ("Coerce",) or (e.get("k") == "Block" and not e.get("stmts") and "expr" in e):
        e = e["arg"] if "arg" in e else e["expr"]
    if e.get("k") == "Borrow" and e.get("mut"):
        return e["arg"]
    return None


class Folder:
    def __init__(self, facts, env=None, lets=None, on_call=None, effects=False, local_calls=2):
        self.local_calls = local_calls  # fold calls to crate-local functions by folding their bodies (depth bound)
        self.opaque_consts = False      # associated constants of generic parameters (M::HIGH) become opaque tokens
        self.views = bool(effects)      # sub-slices as write-through views (stores through `&mut v[a..b]` reach v)
        self.max_iter = 4096
        self.set_key = None             # element -> sort key: enables the BTreeSet model (BSet)
        self.sym_eq = None              # (a, b) -> bool: an equality test between these opaque values yields a symbolic boolean (Sym)
        self.path = []                  # symbolic conditions that had to be true to get past an early `return Err(..)`
        self.effects = effects  # loop-free statement execution (let mut, assignment, early return)
        self.facts = facts
        self.env = dict(env or {})
        self.lets = lets or {}
        self.on_call = on_call

    def _enum_consts(self, val, ty):
        """a constant table of fieldless crate-enum values arrives from CTFE as [[variant index], ..]: turned into enum values"""
        m = re.match(r"^&?\[([\w:]+)(?:; \d+)?\]$", str(ty or ""))
        adt = self.facts.adts.get(m.group(1)) if m and hasattr(self.facts, "adts") else None
        if adt and adt.get("kind") == "Enum" and isinstance(val, list) and all(isinstance(x, list) and len(x) == 1 and isinstance(x[0], int) for x in val):
            names = {v["idx"]: v["name"] for v in adt["variants"]}
            if all(x[0] in names for x in val):
                return [{"__adt__": m.group(1), "__variant__": names[x[0]]} for x in val]
        return val

    def const_val(self, node):
        if "val" in node:
            return self._enum_consts(node["val"], node.get("ty"))
        c = self.facts.consts.get(node["def"])
        if c is not None and "val" in c:
            return self._enum_consts(c["val"], node.get("ty") or c.get("ty"))
        last = str(node.get("def", "?")).split("::")[-1]
        if getattr(self, "const_values", None) and last in self.const_values:
            # associated constants of a generic parameter, instantiated by the client (e.g. M = bool: HIGH = true, LOW = false)
            return self.const_values[last]
        if self.opaque_consts:
            return Token(last)
        raise Undecidable("constant %s has no value" % node.get("def"))

    def fold(self, e):
        e0 = e
        k = e["k"]
        if k == "__val__":
            return e["v"]
        if k == "Lit":
            if "int" in e:
                return e["int"]
            if "bool" in e:
                return e["bool"]
            if "bytes" in e:
                return list(e["bytes"])
            if "str" in e:
                return e["str"]
            raise Undecidable("literal")
        if k == "NamedConst":
            return self.const_val(e)
        if k in ("Var", "Upvar"):
            n = e["name"]
            if n in self.env:
                return self.env[n]
            if n in self.lets:
                return self.fold(self.lets[n])
            raise Undecidable("free variable " + n)
        if k == "Borrow" and e.get("mut") and self.effects:
            # `&mut <place>` of a scalar slot is a reference the callee / the loop body can store through; aggregates are shared
            # by identity and stay transparent
            try:
                c, key = self._place(e["arg"])
            except Undecidable:
                return self.fold(e["arg"])
            cur = c[key] if not isinstance(c, list) or (isinstance(key, int) and 0 <= key < len(c)) else None
            if isinstance(cur, Ref):
                return cur
            if isinstance(cur, (int, bool)) or (isinstance(cur, Token) and isinstance(c, list)):
                return Ref(c, key)
            return self.fold(e["arg"])
        if k == "Deref":
            return _loaded(self.fold(e["arg"]))
        if k in ("Borrow", "Coerce"):
            return self.fold(e["arg"])
        if k == "Cast":
            v = _loaded(self.fold(e["arg"]))
            if isinstance(v, bool):
                v = int(v)
            if not isinstance(v, int):
                raise Undecidable("cast of non-int")
            return wrap(v, e["ty"])
        if k == "Unary":
            v = _loaded(self.fold(e["arg"]))
            if e["op"] == "Not":
                if isinstance(v, Sym):
                    return s_not(v)
                if isinstance(v, bool):
                    return not v
                if not isinstance(v, int):
                    raise Undecidable("`!` of an opaque value")
                r = ty_range(e["ty"])
                return wrap(~v, e["ty"]) if r else ~v
            if e["op"] == "Neg":
                return self._chk(-v, e)
            raise Undecidable("unary " + e["op"])
        if k == "Logical":
            a = self.fold(e["lhs"])
            if isinstance(a, Sym):
                # the right operand is evaluated although the left one may decide at run time: it is a pure test here, and a trap
                # in it is reported (conservatively) as if it were reached
                b = self.fold(e["rhs"])
                return s_and(a, b) if e["op"] == "And" else s_or(a, b)
            if e["op"] == "And":
                return a and self.fold(e["rhs"])
            return a or self.fold(e["rhs"])
        if k == "Binary":
            a = self.fold(e["lhs"])
            b = self.fold(e["rhs"])
            return self._bin(e["op"], a, b, e)
        if k == "Index":
            base = _loaded(self.fold(e["lhs"]))
            idx = self.fold(e["index"])
            if isinstance(base, list) and isinstance(idx, dict) and str(idx.get("__adt__", "")).startswith("core::ops::Range"):
                return self._subslice(base, idx, e)
            if not isinstance(base, list) or not isinstance(idx, int) or isinstance(idx, bool):
                raise Undecidable("index")
            if not (0 <= idx < len(base)):
                raise Trap("index %d out of bounds (len %d) at %s" % (idx, len(base), span_str(e["span"])))
            return _loaded(base[idx])
        if k == "If" and e["cond"].get("k") == "Let":
            v = self.fold(e["cond"]["expr"])
            ok, binds = self._pat_match(e["cond"]["pat"], v)
            if ok:
                shadow = {n: self.env[n] for n in binds if n in self.env}
                self.env.update(binds)
                try:
                    return self.fold(e["then"])
                finally:
                    for n in binds:
                        self.env.pop(n, None)
                    self.env.update(shadow)
            if "else" in e:
                return self.fold(e["else"])
            return None
        if k == "If":
            c = self.fold(e["cond"])
            if isinstance(c, Token) and getattr(self, "sym_cmp", False):
                c = Sym(("atom", c, True))      # an opaque boolean (result of an unmodelled call) as a symbolic condition
            if isinstance(c, Sym):
                return self._sym_branch(e, c)
            if not isinstance(c, (bool, int)) or isinstance(c, Token):
                raise Undecidable("branch on an opaque value")
            if c:
                return self.fold(e["then"])
            if "else" in e:
                return self.fold(e["else"])
            return None
        if k == "Block":
            introduced = []
            shadow = {}
            try:
                for st in e.get("stmts", []):
                    if st["k"] == "Let":
                        if "init" not in st:
                            raise Undecidable("let without initialiser")
                        v = self.fold(st["init"])
                        ok, binds = self._pat_match(st["pat"], v)
                        if not ok:
                            if "else" in st:
                                for x in st["else"]:
                                    self.fold(x)
                            raise Undecidable("refutable let")
                        for n, bv in binds.items():
                            if n in self.env and n not in shadow:
                                shadow[n] = self.env[n]
                            introduced.append(n)
                            self.env[n] = bv
                    else:
                        if not self.effects:
                            raise Undecidable("statement in block")
                        self.fold(st["expr"])
                if "expr" in e:
                    return self.fold(e["expr"])
                return None
            finally:
                for n in introduced:
                    self.env.pop(n, None)
                self.env.update(shadow)
        if k in ("Assign", "AssignOp") and self.effects:
            c, key = self._place(e["lhs"])
            slot = Ref(c, key)
            if k == "Assign":
                slot.store(self.fold(e["rhs"]))
            else:
                op = e["op"].replace("Assign", "")
                slot.store(self._bin(op, slot.load(), self.fold(e["rhs"]), {"ty": strip(e["lhs"]).get("ty", e.get("ty")), "span": e["span"]}))
            return None
        if k == "Return" and self.effects:
            raise ReturnEx(self.fold(e["value"]) if "value" in e else None)
        if k == "Match" and e.get("source") == "ForLoopDesugar":
            # a scan of a constant table / constant range: unrolled (bounded), nothing else is a loop we fold
            fl = for_loop_parts(e)
            if not fl or not self.effects:
                raise Undecidable("loop")
            src = _loaded(self.fold(fl[0]))
            items = self._iterable(src)
            if isinstance(src, list) and strip_borrow_mut(fl[0]) is not None:
                # `for x in &mut v`: the loop variable is a reference into v
                items = [x if isinstance(x, (Ref, dict, list)) else Ref(src, i) for i, x in enumerate(src)]
            if items is None or len(items) > self.max_iter:
                raise Undecidable("loop over a non-constant or too long sequence")
            for item in items:
                ok, binds = self._pat_match(fl[1], item)
                if not ok:
                    raise Undecidable("refutable loop pattern")
                shadow = {n: self.env[n] for n in binds if n in self.env}
                self.env.update(binds)
                try:
                    self.fold(fl[2])
                except ContinueEx:
                    pass
                except BreakEx:
                    break
                finally:
                    for n in binds:
                        self.env.pop(n, None)
                    self.env.update(shadow)
            return None
        if k == "Match":
            if str(e.get("source", "")).startswith("TryDesugar"):
                inner = e["scrut"]["args"][0]
                v = self.fold(inner)
                if isinstance(v, dict) and v.get("__variant__") in ("Err", "None"):
                    if not self.effects:
                        raise Undecidable("`?` outside effect mode")
                    raise ReturnEx(v)
                if isinstance(v, dict) and v.get("__variant__") in ("Ok", "Some"):
                    return v.get("#0")
                raise Undecidable("`?` on unknown value")
            v = self.fold(e["scrut"])
            for arm in e["arms"]:
                ok, binds = self._pat_match(arm["pat"], v)
                if not ok:
                    continue
                shadow = {n: self.env[n] for n in binds if n in self.env}
                self.env.update(binds)
                try:
                    if "guard" in arm and not self.fold(arm["guard"]):
                        continue
                    return self.fold(arm["body"])
                finally:
                    for n in binds:
                        self.env.pop(n, None)
                    self.env.update(shadow)
            raise Undecidable("no arm matched")
        if k == "Adt":
            d = {"__adt__": e["adt"], "__variant__": e["variant"]}
            for f in e["fields"]:
                v = self.fold(f["expr"])
                d[f["field"] or str(f["idx"])] = v
                d["#%d" % f["idx"]] = v
            return d
        if k == "Field":
            b = self.fold(e["lhs"])
            if isinstance(b, dict) and e["field"] in b:
                return b[e["field"]]
            if isinstance(b, (tuple, list)) and e["idx"] < len(b):
                return b[e["idx"]]
            raise Undecidable("field")
        if k == "Tuple":
            return tuple(self.fold(x) for x in e["fields"])
        if k == "Loop":
            # a general loop is executed only in effect mode and only up to a bound: inputs are members of a finite domain,
            # a loop that does not finish within the bound is undecidable, never guessed
            if not self.effects:
                raise Undecidable("loop")
            for _ in range(self.max_iter):
                try:
                    self.fold(e["body"])
                except ContinueEx:
                    continue
                except BreakEx as bx:
                    return bx.value
            raise Undecidable("loop does not finish within %d iterations" % self.max_iter)
        if k == "Zst":
            # a function item used as a value (`.map(SymbolSize::num_data_codewords)`, `.all(u8::is_ascii_digit)`)
            return {"__fn__": canon(e.get("resolved") or e.get("fn") or "?")}
        if k == "Closure":
            # the closure remembers the environment it was created in: applied inside another function (a callee that received it),
            # its captured variables must not be confused with that function's locals of the same name
            return {"__closure__": e["def"], "__env__": self.env}
        if k == "Break" and self.effects:
            raise BreakEx(self.fold(e["value"]) if "value" in e else None)
        if k == "Continue" and self.effects:
            raise ContinueEx()
        if k == "Array":
            return [self.fold(x) for x in e["fields"]]
        if k == "Repeat" and isinstance(e.get("n"), int) and 0 <= e["n"] <= 200000:
            v = self.fold(e["value"])
            return [dict(v) for _ in range(e["n"])] if isinstance(v, dict) else [list(v) for _ in range(e["n"])] if isinstance(v, list) else [v] * e["n"]
        if k == "Call":
            if self.on_call:
                r = self.on_call(self, e)
                if r is not NotImplemented:
                    return r
            if not callee_of(e) and isinstance(e.get("fun"), dict):
                # a call through a function pointer / closure held in a local
                fv = _loaded(self.fold(e["fun"]))
                if isinstance(fv, dict) and ("__closure__" in fv or "__fn__" in fv):
                    return self.apply_closure(fv, [self.fold(x) for x in e["args"]])
                raise Undecidable("call through an opaque function value")
            r = self._builtin(e)
            if r is not NotImplemented:
                return r
            r = self._local_call(e)
            if r is not NotImplemented:
                return r
            callee = callee_of(e)
            if callee.startswith("core::panicking") or "panic" in callee.split("::")[-1]:
                raise Trap("explicit panic at " + span_str(e["span"]))
            raise Undecidable("call to " + callee)
        raise Undecidable("expression kind " + k)

    def _place(self, e):
        """(container, key) of an assignable expression: a local, `*reference`, a field of an ADT value, an element of a list"""
        k = e.get("k")
        if k in ("Var", "Upvar"):
            if e["name"] not in self.env:
                raise Undecidable("assignment to non-local")
            return (self.env, e["name"])
        if k in ("Coerce", "Borrow"):
            return self._place(e["arg"])
        if k == "Block" and not e.get("stmts") and "expr" in e:
            return self._place(e["expr"])
        if k == "Deref":
            inner = e["arg"]
            while inner.get("k") in ("Coerce", "Borrow") or (inner.get("k") == "Block" and not inner.get("stmts") and "expr" in inner):
                inner = inner["arg"] if "arg" in inner else inner["expr"]
            if inner.get("k") == "Call" and canon(callee_of(inner)).endswith(("::index_mut", "::index")):
                return self._place(inner)
            v = self.fold(e["arg"])
            if isinstance(v, Ref):
                return v.c, v.k
            if isinstance(v, dict) and "__variant__" in v and strip(e["arg"]).get("ty", "").startswith("&mut"):
                return _InPlace(v), 0
            # a reference parameter bound directly to its value (legacy binding): the variable itself is the slot
            return self._place(e["arg"])
        if k == "Field":
            c, key = self._place(e["lhs"])
            obj = _loaded(c[key])
            if not isinstance(obj, dict):
                raise Undecidable("field of a non-ADT value")
            name = e["field"]
            if name not in obj and ("#%d" % e["idx"]) in obj:
                name = "#%d" % e["idx"]
            return _FieldSlot(obj, e["field"], e["idx"]), 0
        if k == "Index":
            c, key = self._place(e["lhs"])
            obj = _loaded(c[key])
            idx = self.fold(e["index"])
            if not isinstance(obj, list) or not isinstance(idx, int):
                raise Undecidable("indexed store into a non-list")
            if not (0 <= idx < len(obj)):
                raise Trap("index %d out of bounds (len %d) at %s" % (idx, len(obj), span_str(e["span"])))
            return obj, idx
        if k == "Call":
            # index_mut / deref_mut on a list: the element slot
            cc = canon(callee_of(e))
            if cc.endswith("::index_mut") and len(e["args"]) == 2:
                obj = _loaded(self.fold(e["args"][0]))
                idx = self.fold(e["args"][1])
                if isinstance(obj, list) and isinstance(idx, int) and 0 <= idx < len(obj):
                    return obj, idx
                if isinstance(obj, list) and isinstance(idx, int):
                    raise Trap("index %d out of bounds (len %d) at %s" % (idx, len(obj), span_str(e["span"])))
        raise Undecidable("assignment target " + str(k))

    def _subslice(self, base, rng, e):
        lo = rng.get("start", 0) if "start" in rng else 0
        hi = rng.get("end", len(base)) if "end" in rng else len(base)
        if str(rng.get("__adt__", "")).endswith("RangeInclusive") or str(rng.get("__adt__", "")).endswith("RangeToInclusive"):
            hi = hi + 1
        if not (isinstance(lo, int) and isinstance(hi, int)):
            raise Undecidable("slice bounds")
        if not (0 <= lo <= hi <= len(base)):
            raise Trap("slice %d..%d out of range (len %d) at %s" % (lo, hi, len(base), span_str(e["span"])))
        # a view: the elements themselves for aggregates, references for scalar slots (stores write through)
        return [base[i] if isinstance(base[i], (Ref, dict, list)) else Ref(base, i) for i in range(lo, hi)] if self.effects and self.views else list(base[lo:hi])

    def _local_call(self, e):
        if self.local_calls <= 0:
            return NotImplemented
        cc = canon(callee_of(e))
        body = None
        for n, b in self.facts.thir.items():
            if canon(n) == cc:
                body = b
                break
        if body is not None and "{closure#" in cc and body["params"] and not body["params"][0].get("pat"):
            # a closure bound to a local and called by name: `let f = |x| ..; f(v)` - applied in the current environment
            # (its captured variables are the caller's); the callee expression itself is the first argument
            cargs = e["args"][1:] if len(e["args"]) == len(body["params"]) else e["args"]
            if len(e["args"]) == 2 and strip(e["args"][1]).get("k") == "Tuple":
                cargs = strip(e["args"][1])["fields"]       # Fn::call(&f, (a, b, ..))
            if len(cargs) == len(body["params"]) - 1:
                return self.apply_closure({"__closure__": next(n for n in self.facts.thir if canon(n) == cc)}, [self.fold(a) for a in cargs])
        if body is None or len(body["params"]) != len(e["args"]):
            return NotImplemented
        args = [self.fold(a) for a in e["args"]]
        env = {}
        sub = Folder(self.facts, env=env, on_call=self.on_call, effects=True, local_calls=self.local_calls - 1)
        if self.sym_eq is not None:
            sub.sym_eq, sub.path, sub.opaque_consts, sub.views, sub.max_iter = self.sym_eq, self.path, self.opaque_consts, self.views, self.max_iter
            sub.const_values = getattr(self, "const_values", None)
        sub.set_key = self.set_key
        for p, v in zip(body["params"], args):
            if not p.get("pat"):
                raise Undecidable("parameter without pattern")
            ok, b = sub._pat_match(p["pat"], v)
            if not ok:
                raise Undecidable("parameter pattern")
            env.update(b)
        sub.env = env
        res = sub.run(body["body"])
        # `&mut local` out-parameters: what the callee stored through the reference is the caller's variable afterwards
        for p, a in zip(body["params"], e["args"]):
            if a.get("k") == "Borrow" and a.get("mut") and p["pat"].get("k") == "Bind" and "sub" not in p["pat"]:
                tgt = strip(a["arg"]) if "arg" in a else None
                if tgt and tgt.get("k") in ("Var", "Upvar") and tgt["name"] in self.env and p["pat"]["name"] in sub.env \
                        and not isinstance(sub.env[p["pat"]["name"]], Ref):
                    self.env[tgt["name"]] = sub.env[p["pat"]["name"]]
        return res

    def _iterable(self, v):
        if isinstance(v, list):
            return v
        if isinstance(v, dict) and v.get("__adt__") == "core::ops::Range" and isinstance(v.get("start"), int) and isinstance(v.get("end"), int):
            return list(range(v["start"], v["end"])) if v["end"] - v["start"] <= 4096 else None
        if isinstance(v, dict) and v.get("__adt__") == "core::ops::RangeInclusive" and isinstance(v.get("start"), int) and isinstance(v.get("end"), int):
            return list(range(v["start"], v["end"] + 1)) if v["end"] - v["start"] <= 4096 else None
        return None

    def _apply_fn_item(self, path, args):
        last = path.split("::")[-1]
        vals = [_loaded(a) for a in args]
        if last == "is_ascii_digit" and len(vals) == 1 and isinstance(vals[0], int):
            return 48 <= vals[0] <= 57
        if last == "is_ascii" and len(vals) == 1 and isinstance(vals[0], int):
            return vals[0] < 128
        if last in ("Some", "Ok", "Err") and len(vals) == 1:
            adt = "core::option::Option" if last == "Some" else "core::result::Result"
            return {"__adt__": adt, "__variant__": last, "#0": vals[0], "0": vals[0]}
        if last in ("from", "into") and len(vals) == 1 and isinstance(vals[0], int):
            return vals[0]
        if last in ("unwrap", "expect") and vals and isinstance(vals[0], dict) and vals[0].get("__variant__") in ("Some", "None", "Ok", "Err") and path.startswith(("core::option::", "core::result::")):
            if vals[0]["__variant__"] in ("Some", "Ok"):
                return vals[0].get("#0")
            raise Trap("unwrap on %s" % vals[0]["__variant__"])
        adt = self.facts.adts.get(canon(path)) if hasattr(self.facts, "adts") else None
        if adt and len(adt.get("variants", [])) == 1 and len(adt["variants"][0].get("fieldtys", [])) == len(vals):
            # a tuple-struct constructor used as a function (`.map(Self)`)
            d = {"__adt__": canon(path), "__variant__": last}
            for i, (fd, v) in enumerate(zip(adt["variants"][0]["fieldtys"], vals)):
                d["#%d" % i] = v
                d[str(fd.get("name", i))] = v
            return d
        if self.on_call:
            fake = {"k": "Call", "callee": path, "resolved": path, "ty": "?", "span": {"file": "?", "line": 0, "col": 0},
                    "args": [{"k": "__val__", "v": v} for v in vals]}
            r = self.on_call(self, fake)
            if r is not NotImplemented:
                return r
        body = None
        for n, b in self.facts.thir.items():
            if canon(n) == path:
                body = b
                break
        if body is None or len(body["params"]) != len(vals) or self.local_calls <= 0:
            raise Undecidable("function item " + path)
        sub = Folder(self.facts, env={}, on_call=self.on_call, effects=True, local_calls=self.local_calls - 1)
        for p, v in zip(body["params"], vals):
            ok, bnd = sub._pat_match(p["pat"], v)
            if not ok:
                raise Undecidable("parameter pattern")
            sub.env.update(bnd)
        return sub.run(body["body"])

    def apply_closure(self, cl, args):
        """apply a closure value to argument values: its body is folded with the parameters bound (captured variables
        are read from the enclosing environment, which is still live for the adaptors modelled here)"""
        if isinstance(cl, dict) and "__fn__" in cl:
            return self._apply_fn_item(cl["__fn__"], args)
        if not (isinstance(cl, dict) and "__closure__" in cl):
            raise Undecidable("not a closure")
        cb = self.facts.thir.get(cl["__closure__"])
        if cb is None:
            raise Undecidable("closure body missing")
        params = cb["params"][1:]
        if len(params) != len(args):
            raise Undecidable("closure arity")
        cenv = cl.get("__env__")
        if cenv is not None and cenv is not self.env:
            home = Folder(self.facts, env=None, on_call=self.on_call, effects=self.effects, local_calls=self.local_calls)
            home.env = cenv
            home.lets = self.lets
            home.opaque_consts, home.views, home.max_iter, home.sym_eq, home.path = self.opaque_consts, self.views, self.max_iter, self.sym_eq, self.path
            home.const_values = getattr(self, "const_values", None)
            home.set_key = self.set_key
            return home.apply_closure(cl, args)
        binds = {}
        for p, v in zip(params, args):
            ok, b = self._pat_match(p["pat"], v)
            if not ok:
                raise Undecidable("closure parameter pattern")
            binds.update(b)
        shadow = {n: self.env[n] for n in binds if n in self.env}
        self.env.update(binds)
        try:
            return self.fold(cb["body"])
        except ReturnEx as r:
            return r.value
        finally:
            for n in binds:
                self.env.pop(n, None)
            self.env.update(shadow)

    def _builtin(self, e):
        """models of a few pure core functions"""
        cc = canon(callee_of(e))
        last = cc.split("::")[-1]
        a = e["args"]
        r = self._seq_builtin(cc, last, a, e)
        if r is not NotImplemented:
            return r

        def ordering(c):
            return {"__adt__": "core::cmp::Ordering", "__variant__": "Less" if c < 0 else "Greater" if c > 0 else "Equal"}

        def plain(v):
            return isinstance(v, (int, bool)) or (isinstance(v, tuple) and all(plain(x) for x in v))
        if last in ("cmp", "partial_cmp") and len(a) == 2 and ("core::cmp::" in cc or cc.startswith("core::")):
            x, y = self.fold(a[0]), self.fold(a[1])
            if plain(x) and plain(y) and type(x) == type(y):
                o = ordering((x > y) - (x < y))
                return o if last == "cmp" else {"__adt__": "core::option::Option", "__variant__": "Some", "#0": o, "0": o}
        if last in ("eq", "ne") and ("cmp::PartialEq" in cc or cc.startswith(("core::array::equality::", "core::slice::cmp::", "core::tuple::", "core::option::", "core::result::"))) and len(a) == 2:
            def valuelike(v):
                if isinstance(v, Token):
                    return False
                if isinstance(v, (int, bool, str)):
                    return True
                if isinstance(v, (tuple, list)):
                    return all(valuelike(x) for x in v)
                if isinstance(v, dict) and "__variant__" in v:
                    return all(valuelike(x) for k, x in v.items() if k.startswith("#"))
                return False

            def norm(v):
                if isinstance(v, dict):
                    return (v.get("__variant__"),) + tuple(norm(x) for k, x in sorted(v.items()) if k.startswith("#"))
                if isinstance(v, (tuple, list)):
                    return tuple(norm(x) for x in v)
                return int(v) if isinstance(v, bool) else v
            x, y = self.fold(a[0]), self.fold(a[1])
            if valuelike(x) and valuelike(y):
                return (norm(x) == norm(y)) == (last == "eq")
            if self.sym_eq is not None:
                r = self._opaque_eq(x, y)
                return r if last == "eq" else s_not(r)
        if cc.startswith(("core::option::Option", "core::result::Result")) and last in ("map", "map_or", "map_or_else", "and_then", "unwrap_or_else", "copied", "cloned", "or", "is_some_and", "ok", "unwrap_or_default"):
            v = self.fold(a[0])
            if isinstance(v, dict) and v.get("__variant__") in ("Some", "None", "Ok", "Err"):
                good = v["__variant__"] in ("Some", "Ok")
                if last in ("copied", "cloned") and len(a) == 1:
                    return v
                if last == "ok" and len(a) == 1:
                    return {"__adt__": "core::option::Option", "__variant__": "Some", "#0": v.get("#0"), "0": v.get("#0")} if good else {"__adt__": "core::option::Option", "__variant__": "None"}
                if last == "map" and len(a) == 2:
                    if not good:
                        return v
                    r2 = self.apply_closure(self.fold(a[1]), [v.get("#0")]) if isinstance(self.fold(a[1]), dict) and ("__closure__" in self.fold(a[1]) or "__fn__" in self.fold(a[1])) else None
                    if r2 is None and not (isinstance(self.fold(a[1]), dict) and ("__closure__" in self.fold(a[1]) or "__fn__" in self.fold(a[1]))):
                        return NotImplemented
                    return dict(v, **{"#0": r2, "0": r2})
                if last == "map_or" and len(a) == 3:
                    if not good:
                        return self.fold(a[1])
                    cl = self.fold(a[2])
                    if isinstance(cl, dict) and ("__closure__" in cl or "__fn__" in cl):
                        return self.apply_closure(cl, [v.get("#0")])
                    return NotImplemented
                if last == "is_some_and" and len(a) == 2:
                    if not good:
                        return False
                    cl = self.fold(a[1])
                    if isinstance(cl, dict) and ("__closure__" in cl or "__fn__" in cl):
                        return bool(self.apply_closure(cl, [v.get("#0")]))
                    return NotImplemented
                if last == "and_then" and len(a) == 2:
                    if not good:
                        return v
                    cl = self.fold(a[1])
                    if isinstance(cl, dict) and "__closure__" in cl:
                        return self.apply_closure(cl, [v.get("#0")])
                    return NotImplemented
                if last == "unwrap_or_else" and len(a) == 2:
                    if good:
                        return v.get("#0")
                    cl = self.fold(a[1])
                    if isinstance(cl, dict) and "__closure__" in cl:
                        return self.apply_closure(cl, [] if v["__variant__"] == "None" else [v.get("#0")])
                    return NotImplemented
                if last == "or" and len(a) == 2:
                    return v if good else self.fold(a[1])
        if last in ("is_some", "is_none", "is_ok", "is_err") and cc.startswith(("core::option::Option", "core::result::Result")) and len(a) == 1:
            v = self.fold(a[0])
            if isinstance(v, dict) and "__variant__" in v:
                return v["__variant__"] == {"is_some": "Some", "is_none": "None", "is_ok": "Ok", "is_err": "Err"}[last]
        if last in ("then_with", "then") and cc.startswith("core::cmp::Ordering") and len(a) == 2:
            o = self.fold(a[0])
            if isinstance(o, dict) and o.get("__adt__") == "core::cmp::Ordering":
                if o["__variant__"] != "Equal":
                    return o
                nxt = self.fold(a[1])
                return self.apply_closure(nxt, []) if last == "then_with" else nxt
        if last == "reverse" and cc.startswith("core::cmp::Ordering") and len(a) == 1:
            o = self.fold(a[0])
            if isinstance(o, dict) and o.get("__adt__") == "core::cmp::Ordering":
                return dict(o, __variant__={"Less": "Greater", "Greater": "Less", "Equal": "Equal"}[o["__variant__"]])
        if last in ("max", "min") and len(a) == 2 and cc.startswith("core::cmp::"):
            x, y = self.fold(a[0]), self.fold(a[1])
            if plain(x) and plain(y):
                return (max if last == "max" else min)(x, y)

        def opt(v):
            if v is None:
                return {"__adt__": "core::option::Option", "__variant__": "None"}
            return {"__adt__": "core::option::Option", "__variant__": "Some", "#0": v, "0": v}
        if cc.startswith("core::num::") and last in ("checked_sub", "checked_add", "checked_mul") and len(a) == 2:
            x, y = self.fold(a[0]), self.fold(a[1])
            v = {"checked_sub": x - y, "checked_add": x + y, "checked_mul": x * y}[last]
            rng = ty_range(a[0]["ty"])
            return opt(v if rng and rng[0] <= v <= rng[1] else None)
        if cc.startswith("core::num::") and last in ("wrapping_sub", "wrapping_add", "wrapping_mul") and len(a) == 2:
            x, y = self.fold(a[0]), self.fold(a[1])
            return wrap({"wrapping_sub": x - y, "wrapping_add": x + y, "wrapping_mul": x * y}[last], a[0]["ty"])
        if cc.startswith("core::num::") and last == "pow" and len(a) == 2:
            v = self.fold(a[0]) ** self.fold(a[1])
            return self._chk(v, e)
        if cc == "core::option::Option::ok_or" and len(a) == 2:
            o = self.fold(a[0])
            if isinstance(o, dict) and o.get("__variant__") == "Some":
                return {"__adt__": "core::result::Result", "__variant__": "Ok", "#0": o["#0"], "0": o["#0"]}
            if isinstance(o, dict) and o.get("__variant__") == "None":
                err = self.fold(a[1])
                return {"__adt__": "core::result::Result", "__variant__": "Err", "#0": err, "0": err}
        if cc == "core::option::Option::unwrap_or" and len(a) == 2:
            o = self.fold(a[0])
            if isinstance(o, dict) and o.get("__variant__") == "Some":
                return o["#0"]
            if isinstance(o, dict) and o.get("__variant__") == "None":
                return self.fold(a[1])
        if last in ("is_ascii_digit",) and len(a) == 1:
            v = self.fold(a[0])
            return 48 <= v <= 57
        r = self._more_builtins(cc, last, a, e, opt)
        if r is not NotImplemented:
            return r
        if last in ("into", "from") and len(a) == 1 and ("core::convert" in cc or "core::char::convert" in cc or cc.startswith("core::num")) \
                and (e["ty"] in INT_TYPES or e["ty"] == "char"):
            # lossless numeric widening / u8 -> char (a char is its code point here)
            v = self.fold(a[0])
            if isinstance(v, bool):
                return int(v)
            if isinstance(v, int):
                return self._chk(v, e) if e["ty"] in INT_TYPES else v
        if last in ("from_be_bytes", "from_le_bytes") and cc.startswith("core::num") and len(a) == 1:
            v = self.fold(a[0])
            if isinstance(v, (list, tuple)) and all(isinstance(x, int) and 0 <= x <= 255 for x in v):
                bs = list(v) if last == "from_be_bytes" else list(reversed(v))
                out = 0
                for x in bs:
                    out = out * 256 + x
                return out
        if last in ("then", "then_some") and cc.startswith("core::bool") and len(a) == 2:
            c0 = self.fold(a[0])
            if isinstance(c0, bool):
                if not c0:
                    return {"__adt__": "core::option::Option", "__variant__": "None"}
                v = self.apply_closure(self.fold(a[1]), []) if last == "then" else self.fold(a[1])
                return {"__adt__": "core::option::Option", "__variant__": "Some", "#0": v, "0": v}
        if last in ("call", "call_mut", "call_once") and cc.startswith("core::ops::") and len(a) == 2:
            cl = _loaded(self.fold(a[0]))
            if isinstance(cl, dict) and ("__closure__" in cl or "__fn__" in cl):
                args = self.fold(a[1])
                return self.apply_closure(cl, list(args) if isinstance(args, (tuple, list)) else [args])
        return NotImplemented

    def _more_builtins(self, cc, last, a, e, opt):
        """further std models (integer helpers, ASCII predicates, Option/Result plumbing, Vec / slice operations, iterator
        adaptors) - plain transcriptions of the documented behaviour on the folder's value model"""
        def ints(*xs):
            return all(isinstance(x, int) and not isinstance(x, bool) for x in xs)
        if cc.startswith("core::num::") and a:
            x = _loaded(self.fold(a[0]))
            rng = ty_range(a[0].get("ty", ""))
            if len(a) == 2:
                y = _loaded(self.fold(a[1]))
                if ints(x, y):
                    if last == "div_ceil" and y != 0 and x >= 0 and y > 0:
                        return -(-x // y)
                    if last in ("saturating_add", "saturating_sub", "saturating_mul") and rng:
                        v = {"saturating_add": x + y, "saturating_sub": x - y, "saturating_mul": x * y}[last]
                        return max(rng[0], min(rng[1], v))
                    if last in ("checked_div", "checked_rem"):
                        if y == 0:
                            return opt(None)
                        q = int(x / y) if (x < 0) != (y < 0) else x // y
                        return opt(q if last == "checked_div" else x - y * q)
                    if last == "abs_diff":
                        return abs(x - y)
                    if last == "rem_euclid" and y != 0:
                        return x % abs(y)
                    if last == "div_euclid" and y > 0:
                        return x // y
                    if last in ("overflowing_add", "overflowing_sub", "overflowing_mul") and rng:
                        v = {"overflowing_add": x + y, "overflowing_sub": x - y, "overflowing_mul": x * y}[last]
                        return (wrap(v, a[0]["ty"]), not (rng[0] <= v <= rng[1]))
            if len(a) == 1 and ints(x):
                bits = {"u8": 8, "u16": 16, "u32": 32, "u64": 64, "usize": 64, "i8": 8, "i16": 16, "i32": 32, "i64": 64, "isize": 64}.get(a[0].get("ty"))
                if last == "is_power_of_two":
                    return x > 0 and x & (x - 1) == 0
                if last == "count_ones" and x >= 0:
                    return bin(x).count("1")
                if last == "leading_zeros" and bits and x >= 0:
                    return bits - x.bit_length()
                if last == "trailing_zeros" and bits and x >= 0:
                    return bits if x == 0 else (x & -x).bit_length() - 1
                if last in ("to_be_bytes", "to_le_bytes") and bits and x >= 0:
                    bs = [(x >> (8 * i)) & 255 for i in range(bits // 8)]
                    return bs[::-1] if last == "to_be_bytes" else bs
                if last == "abs":
                    return self._chk(abs(x), e)
                if last == "signum":
                    return (x > 0) - (x < 0)
            if len(a) == 3 and last == "clamp":
                lo, hi = _loaded(self.fold(a[1])), _loaded(self.fold(a[2]))
                if ints(x, lo, hi):
                    if lo > hi:
                        raise Trap("clamp with min > max at " + span_str(e["span"]))
                    return max(lo, min(hi, x))
        if last == "clamp" and len(a) == 3 and cc.startswith("core::cmp::"):
            x, lo, hi = (_loaded(self.fold(z)) for z in a)
            if ints(x, lo, hi):
                if lo > hi:
                    raise Trap("clamp with min > max at " + span_str(e["span"]))
                return max(lo, min(hi, x))
        if last.startswith(("is_ascii_", "to_ascii_")) and len(a) == 1 and ("core::num" in cc or "core::char" in cc):
            v = _loaded(self.fold(a[0]))
            if ints(v) and 0 <= v <= 0x10FFFF:
                ch = chr(v) if v < 128 else None
                table = {"is_ascii_uppercase": lambda: ch is not None and "A" <= ch <= "Z", "is_ascii_lowercase": lambda: ch is not None and "a" <= ch <= "z",
                         "is_ascii_alphabetic": lambda: ch is not None and ch.isalpha(), "is_ascii_alphanumeric": lambda: ch is not None and ch.isalnum(),
                         "is_ascii_punctuation": lambda: ch is not None and (33 <= v <= 47 or 58 <= v <= 64 or 91 <= v <= 96 or 123 <= v <= 126),
                         "is_ascii_graphic": lambda: 33 <= v <= 126, "is_ascii_control": lambda: v < 32 or v == 127,
                         "is_ascii_whitespace": lambda: v in (9, 10, 12, 13, 32), "is_ascii_hexdigit": lambda: ch is not None and ch in "0123456789abcdefABCDEF",
                         "to_ascii_uppercase": lambda: v - 32 if 97 <= v <= 122 else v, "to_ascii_lowercase": lambda: v + 32 if 65 <= v <= 90 else v}
                if last in table:
                    return table[last]()
        # Option / Result plumbing
        if cc.startswith(("core::option::Option", "core::result::Result")) and a:
            o = _loaded(self.fold(a[0]))
            if isinstance(o, dict) and o.get("__variant__") in ("Some", "None", "Ok", "Err"):
                good = o["__variant__"] in ("Some", "Ok")
                val = o.get("#0")
                if last == "ok_or_else" and len(a) == 2:
                    if good:
                        return {"__adt__": "core::result::Result", "__variant__": "Ok", "#0": val, "0": val}
                    err = self.apply_closure(self.fold(a[1]), [])
                    return {"__adt__": "core::result::Result", "__variant__": "Err", "#0": err, "0": err}
                if last == "map_err" and len(a) == 2:
                    if good:
                        return o
                    err = self.apply_closure(self.fold(a[1]), [val])
                    return {"__adt__": "core::result::Result", "__variant__": "Err", "#0": err, "0": err}
                if last == "err" and len(a) == 1:
                    return opt(None) if good else opt(val)
                if last == "filter" and len(a) == 2 and o["__variant__"] in ("Some", "None"):
                    if not good:
                        return o
                    return o if self.apply_closure(self.fold(a[1]), [val]) else opt(None)
                if last == "zip" and len(a) == 2 and o["__variant__"] in ("Some", "None"):
                    o2 = _loaded(self.fold(a[1]))
                    if isinstance(o2, dict) and o2.get("__variant__") in ("Some", "None"):
                        return opt((val, o2.get("#0"))) if good and o2["__variant__"] == "Some" else opt(None)
                if last == "xor" and len(a) == 2:
                    o2 = _loaded(self.fold(a[1]))
                    if isinstance(o2, dict) and o2.get("__variant__") in ("Some", "None"):
                        g2 = o2["__variant__"] == "Some"
                        return o if good and not g2 else o2 if g2 and not good else opt(None)
                if last == "and" and len(a) == 2:
                    return self.fold(a[1]) if good else o
                if last == "or_else" and len(a) == 2:
                    return o if good else self.apply_closure(self.fold(a[1]), [] if o["__variant__"] == "None" else [val])
                if last == "flatten" and len(a) == 1:
                    return val if good else o
                if last in ("as_ref", "as_mut", "as_deref") and len(a) == 1:
                    return o
        # Vec / slice operations
        if a and last in ("pop", "truncate", "clear", "remove", "swap_remove", "insert", "drain", "resize", "reserve", "reserve_exact", "shrink_to_fit", "dedup", "append", "split_off") \
                and ("alloc::vec::Vec" in cc or cc.startswith("arrayvec::")):
            v = _loaded(self.fold(a[0]))
            if isinstance(v, list) and not isinstance(v, BSet):
                if last in ("reserve", "reserve_exact", "shrink_to_fit"):
                    return ()
                if last == "pop" and len(a) == 1:
                    return opt(_loaded(v.pop())) if v else opt(None)
                if last == "clear" and len(a) == 1:
                    del v[:]
                    return ()
                if last == "dedup" and len(a) == 1 and all(isinstance(_loaded(x), int) for x in v):
                    out = []
                    for x in v:
                        if not out or _loaded(out[-1]) != _loaded(x):
                            out.append(x)
                    v[:] = out
                    return ()
                if len(a) >= 2:
                    i = _loaded(self.fold(a[1]))
                    if last == "truncate" and ints(i):
                        del v[i:]
                        return ()
                    if last in ("remove", "swap_remove") and ints(i):
                        if not (0 <= i < len(v)):
                            raise Trap("%s index %d out of bounds (len %d) at %s" % (last, i, len(v), span_str(e["span"])))
                        if last == "remove":
                            return _loaded(v.pop(i))
                        x = v[i]
                        v[i] = v[-1]
                        v.pop()
                        return _loaded(x)
                    if last == "insert" and len(a) == 3 and ints(i):
                        if not (0 <= i <= len(v)):
                            raise Trap("insert index %d out of bounds (len %d) at %s" % (i, len(v), span_str(e["span"])))
                        v.insert(i, _loaded(self.fold(a[2])))
                        return ()
                    if last == "split_off" and ints(i):
                        if not (0 <= i <= len(v)):
                            raise Trap("split_off index %d out of bounds at %s" % (i, span_str(e["span"])))
                        tail = list(v[i:])
                        del v[i:]
                        return tail
                    if last == "resize" and len(a) == 3 and ints(i):
                        x = _loaded(self.fold(a[2]))
                        if i <= len(v):
                            del v[i:]
                        else:
                            v.extend([x] * (i - len(v)))
                        return ()
                    if last == "append":
                        o2 = _loaded(self.fold(a[1]))
                        if isinstance(o2, list):
                            v.extend(o2)
                            del o2[:]
                            return ()
                    if last == "drain" and isinstance(i, dict) and str(i.get("__adt__", "")).startswith("core::ops::Range"):
                        lo = i.get("start", 0) if "start" in i else 0
                        hi = i.get("end", len(v)) if "end" in i else len(v)
                        if str(i["__adt__"]).endswith("Inclusive"):
                            hi += 1
                        if not (ints(lo, hi) and 0 <= lo <= hi <= len(v)):
                            raise Trap("drain range out of bounds at " + span_str(e["span"]))
                        out = [_loaded(x) for x in v[lo:hi]]
                        del v[lo:hi]
                        return out
        if a and last in ("windows", "split_at", "split_at_mut", "swap", "to_vec", "to_owned", "starts_with", "ends_with", "first_mut", "last_mut", "get_mut", "concat", "rposition", "rev") \
                and cc.startswith(("core::slice::", "alloc::slice::", "alloc::vec::", "core::array::")):
            v = _loaded(self.fold(a[0]))
            if isinstance(v, list):
                if last in ("to_vec", "to_owned") and len(a) == 1:
                    return [_loaded(x) for x in v]
                if last == "concat" and len(a) == 1 and all(isinstance(_loaded(x), list) for x in v):
                    return [y for x in v for y in _loaded(x)]
                if last in ("first_mut", "last_mut") and len(a) == 1:
                    if not v:
                        return opt(None)
                    i = 0 if last == "first_mut" else len(v) - 1
                    return opt(v[i] if isinstance(v[i], (Ref, dict, list)) else Ref(v, i))
                if len(a) >= 2:
                    n = _loaded(self.fold(a[1]))
                    if last == "windows" and ints(n):
                        if n == 0:
                            raise Trap("windows(0) at " + span_str(e["span"]))
                        return [[_loaded(x) for x in v[i:i + n]] for i in range(0, len(v) - n + 1)]
                    if last in ("split_at", "split_at_mut") and ints(n):
                        if not (0 <= n <= len(v)):
                            raise Trap("split_at(%d) out of bounds (len %d) at %s" % (n, len(v), span_str(e["span"])))
                        mut = last.endswith("_mut") and self.effects
                        view = [x if isinstance(x, (Ref, dict, list)) or not mut else Ref(v, i) for i, x in enumerate(v)]
                        return (view[:n], view[n:])
                    if last == "swap" and len(a) == 3:
                        j = _loaded(self.fold(a[2]))
                        if ints(n, j):
                            if not (0 <= n < len(v) and 0 <= j < len(v)):
                                raise Trap("swap index out of bounds at " + span_str(e["span"]))
                            xi, xj = _loaded(v[n]), _loaded(v[j])
                            for k0, val in ((n, xj), (j, xi)):
                                if isinstance(v[k0], Ref):
                                    v[k0].store(val)
                                else:
                                    v[k0] = val
                            return ()
                    if last in ("starts_with", "ends_with") and isinstance(n, list):
                        x0 = [_loaded(x) for x in v]
                        y0 = [_loaded(x) for x in n]
                        if all(isinstance(z, int) for z in x0 + y0):
                            return x0[:len(y0)] == y0 if last == "starts_with" else (len(y0) == 0 or x0[-len(y0):] == y0)
                    if last == "get_mut" and ints(n):
                        if not (0 <= n < len(v)):
                            return opt(None)
                        return opt(v[n] if isinstance(v[n], (Ref, dict, list)) else Ref(v, n))
        # iterator adaptors with a closure
        if len(a) == 2 and last in ("take_while", "skip_while", "filter_map", "flat_map", "for_each", "map_while", "min_by_key", "max_by_key", "inspect"):
            seq = self._iterable(_loaded(self.fold(a[0])))
            cl = self.fold(a[1])
            if seq is not None and isinstance(cl, dict) and ("__closure__" in cl or "__fn__" in cl):
                if last == "take_while":
                    out = []
                    for x in seq:
                        if not self.apply_closure(cl, [x]):
                            break
                        out.append(x)
                    return out
                if last == "skip_while":
                    k0 = 0
                    while k0 < len(seq) and self.apply_closure(cl, [seq[k0]]):
                        k0 += 1
                    return list(seq[k0:])
                if last in ("filter_map", "map_while"):
                    out = []
                    for x in seq:
                        r0 = self.apply_closure(cl, [x])
                        if isinstance(r0, dict) and r0.get("__variant__") == "Some":
                            out.append(r0.get("#0"))
                        elif last == "map_while":
                            break
                    return out
                if last == "flat_map":
                    out = []
                    for x in seq:
                        sub = self._iterable(_loaded(self.apply_closure(cl, [x])))
                        if sub is None:
                            return NotImplemented
                        out.extend(sub)
                    return out
                if last in ("for_each", "inspect"):
                    for x in seq:
                        self.apply_closure(cl, [x])
                    return () if last == "for_each" else list(seq)
                if last in ("min_by_key", "max_by_key"):
                    if not seq:
                        return opt(None)
                    keys = [_loaded(self.apply_closure(cl, [x])) for x in seq]

                    def plainkey(k0):
                        return isinstance(k0, (int, bool)) or (isinstance(k0, (tuple, list)) and all(plainkey(z) for z in k0))
                    if all(plainkey(k0) for k0 in keys):
                        keys = [tuple(k0) if isinstance(k0, list) else k0 for k0 in keys]
                        best = 0
                        for i in range(1, len(seq)):
                            # min_by_key returns the first minimum, max_by_key the last maximum
                            if (last == "min_by_key" and keys[i] < keys[best]) or (last == "max_by_key" and keys[i] >= keys[best]):
                                best = i
                        return opt(seq[best])
        if len(a) == 1 and last in ("flatten", "product", "unzip", "peekable", "fuse"):
            seq = self._iterable(_loaded(self.fold(a[0])))
            if seq is not None and "Iterator" in cc:
                if last == "flatten" and all(self._iterable(_loaded(x)) is not None for x in seq):
                    return [y for x in seq for y in self._iterable(_loaded(x))]
                if last == "product" and all(isinstance(_loaded(x), int) for x in seq):
                    v = 1
                    for x in seq:
                        v *= _loaded(x)
                    return self._chk(v, e)
                if last == "unzip" and all(isinstance(x, tuple) and len(x) == 2 for x in seq):
                    return ([x[0] for x in seq], [x[1] for x in seq])
                if last in ("peekable", "fuse"):
                    return list(seq)
        if cc in ("core::iter::once", "core::iter::sources::once::once") and len(a) == 1:
            return [self.fold(a[0])]
        if cc in ("core::iter::empty", "core::iter::sources::empty::empty") and not a:
            return []
        if cc == "core::mem::swap" and len(a) == 2:
            r1, r2 = self.fold(a[0]), self.fold(a[1])
            if isinstance(r1, Ref) and isinstance(r2, Ref):
                x, y = r1.load(), r2.load()
                r1.store(y)
                r2.store(x)
                return ()
            if isinstance(r1, list) and isinstance(r2, list):
                x = list(r1)
                r1[:] = list(r2)
                r2[:] = x
                return ()
        return NotImplemented

    def _bset(self, items):
        out, seen = [], set()
        for x in sorted((_loaded(y) for y in items), key=self.set_key):
            k0 = self.set_key(x)
            if k0 not in seen:
                seen.add(k0)
                out.append(x)
        return BSet(out)

    def _bset_builtin(self, cc, last, a, e):
        """alloc::collections::BTreeSet modelled as a sorted duplicate-free list (order = the client's key)"""
        if last == "new" and not a:
            return BSet()
        if last == "from_iter" and len(a) == 1:
            seq = self._iterable(_loaded(self.fold(a[0])))
            return self._bset(seq) if seq is not None else NotImplemented
        if not a:
            return NotImplemented
        s0 = _loaded(self.fold(a[0]))
        if not isinstance(s0, BSet):
            return NotImplemented
        if last == "insert" and len(a) == 2:
            x = _loaded(self.fold(a[1]))
            new = self._bset(list(s0) + [x])
            grew = len(new) > len(s0)
            s0[:] = new
            return grew
        if last == "extend" and len(a) == 2:
            seq = self._iterable(_loaded(self.fold(a[1])))
            if seq is None:
                return NotImplemented
            s0[:] = self._bset(list(s0) + list(seq))
            return ()
        if last == "retain" and len(a) == 2:
            cl = self.fold(a[1])
            keep = [x for x in list(s0) if self.apply_closure(cl, [x])]
            s0[:] = keep
            return ()
        if last == "contains" and len(a) == 2:
            x = _loaded(self.fold(a[1]))
            return self.set_key(x) in {self.set_key(y) for y in s0}
        if last == "clone" and len(a) == 1:
            return BSet(s0)
        if last in ("first", "last") and len(a) == 1:
            if not s0:
                return {"__adt__": "core::option::Option", "__variant__": "None"}
            v = s0[0] if last == "first" else s0[-1]
            return {"__adt__": "core::option::Option", "__variant__": "Some", "#0": v, "0": v}
        return NotImplemented

    def _seq_builtin(self, cc, last, a, e):
        """finite-sequence adaptors over constant tables (a list) and the Option/Result plumbing around them"""
        def opt(v, some=True):
            if not some:
                return {"__adt__": "core::option::Option", "__variant__": "None"}
            return {"__adt__": "core::option::Option", "__variant__": "Some", "#0": v, "0": v}
        if "BTreeSet" in cc and self.set_key is not None:
            r = self._bset_builtin(cc, last, a, e)
            if r is not NotImplemented:
                return r
        if cc == "alloc::vec::Vec::new" and not a:
            return []
        if not a:
            return NotImplemented
        if "alloc::vec::Vec" in cc and last in ("push", "extend_from_slice", "extend") and len(a) == 2:
            v = _loaded(self.fold(a[0]))
            if isinstance(v, list):
                x = _loaded(self.fold(a[1]))
                if last == "push":
                    v.append(x)
                elif self._iterable(x) is not None:
                    v.extend(_loaded(y) for y in self._iterable(x))
                else:
                    return NotImplemented
                return None
            return NotImplemented
        if last == "into_iter" and len(a) == 1 and strip_borrow_mut(a[0]) is not None and self.effects:
            # `for x in &mut v`: the items are references into v
            v = _loaded(self.fold(a[0]))
            if isinstance(v, list):
                return [x if isinstance(x, (Ref, dict, list)) else Ref(v, i) for i, x in enumerate(v)]
        if last in ("iter", "into_iter", "copied", "cloned", "as_slice", "as_ref", "deref", "by_ref", "deref_mut", "as_mut_slice") and len(a) == 1:
            v = self.fold(a[0])
            if isinstance(v, Ref) and isinstance(v.load(), list) and last in ("deref", "deref_mut", "as_slice", "as_mut_slice", "as_ref"):
                v = v.load()
            if isinstance(v, list) or (self._iterable(v) is not None and last in ("into_iter", "by_ref")):
                # an iterator over a sequence is its own (shallow) list, so that `next()` can consume it without touching the source
                return list(v) if isinstance(v, list) and last in ("iter", "into_iter") and self.effects else v
            return NotImplemented
        if last == "next" and len(a) == 1 and "Iterator" in cc:
            v = self.fold(a[0])
            if isinstance(v, list):
                if not v:
                    return opt(None, False)
                return opt(_loaded(v.pop(0)) if False else v.pop(0))
            return NotImplemented
        if last in ("index", "index_mut") and ("ops::Index" in cc or "ops::index" in cc or cc.startswith("core::slice::index") or "slice::index" in cc or cc.startswith(("arrayvec::", "core::array::", "alloc::vec::"))) and len(a) == 2:
            v = _loaded(self.fold(a[0]))
            i = self.fold(a[1])
            if isinstance(v, list) and isinstance(i, int) and not isinstance(i, bool):
                if not (0 <= i < len(v)):
                    raise Trap("index %d out of bounds (len %d) at %s" % (i, len(v), span_str(e["span"])))
                return _loaded(v[i])
            if isinstance(v, list) and isinstance(i, dict) and str(i.get("__adt__", "")).startswith("core::ops::Range"):
                return self._subslice(v, i, e)
            return NotImplemented
        if cc.endswith("RangeInclusive::new") and len(a) == 2:
            lo, hi = self.fold(a[0]), self.fold(a[1])
            return {"__adt__": "core::ops::RangeInclusive", "__variant__": "RangeInclusive", "start": lo, "end": hi, "#0": lo, "#1": hi}
        if last == "contains" and len(a) == 2 and ("ops::range" in cc or "ops::Range" in cc or "RangeBounds" in cc):
            rg, x = self.fold(a[0]), _loaded(self.fold(a[1]))
            if isinstance(rg, dict) and str(rg.get("__adt__", "")).startswith("core::ops::Range") and isinstance(x, int):
                lo = rg.get("start") if "start" in rg else None
                hi = rg.get("end") if "end" in rg else None
                incl = str(rg["__adt__"]).endswith("Inclusive")
                return (lo is None or lo <= x) and (hi is None or (x <= hi if incl else x < hi))
            return NotImplemented
        if cc in ("core::mem::replace", "core::mem::take") and a:
            r0 = self.fold(a[0])
            if isinstance(r0, Ref):
                old_v = r0.load()
                r0.store(self.fold(a[1]) if cc.endswith("replace") else ([] if isinstance(old_v, list) else 0 if isinstance(old_v, int) and not isinstance(old_v, bool) else False if isinstance(old_v, bool) else None))
                return old_v
            return NotImplemented
        if last in ("chars", "bytes", "as_bytes") and len(a) == 1:
            v = _loaded(self.fold(a[0]))
            if isinstance(v, list):
                return v
            return NotImplemented
        if cc.endswith("vec::from_elem") and len(a) == 2:
            x, n = self.fold(a[0]), self.fold(a[1])
            if isinstance(n, int) and not isinstance(n, bool) and 0 <= n <= 200000 and not isinstance(x, list):
                return [dict(x) for _ in range(n)] if isinstance(x, dict) else [x] * n
            return NotImplemented
        if cc in ("alloc::vec::Vec::new", "alloc::vec::Vec::with_capacity"):
            return []
        if last == "iter_mut" and len(a) == 1:
            v = _loaded(self.fold(a[0]))
            if isinstance(v, list):
                return [x if isinstance(x, (Ref, dict, list)) else Ref(v, i) for i, x in enumerate(v)]
            return NotImplemented
        if last in ("chunks", "chunks_exact", "chunks_mut", "chunks_exact_mut") and len(a) == 2:
            v, n = _loaded(self.fold(a[0])), self.fold(a[1])
            if isinstance(v, list) and isinstance(n, int):
                if n == 0:
                    raise Trap("chunk size must be non-zero at " + span_str(e["span"]))
                mut = last.endswith("_mut")
                out = []
                full = len(v) - (len(v) % n) if "exact" in last else len(v)
                for s0 in range(0, full, n):
                    idxs = range(s0, min(s0 + n, len(v)))
                    out.append([(v[i] if isinstance(v[i], (Ref, dict, list)) else Ref(v, i)) if mut else v[i] for i in idxs])
                return out
            return NotImplemented
        if last in ("sort_unstable_by_key", "sort_by_key", "sort_by_cached_key") and len(a) == 2 and cc.startswith(("core::slice::", "alloc::slice::")):
            v, cl = _loaded(self.fold(a[0])), self.fold(a[1])
            if isinstance(v, list) and isinstance(cl, dict) and ("__closure__" in cl or "__fn__" in cl) and not any(isinstance(x, Ref) for x in v):
                keys = [_loaded(self.apply_closure(cl, [x])) for x in v]
                if all(isinstance(k0, int) for k0 in keys) and (len(set(keys)) == len(keys) or last != "sort_unstable_by_key"):
                    # (an unstable sort with equal keys has no defined result)
                    order = sorted(range(len(v)), key=lambda i: keys[i])
                    v[:] = [v[i] for i in order]
                    return ()
            return NotImplemented
        if last in ("split_first_mut", "split_last_mut") and len(a) == 1:
            v = _loaded(self.fold(a[0]))
            if isinstance(v, list):
                if not v:
                    return opt(None, False)
                refs = [x if isinstance(x, (Ref, dict, list)) else Ref(v, i) for i, x in enumerate(v)]
                return opt((refs[0], refs[1:]) if last == "split_first_mut" else (refs[-1], refs[:-1]))
            return NotImplemented
        if cc == "core::option::Option::take" and len(a) == 1:
            r0 = self.fold(a[0])
            if isinstance(r0, Ref):
                old_v = r0.load()
                r0.store({"__adt__": "core::option::Option", "__variant__": "None"})
                return old_v
            if isinstance(r0, dict) and r0.get("__variant__") in ("Some", "None"):
                # an Option value is shared by identity: emptied in place
                old_v = dict(r0)
                r0.clear()
                r0.update({"__adt__": "core::option::Option", "__variant__": "None"})
                return old_v
            return NotImplemented
        if last in ("split_first", "split_last") and len(a) == 1:
            v = _loaded(self.fold(a[0]))
            if isinstance(v, list):
                if not v:
                    return opt(None, False)
                return opt((v[0], list(v[1:])) if last == "split_first" else (v[-1], list(v[:-1])))
            return NotImplemented
        if last == "copy_within" and len(a) == 3:
            v, rg, dst = _loaded(self.fold(a[0])), self.fold(a[1]), _loaded(self.fold(a[2]))
            if isinstance(v, list) and isinstance(rg, dict) and str(rg.get("__adt__", "")).startswith("core::ops::Range") and isinstance(dst, int):
                lo = rg.get("start", 0) if "start" in rg else 0
                hi = rg.get("end", len(v)) if "end" in rg else len(v)
                if str(rg["__adt__"]).endswith("Inclusive"):
                    hi += 1
                if not (isinstance(lo, int) and isinstance(hi, int) and 0 <= lo <= hi <= len(v) and 0 <= dst and dst + (hi - lo) <= len(v)):
                    raise Trap("copy_within out of bounds at " + span_str(e["span"]))
                vals = [_loaded(x) for x in v[lo:hi]]
                for i, x in enumerate(vals):
                    if isinstance(v[dst + i], Ref):
                        v[dst + i].store(x)
                    else:
                        v[dst + i] = x
                return ()
            return NotImplemented
        if last in ("copy_from_slice", "clone_from_slice") and len(a) == 2:
            dst, src = _loaded(self.fold(a[0])), _loaded(self.fold(a[1]))
            if isinstance(dst, list) and isinstance(src, list):
                if len(dst) != len(src):
                    raise Trap("copy_from_slice: lengths differ (%d vs %d) at %s" % (len(dst), len(src), span_str(e["span"])))
                for i, x in enumerate(src):
                    if isinstance(dst[i], Ref):
                        dst[i].store(_loaded(x))
                    else:
                        dst[i] = _loaded(x)
                return ()
            return NotImplemented
        if last == "fill" and len(a) == 2:
            v = _loaded(self.fold(a[0]))
            if isinstance(v, list):
                x = self.fold(a[1])
                for i in range(len(v)):
                    Ref(v, i).store(x)
                return None
            return NotImplemented
        if last in ("unwrap", "expect") and cc.startswith(("core::option::Option", "core::result::Result")):
            v = self.fold(a[0])
            if isinstance(v, dict) and v.get("__variant__") in ("Some", "Ok"):
                return v.get("#0")
            if isinstance(v, dict) and v.get("__variant__") in ("None", "Err"):
                raise Trap("unwrap/expect on %s at %s" % (v["__variant__"], span_str(e["span"])))
            return NotImplemented
        if last in ("find", "position", "any", "all", "map", "filter", "rev", "len", "count", "skip", "take", "last", "next_back",
                    "contains", "first", "nth", "enumerate", "is_empty", "get", "find_map", "step_by", "zip", "chain", "collect", "sum", "cycle", "fold", "max", "min"):
            v = self.fold(a[0])
            if isinstance(v, Cycle) and v.items and last in ("take", "skip") and len(a) == 2:
                n0 = _loaded(self.fold(a[1]))
                if isinstance(n0, int) and 0 <= n0 <= 100000:
                    if last == "take":
                        return [v.items[i % len(v.items)] for i in range(n0)]
                    return Cycle(v.items[n0 % len(v.items):] + v.items[:n0 % len(v.items)])
            seq = self._iterable(v)
            if seq is None and last == "zip" and len(a) == 2 and isinstance(v, dict) and v.get("__adt__") == "core::ops::RangeFrom" and isinstance(v.get("start"), int):
                other = self._iterable(_loaded(self.fold(a[1])))
                if other is not None:
                    return [(v["start"] + i, x) for i, x in enumerate(other)]
            if seq is None:
                return NotImplemented
            if last in ("len", "count") and len(a) == 1:
                return len(seq)
            if last == "cycle" and len(a) == 1:
                return Cycle(seq)
            if last == "is_empty" and len(a) == 1:
                return not seq
            if last == "collect" and len(a) == 1:
                ty = str(e.get("ty", ""))
                if "BTreeSet<" in ty.split("::")[-1] or ty.startswith("alloc::collections::BTreeSet"):
                    if self.set_key is None:
                        raise Undecidable("collect into a BTreeSet without an order model")
                    return self._bset(seq)
                impl = "<%s as core::iter::FromIterator<" % ty
                hit = [n for n in self.facts.thir if n.startswith(impl) and n.endswith(">::from_iter")] if self.local_calls > 0 else []
                if len(hit) == 1:
                    # a crate type's own `impl FromIterator`
                    return self._apply_fn_item(hit[0], [[_loaded(x) for x in seq]])
                return [_loaded(x) for x in seq]
            if last in ("max", "min") and len(a) == 1 and all(isinstance(_loaded(x), int) and not isinstance(_loaded(x), bool) for x in seq):
                if not seq:
                    return opt(None, False)
                return opt(max(_loaded(x) for x in seq) if last == "max" else min(_loaded(x) for x in seq))
            if last == "sum" and len(a) == 1 and all(isinstance(_loaded(x), int) for x in seq):
                return sum(_loaded(x) for x in seq)
            if last == "sum" and len(a) == 1 and self.local_calls > 0:
                # a crate type's own `impl Sum`: chosen by the result type of the call
                impl = "<%s as core::iter::Sum>::sum" % e.get("ty")
                if impl in self.facts.thir:
                    return self._apply_fn_item(impl, [[_loaded(x) for x in seq]])
            if last == "rev" and len(a) == 1:
                return list(reversed(seq))
            if last == "enumerate" and len(a) == 1:
                return [(i, x) for i, x in enumerate(seq)]
            if last in ("last", "next_back") and len(a) == 1:
                return opt(seq[-1]) if seq else opt(None, False)
            if last == "first" and len(a) == 1:
                return opt(seq[0]) if seq else opt(None, False)
            if len(a) != 2 and not (last == "fold" and len(a) == 3):
                return NotImplemented
            arg = self.fold(a[1])
            if last in ("skip", "take") and isinstance(arg, int):
                return seq[arg:] if last == "skip" else seq[:arg]
            if last == "step_by" and isinstance(arg, int):
                if arg == 0:
                    raise Trap("step_by(0) at " + span_str(e["span"]))
                return seq[::arg]
            if last == "chain":
                other = self._iterable(arg)
                if other is not None:
                    return list(seq) + list(other)
            if last == "zip" and isinstance(arg, dict) and arg.get("__adt__") == "core::ops::RangeFrom" and isinstance(arg.get("start"), int):
                return [(x, arg["start"] + i) for i, x in enumerate(seq)]
            if last == "zip" and isinstance(arg, Cycle) and arg.items:
                return [(x, arg.items[i % len(arg.items)]) for i, x in enumerate(seq)]
            if last == "zip":
                other = self._iterable(arg)
                if other is not None:
                    return [(x, y) for x, y in zip(seq, other)]
            if last in ("nth", "get") and isinstance(arg, int):
                return opt(seq[arg]) if 0 <= arg < len(seq) else opt(None, False)
            if last == "get" and isinstance(arg, dict) and str(arg.get("__adt__", "")).startswith("core::ops::Range"):
                lo = arg.get("start", 0) if "start" in arg else 0
                hi = arg.get("end", len(seq)) if "end" in arg else len(seq)
                if str(arg.get("__adt__", "")).endswith("Inclusive"):
                    hi += 1
                return opt(list(seq[lo:hi])) if 0 <= lo <= hi <= len(seq) else opt(None, False)
            if last == "contains":
                return arg in seq
            if last == "fold" and len(a) == 3:
                cl = self.fold(a[2])
                if isinstance(cl, dict) and ("__closure__" in cl or "__fn__" in cl):
                    acc = arg
                    for x in seq:
                        acc = self.apply_closure(cl, [acc, _loaded(x)])
                    return acc
            if isinstance(arg, dict) and ("__closure__" in arg or "__fn__" in arg):
                if last == "find":
                    for x in seq:
                        if self.apply_closure(arg, [x]):
                            return opt(x)
                    return opt(None, False)
                if last == "find_map":
                    for x in seq:
                        r = self.apply_closure(arg, [x])
                        if isinstance(r, dict) and r.get("__variant__") == "Some":
                            return r
                    return opt(None, False)
                if last == "position":
                    for i, x in enumerate(seq):
                        if self.apply_closure(arg, [x]):
                            return opt(i)
                    return opt(None, False)
                if last == "any":
                    acc = False
                    for x in seq:
                        acc = s_or(acc, self.apply_closure(arg, [x]))
                        if acc is True:
                            return True
                    return acc
                if last == "all":
                    acc = True
                    for x in seq:
                        acc = s_and(acc, self.apply_closure(arg, [x]))
                        if acc is False:
                            return False
                    return acc
                if last == "map":
                    return [self.apply_closure(arg, [x]) for x in seq]
                if last == "filter":
                    return [x for x in seq if self.apply_closure(arg, [x])]
        return NotImplemented

    def exec_stmts(self, stmts):
        """execute raw THIR statements (Let / Expr) in the current environment and leave the bindings in place: used to
        fold a loop-free prefix or suffix of a function body"""
        for st in stmts:
            if st["k"] == "Let":
                if "init" not in st:
                    raise Undecidable("let without initialiser")
                v = self.fold(st["init"])
                ok, binds = self._pat_match(st["pat"], v)
                if not ok:
                    if "else" in st:
                        for x in (st["else"] if isinstance(st["else"], list) else [st["else"]]):
                            self.fold(x)
                    raise Undecidable("refutable let")
                self.env.update(binds)
            else:
                self.fold(st["expr"])

    def run(self, body):
        """execute a loop-free body; the result is its value or the early-returned value"""
        try:
            return self.fold(body)
        except ReturnEx as r:
            return r.value
        except ContinueEx:
            return None
        except BreakEx as bx:
            return bx.value

    def _pat_match(self, pat, v):
        k = pat["k"]
        if k == "Wild":
            return True, {}
        if k not in ("Bind",) and isinstance(v, Ref):
            v = v.load()
        if k == "Bind":
            if "sub" in pat:
                ok, b = self._pat_match(pat["sub"], v)
                if not ok:
                    return False, {}
                b = dict(b)
                b[pat["name"]] = v
                return True, b
            return True, {pat["name"]: v}
        if k == "Const":
            return (pat["val"] == v or (isinstance(v, bool) and pat["val"] == int(v))), {}
        if k == "Range":
            lo, hi = pat["lo"], pat["hi"]
            if lo != "-inf" and v < lo:
                return False, {}
            if hi != "+inf" and (v > hi or (not pat["incl"] and v == hi)):
                return False, {}
            return True, {}
        if k == "Or":
            for p in pat["pats"]:
                ok, b = self._pat_match(p, v)
                if ok:
                    return True, b
            return False, {}
        if k == "Deref":
            return self._pat_match(pat["sub"], v)
        if k == "Variant":
            if isinstance(v, dict):
                if v.get("__variant__") != pat["variant"]:
                    return False, {}
                binds = {}
                for fp in pat["fields"]:
                    ok, b = self._pat_match(fp["pat"], v.get("#%d" % fp["f"]))
                    if not ok:
                        return False, {}
                    binds.update(b)
                return True, binds
            if isinstance(v, str):  # fieldless enum given by variant name
                return v == pat["variant"], {}
            raise Undecidable("variant pattern on non-adt")
        if k == "Slice":
            if not isinstance(v, (list, tuple)):
                raise Undecidable("slice pattern on a non-sequence")
            pre, suf = pat.get("prefix", []), pat.get("suffix", [])
            if "slice" in pat:
                if len(v) < len(pre) + len(suf):
                    return False, {}
            elif len(v) != len(pre) + len(suf):
                return False, {}
            binds = {}
            for p2, x in zip(pre, v[:len(pre)]):
                ok, b = self._pat_match(p2, x)
                if not ok:
                    return False, {}
                binds.update(b)
            for p2, x in zip(suf, v[len(v) - len(suf):] if suf else []):
                ok, b = self._pat_match(p2, x)
                if not ok:
                    return False, {}
                binds.update(b)
            if "slice" in pat:
                ok, b = self._pat_match(pat["slice"], list(v[len(pre):len(v) - len(suf)]))
                if not ok:
                    return False, {}
                binds.update(b)
            return True, binds
        if k == "Leaf":
            binds = {}
            for fp in pat["fields"]:
                if isinstance(v, dict):
                    sub = v.get("#%d" % fp["f"])
                elif isinstance(v, (tuple, list)):
                    sub = v[fp["f"]]
                else:
                    raise Undecidable("leaf pattern")
                ok, b = self._pat_match(fp["pat"], sub)
                if not ok:
                    return False, {}
                binds.update(b)
            return True, binds
        raise Undecidable("pattern " + k)

    def _chk(self, v, e):
        r = ty_range(e["ty"])
        if r and not (r[0] <= v <= r[1]):
            raise Trap("arithmetic overflow (%s = %d) at %s" % (e["ty"], v, span_str(e["span"])))
        return v

    def _opaque_eq(self, a, b):
        """equality of two values of which at least one is opaque: the same token is equal to itself; otherwise symbolic when
        the client declared this pair comparable (sym_eq), else not decidable"""
        a, b = _loaded(a), _loaded(b)
        if isinstance(a, (list, tuple)) and isinstance(b, (list, tuple)):
            if len(a) != len(b):
                return False
            acc = True
            for x, y in zip(a, b):
                acc = s_and(acc, self._opaque_eq(x, y))
                if acc is False:
                    return False
            return acc
        if isinstance(a, dict) and isinstance(b, dict) and "__variant__" in a and "__variant__" in b:
            if a["__variant__"] != b["__variant__"]:
                return False
            acc = True
            for k0 in sorted(k1 for k1 in a if k1.startswith("#")):
                acc = s_and(acc, self._opaque_eq(a[k0], b.get(k0)))
                if acc is False:
                    return False
            return acc
        if isinstance(a, Token) and isinstance(b, Token) and str(a) == str(b):
            return True
        if isinstance(a, (int, bool, str)) and isinstance(b, (int, bool, str)) and not isinstance(a, Token) and not isinstance(b, Token):
            return a == b
        if self.sym_eq is not None and self.sym_eq(a, b):
            return Sym(("atom", a, b))
        raise Undecidable("comparison of an opaque value")

    def _sym_branch(self, e, c):
        """`if <symbolic> { .. }`: decidable when exactly one side is nothing but `return Err(..)` - the run continues on the
        other side, and the condition under which it does is recorded in self.path"""
        def bare_err_return(br):
            n = br
            for _ in range(6):
                if n is None:
                    return None
                k = n.get("k")
                if k in ("Scope", "Use", "NeverToAny", "Coerce") or (k == "Block" and not n.get("stmts") and "expr" in n):
                    n = n.get("expr") if k == "Block" else n.get("value") or n.get("arg") or n.get("expr")
                    continue
                if k == "Block" and len(n.get("stmts", [])) == 1 and "expr" not in n and n["stmts"][0].get("k") == "Expr":
                    n = n["stmts"][0]["expr"]
                    continue
                break
            n = strip(n) if n is not None else None
            if n is not None and n.get("k") == "Return" and "value" in n:
                v = self.fold(n["value"])
                if isinstance(v, dict) and v.get("__variant__") == "Err":
                    return v
            return None
        t_err = bare_err_return(e["then"])
        e_err = bare_err_return(e["else"]) if "else" in e else None
        if t_err is not None and e_err is None:
            self.path.append((s_not(c), t_err))
            return self.fold(e["else"]) if "else" in e else None
        if e_err is not None and t_err is None:
            self.path.append((c, e_err))
            return self.fold(e["then"])
        # `if <symbolic> { flag = true; }`: both sides only set boolean locals - the flags become symbolic (flag := c ? lit : flag)
        def flag_sets(br):
            if br is None:
                return []
            n = br
            while n.get("k") in ("Scope", "Use") or (n.get("k") == "Block" and not n.get("stmts") and "expr" in n):
                n = n.get("expr") if n.get("k") == "Block" else n.get("value") or n.get("arg") or n.get("expr")
            sts = [st["expr"] for st in n.get("stmts", []) if st.get("k") == "Expr"] if n.get("k") == "Block" else [n]
            if n.get("k") == "Block" and (len(sts) != len(n.get("stmts", [])) or ("expr" in n and not _is_unit(n["expr"]))):
                if "expr" in n and len(sts) == len(n.get("stmts", [])):
                    sts = sts + [n["expr"]]
                else:
                    return None
            out = []
            for st in sts:
                st = strip(st)
                if st.get("k") == "Assign" and strip(st["rhs"]).get("k") == "Lit" and "bool" in strip(st["rhs"]):
                    out.append((st["lhs"], strip(st["rhs"])["bool"]))
                elif st.get("k") == "Tuple" and not st.get("fields"):
                    continue
                else:
                    return None
            return out
        ts = flag_sets(e["then"])
        es = flag_sets(e.get("else")) if "else" in e else []
        if ts is not None and es is not None and (ts or es) and self.effects:
            for lhs, lit in ts:
                cont, key = self._place(lhs)
                old = cont[key]
                cont[key] = s_or(c, old) if lit else s_and(s_not(c), old)
            for lhs, lit in es:
                cont, key = self._place(lhs)
                old = cont[key]
                cont[key] = s_or(s_not(c), old) if lit else s_and(c, old)
            return None
        # `if <symbolic> { v.push(x); }` (no else): the push is recorded as guarded by the condition, v itself is left alone
        if getattr(self, "guarded", None) is not None and ("else" not in e or _is_unit(e["else"])):
            n = e["then"]
            while n.get("k") in ("Scope", "Use") or (n.get("k") == "Block" and not n.get("stmts") and "expr" in n):
                n = n.get("expr") if n.get("k") == "Block" else n.get("value") or n.get("arg") or n.get("expr")
            sts = ([st["expr"] for st in n.get("stmts", []) if st.get("k") == "Expr"] + ([n["expr"]] if "expr" in n and not _is_unit(n["expr"]) else [])) if n.get("k") == "Block" else [n]
            if n.get("k") != "Block" or len(sts) == len(n.get("stmts", [])) + (1 if "expr" in n and not _is_unit(n["expr"]) else 0):
                calls = [strip(x) for x in sts]
                if calls and all(x.get("k") == "Call" and canon(callee_of(x)).endswith("Vec::push") and len(x["args"]) == 2 for x in calls):
                    for x in calls:
                        self.guarded.append((c, _loaded(self.fold(x["args"][1]))))
                    return None
        raise Undecidable("branch on a symbolic condition")

    def _bin(self, op, a, b, e):
        a, b = _loaded(a), _loaded(b)
        if (isinstance(a, Sym) or isinstance(b, Sym)) and op in ("BitOr", "BitAnd") and all(isinstance(x, (Sym, bool)) for x in (a, b)):
            return s_or(a, b) if op == "BitOr" else s_and(a, b)
        if op in ("Lt", "Le", "Gt", "Ge") and getattr(self, "sym_cmp", False) and (isinstance(a, Token) or isinstance(b, Token)):
            return Sym(("atom", (op, a), b))
        if op not in ("Eq", "Ne") and not (isinstance(a, (int, bool)) and isinstance(b, (int, bool))):
            raise Undecidable("arithmetic on an opaque value")
        if op in ("Eq", "Ne") and (isinstance(a, Token) or isinstance(b, Token)):
            r = self._opaque_eq(a, b)
            return r if op == "Eq" else s_not(r)
        if op == "Add":
            return self._chk(a + b, e)
        if op == "Sub":
            return self._chk(a - b, e)
        if op == "Mul":
            return self._chk(a * b, e)
        if op == "Div":
            if b == 0:
                raise Trap("division by zero at " + span_str(e["span"]))
            return int(a / b) if (a < 0) != (b < 0) else a // b
        if op == "Rem":
            if b == 0:
                raise Trap("remainder by zero at " + span_str(e["span"]))
            return a - b * (int(a / b) if (a < 0) != (b < 0) else a // b)
        if op == "BitAnd":
            return a & b
        if op == "BitOr":
            return a | b
        if op == "BitXor":
            return a ^ b
        if op == "Shl":
            r = ty_range(e["ty"])
            bits = {"u8": 8, "u16": 16, "u32": 32, "u64": 64, "usize": 64, "i16": 16, "i32": 32, "i64": 64, "isize": 64, "i8": 8}.get(e["ty"])
            if bits and b >= bits:
                raise Trap("shift overflow at " + span_str(e["span"]))
            return wrap(a << b, e["ty"]) if r else a << b
        if op == "Shr":
            return a >> b
        if op == "Eq":
            return a == b
        if op == "Ne":
            return a != b
        if op == "Lt":
            return a < b
        if op == "Le":
            return a <= b
        if op == "Gt":
            return a > b
        if op == "Ge":
            return a >= b
        raise Undecidable("binary op " + op)


def call_trace(facts, fn, env, watch, local_calls=0):
    """fold the (loop-free) body of `fn` under `env`, treating every call the folder has no model for as an opaque value,
    and return the sequence of watched calls [(name suffix, folded args)] in execution order (plus the result).
    Used for small dispatch functions whose behaviour is a finite decision table over flags / options."""
    b = facts.thir.get(fn)
    trace = []

    def on_call(folder, c):
        cc = canon(callee_of(c))
        for w in watch:
            if cc.endswith(w):
                args = []
                for a in c["args"]:
                    try:
                        args.append(folder.fold(a))
                    except Undecidable:
                        args.append(Token("?"))
                trace.append((w, args))
                return Token(w + "()")
        r = folder._builtin(c)
        if r is not NotImplemented:
            return r
        if folder.local_calls > 0:
            r = folder._local_call(c)
            if r is not NotImplemented:
                return r
        if cc.startswith("core::panicking") or "panic" in cc.split("::")[-1]:
            return NotImplemented
        for a in c["args"]:
            try:
                folder.fold(a)          # arguments are still evaluated (their watched calls count)
            except Undecidable:
                pass
        return Token(cc.split("::")[-1] + "()")
    fo = Folder(facts, env=dict(env), on_call=on_call, effects=True, local_calls=local_calls)
    # a guard on opaque values whose taken side is nothing but `return Err(..)` (an up-front refusal) does not make the dispatch
    # undecidable: the trace is that of the requests that get past it
    fo.sym_eq = lambda a_, b_: True
    fo.sym_cmp = True
    res = fo.run(b["body"])
    return trace, res


def sink_call(folder, c, sink):
    """model of the calls that append to an output buffer: push(x) / extend_from_slice(&[..]) / extend([..]) record their
    values in `sink` (in order).  Returns True when the call was one of them."""
    cc = canon(callee_of(c))
    last = cc.split("::")[-1]
    if last == "push" and len(c["args"]) == 2:
        sink.append(_loaded(folder.fold(c["args"][1])))
        return True
    if last in ("extend_from_slice", "extend") and len(c["args"]) == 2:
        v = _loaded(folder.fold(c["args"][1]))
        if isinstance(v, (list, tuple)):
            sink.extend(_loaded(x) for x in v)
            return True
        raise Undecidable("extend with a non-literal sequence")
    return False


def find_fn(facts, name):
    b = facts.thir.get(name)
    if b is None:
        return None
    return b


def top_match(body, scrut_name=None):
    """the first `match` in the function body (optionally on the given variable)"""
    for n in exprs(body, "Match"):
        s = strip(n["scrut"])
        if scrut_name is None or (s.get("k") in ("Var", "Upvar") and s["name"].split("#")[0] == scrut_name):
            return n
    return None


# ---- normalised S-expressions ---------------------------------------------------

import re
import re as _re

_GEN = _re.compile(r"::<[^<>]*(?:<[^<>]*(?:<[^<>]*>[^<>]*)*>[^<>]*)*>")


ADT_FIELDS = {}


def register_adts(adts):
    """field names of the crate's structs, for turning destructuring lets into field projections"""
    for name, a in adts.items():
        if a.get("kind") == "Struct" and a.get("variants"):
            ADT_FIELDS[canon(name)] = [f["name"] for f in a["variants"][0]["fieldtys"]]


def destructure(pat, init, out):
    """irrefutable struct / tuple pattern with plain immutable bindings: name -> synthetic Field projection of init.
    Returns False when the pattern has anything else (then nothing may be inlined)."""
    k = pat.get("k")
    if k == "Wild":
        return True
    if k == "Bind":
        if "sub" in pat or is_mut_binding(pat) or "ref" in str(pat.get("mode", "")).lower():
            return False
        out[pat["name"]] = init
        return True
    if k == "Deref":
        return destructure(pat["sub"], init, out)
    if k == "Leaf":
        names = ADT_FIELDS.get(canon(str(pat.get("ty", "")).lstrip("&").replace("mut ", "").strip()))
        for fp in pat["fields"]:
            i = fp["f"]
            fname = names[i] if names and i < len(names) else str(i)
            node = {"k": "Field", "lhs": init, "field": fname, "idx": i, "span": init.get("span"), "ty": fp["pat"].get("ty", "?")}
            if not destructure(fp["pat"], node, out):
                return False
        return True
    return False


def canon(path):
    """strip generic arguments from a def path"""
    prev = None
    while prev != path:
        prev = path
        path = _GEN.sub("", path)
    return path


# ---- explicit spellings of `?` -------------------------------------------------------------------

def _variant_pat(p):
    """(variant name, bound name | None | '()') of `Ok(v)`, `Err(e)`, `Some(v)`, `None`, `Ok(())`, `Err(_)`"""
    while p.get("k") == "Deref":
        p = p["sub"]
    if p.get("k") != "Variant" or p.get("variant") not in ("Ok", "Err", "Some", "None"):
        return None
    if not p["fields"]:
        return (p["variant"], None)
    if len(p["fields"]) != 1:
        return None
    q = p["fields"][0]["pat"]
    if q.get("k") == "Bind" and "sub" not in q:
        return (p["variant"], q["name"])
    if q.get("k") == "Wild" or (q.get("k") == "Leaf" and not q["fields"]):
        return (p["variant"], "()" if q.get("k") == "Leaf" else None)
    return None


def _is_unit(e):
    e = strip(e)
    return (e.get("k") == "Block" and not e.get("stmts") and "expr" not in e) or (e.get("k") == "Tuple" and not e["fields"])


def _returned(e):
    """the value node if `e` is `return v` (possibly wrapped in a block with nothing else), else None"""
    e = strip(e)
    if e.get("k") == "Block" and "expr" not in e and len(e.get("stmts", [])) == 1 and e["stmts"][0]["k"] != "Let":
        e = strip(e["stmts"][0]["expr"])
    if e.get("k") == "Return" and "value" in e:
        return strip(e["value"])
    if e.get("k") == "Return":
        return {"k": "BareReturn"}
    return None


def _passes_error(ret, name):
    """ret is `Err(name)`, `Err(name.into())`, `Err(From::from(name))` or `None`"""
    if ret.get("k") == "Adt" and ret.get("variant") == "None":
        return name is None
    if ret.get("k") == "BareReturn":
        return name is None
    if ret.get("k") != "Adt" or ret.get("variant") != "Err" or name is None:
        return False
    v = strip(ret["fields"][0]["expr"])
    if v.get("k") == "Call" and canon(callee_of(v)).split("::")[-1] in ("into", "from") and len(v["args"]) == 1:
        v = strip(v["args"][0])
    return v.get("k") in ("Var", "Upvar") and v["name"] == name


def _wrapped_error(ret, name):
    """ret is `Err(F(name))` for a one-argument constructor or function F: the path of F, else None"""
    if ret.get("k") != "Adt" or ret.get("variant") != "Err" or name is None:
        return None
    v = strip(ret["fields"][0]["expr"])
    if v.get("k") == "Adt" and len(v["fields"]) == 1 and "base" not in v:
        a = strip(v["fields"][0]["expr"])
        if a.get("k") in ("Var", "Upvar") and a["name"] == name:
            return canon(v["adt"]) + "::" + v["variant"]
    if v.get("k") == "Call" and len(v["args"]) == 1:
        a = strip(v["args"][0])
        if a.get("k") in ("Var", "Upvar") and a["name"] == name:
            return canon(callee_of(v))
    return None


def try_like(scrut, good, good_body, bad, bad_body, lets, depth=40):
    """`match X { Ok(v) => v, Err(e) => return Err(e) }` and its Option / unit / fresh-error variants, as the sx of the
    equivalent `?` expression; None if the two arms are anything else"""
    g, b = _variant_pat(good), _variant_pat(bad)
    if not g or not b or (g[0], b[0]) not in (("Ok", "Err"), ("Some", "None")):
        return None
    if (g[0], b[0]) == ("Some", "None") and good_body is not None and g[1] not in (None, "()") and _returned(bad_body) is None and _inlinable(bad_body):
        gb2 = strip(good_body)
        if gb2.get("k") == "Adt" and gb2.get("variant") == "Some" and len(gb2["fields"]) == 1:
            gv = strip(gb2["fields"][0]["expr"])
            if gv.get("k") in ("Var", "Upvar") and gv["name"] == g[1]:
                # match X { Some(v) => Some(v), None => D }  ==  X.or(D)
                return ("call", "core::option::Option::or", (sx(scrut, lets, depth - 1), sx(bad_body, lets, depth - 1)))
    if good_body is not None:
        gb = strip(good_body)
        if not ((gb.get("k") in ("Var", "Upvar") and gb["name"] == g[1]) or (g[1] in ("()", None) and _is_unit(gb))):
            return None
    ret = _returned(bad_body)
    if ret is None:
        if (g[0], b[0]) == ("Some", "None") and good_body is not None and g[1] not in (None, "()") and _inlinable(bad_body):
            # match X { Some(v) => v, None => D }  ==  X.unwrap_or(D)
            return ("call", "core::option::Option::unwrap_or", (sx(scrut, lets, depth - 1), sx(bad_body, lets, depth - 1)))
        return None
    x = sx(scrut, lets, depth - 1)
    if _passes_error(ret, b[1]):
        return ("try", x)
    w = _wrapped_error(ret, b[1])
    if w is not None:
        return ("try", ("call", "core::result::Result::map_err", (x, ("fn", w))))
    if ret.get("k") == "Adt" and ret.get("variant") == "Err" and b[1] is None:
        err = sx(ret["fields"][0]["expr"], lets, depth - 1)
        if g[0] == "Some":
            return ("try", ("call", "core::option::Option::ok_or", (x, err)))
        return ("try", ("call", "core::result::Result::map_err", (x, ("const_fn", err))))
    return None


def match_as_try(e, lets, depth=40):
    """Match / if-let node that spells `?` by hand -> ('try', ..) else None"""
    if e.get("k") == "Match" and len(e["arms"]) == 2 and not any("guard" in a for a in e["arms"]):
        a0, a1 = e["arms"]
        for good, bad in ((a0, a1), (a1, a0)):
            g, b = _variant_pat(good["pat"]), _variant_pat(bad["pat"])
            if g and b and (g[0], b[0]) == ("Ok", "Err") and g[1] not in (None, "()"):
                gb = strip(good["body"])
                if gb.get("k") == "Adt" and gb.get("variant") == "Ok" and len(gb["fields"]) == 1:
                    gv = strip(gb["fields"][0]["expr"])
                    w = _wrapped_error(strip(bad["body"]), b[1])
                    if gv.get("k") in ("Var", "Upvar") and gv["name"] == g[1] and w is not None:
                        return ("call", "core::result::Result::map_err", (sx(e["scrut"], lets, depth - 1), ("fn", w)))
            r = try_like(e["scrut"], good["pat"], good["body"], bad["pat"], bad["body"], lets, depth)
            if r is not None:
                return r
        return None
    if e.get("k") == "If" and e["cond"].get("k") == "Let":
        vp = _variant_pat(e["cond"]["pat"])
        if not vp:
            return None
        X = e["cond"]["expr"]
        if vp[0] in ("Err", "None") and "else" not in e:
            # if let Err(e) = X { return Err(e) }      (value position: unit)
            other = {"k": "Variant", "variant": "Ok" if vp[0] == "Err" else "Some", "fields": [{"f": 0, "pat": {"k": "Wild"}}]}
            return try_like(X, other, None, e["cond"]["pat"], e["then"], lets, depth)
        if vp[0] in ("Ok", "Some") and "else" in e:
            other = {"k": "Variant", "variant": "Err" if vp[0] == "Ok" else "None", "fields": [{"f": 0, "pat": {"k": "Wild"}}] if vp[0] == "Ok" else []}
            return try_like(X, e["cond"]["pat"], e["then"], other, e["else"], lets, depth)
    return None


def sx(e, lets=None, depth=40):
    """normalised tuple form of an expression; immutable lets are inlined"""
    lets = lets or {}
    if depth <= 0:
        return ("deep",)
    k = e["k"]
    if k in ("Borrow", "Deref", "Coerce", "RawBorrow"):
        return sx(e["arg"], lets, depth)
    if k == "Block":
        if not e.get("stmts") and "expr" in e:
            return sx(e["expr"], lets, depth)
        # block of immutable lets followed by an expression
        if "expr" in e and all(st["k"] == "Let" and st["pat"].get("k") == "Bind" and "sub" not in st["pat"]
                               and not is_mut_binding(st["pat"]) and "init" in st for st in e.get("stmts", [])):
            l2 = dict(lets)
            for st in e["stmts"]:
                l2[st["pat"]["name"]] = st["init"]
            return sx(e["expr"], l2, depth)
        return ("opaque", "Block", span_str(e["span"]))
    if k in ("Var", "Upvar"):
        n = e["name"]
        if n in lets:
            return sx(lets[n], lets, depth - 1)
        return ("var", n.split("#")[0], n)
    if k == "Lit":
        if "int" in e:
            return ("lit", e["int"])
        if "bool" in e:
            return ("lit", e["bool"])
        if "bytes" in e:
            return ("lit", tuple(e["bytes"]))
        if "str" in e:
            return ("lit", e["str"])
        return ("lit", None)
    if k == "NamedConst":
        v = e.get("val")
        return ("const", e["def"], tuple(v) if isinstance(v, list) and all(isinstance(x, int) for x in v) else v if isinstance(v, int) else None)
    if k == "Call":
        return ("call", canon(callee_of(e)), tuple(sx(a, lets, depth - 1) for a in e["args"]))
    if k == "Field":
        base = strip(e["lhs"])
        while base.get("k") in ("Var", "Upvar") and base["name"] in lets:
            base = strip(lets[base["name"]])
        if base.get("k") == "Tuple" and e.get("idx") is not None and e["idx"] < len(base["fields"]):
            return sx(base["fields"][e["idx"]], lets, depth - 1)
        if base.get("k") == "Adt" and "base" not in base:
            for f in base["fields"]:
                if f["idx"] == e.get("idx"):
                    return sx(f["expr"], lets, depth - 1)
        return ("field", sx(e["lhs"], lets, depth - 1), e["field"])
    if k == "Binary":
        return ("bin", e["op"], sx(e["lhs"], lets, depth - 1), sx(e["rhs"], lets, depth - 1))
    if k == "Logical":
        return ("logic", e["op"], sx(e["lhs"], lets, depth - 1), sx(e["rhs"], lets, depth - 1))
    if k == "Unary":
        return ("un", e["op"], sx(e["arg"], lets, depth - 1))
    if k == "Cast":
        return ("cast", sx(e["arg"], lets, depth - 1), e["ty"])
    if k == "Index":
        return ("index", sx(e["lhs"], lets, depth - 1), sx(e["index"], lets, depth - 1))
    if k == "Closure":
        return ("closure", e["def"])
    if k == "Zst":
        return ("fn", canon(e.get("resolved") or e.get("fn") or "?"))
    if k == "Adt":
        return ("adt", e["adt"], e["variant"], tuple((f["field"] or str(f["idx"]), sx(f["expr"], lets, depth - 1)) for f in e["fields"]))
    if k == "Tuple":
        return ("tuple", tuple(sx(a, lets, depth - 1) for a in e["fields"]))
    if k == "Array":
        return ("array", tuple(sx(a, lets, depth - 1) for a in e["fields"]))
    if k == "If" and e["cond"].get("k") == "Let":
        t = match_as_try(e, lets, depth)
        if t is not None:
            return t
        return ("opaque", "IfLet", span_str(e["span"]))
    if k == "If":
        return ("if", sx(e["cond"], lets, depth - 1), sx(e["then"], lets, depth - 1),
                sx(e["else"], lets, depth - 1) if "else" in e else None)
    if k == "Repeat":
        return ("repeat", sx(e["value"], lets, depth - 1), e.get("n"))
    if k == "Return":
        return ("return", sx(e["value"], lets, depth - 1) if "value" in e else None)
    if k == "Match":
        if str(e.get("source", "")).startswith("TryDesugar"):
            return ("try", sx(e["scrut"]["args"][0], lets, depth - 1))
        t = match_as_try(e, lets, depth)
        if t is not None:
            return t
        return ("match", sx(e["scrut"], lets, depth - 1),
                tuple((_pat_desc(a["pat"]), sx(a["body"], lets, depth - 1)) for a in e["arms"]), span_str(e["span"]))
    return ("opaque", k, span_str(e["span"]))


def sx_walk(t):
    yield t
    if isinstance(t, tuple):
        for x in t[1:]:
            if isinstance(x, tuple):
                if x and isinstance(x[0], str):
                    yield from sx_walk(x)
                else:
                    for y in x:
                        if isinstance(y, tuple):
                            yield from sx_walk(y)


def sx_calls(t, name_suffix):
    return [x for x in sx_walk(t) if isinstance(x, tuple) and x and x[0] == "call" and x[1].endswith(name_suffix)]


def sx_show(t, limit=220):
    s = _sxs(t)
    return s if len(s) <= limit else s[:limit] + "…"


def _sxs(t):
    if not isinstance(t, tuple) or not t:
        return repr(t)
    k = t[0]
    if k == "var":
        return t[1]
    if k == "lit":
        return repr(t[1])
    if k == "const":
        return t[1].split("::")[-1]
    if k == "call":
        return "%s(%s)" % ("::".join(t[1].split("::")[-2:]), ", ".join(_sxs(a) for a in t[2]))
    if k == "field":
        return "%s.%s" % (_sxs(t[1]), t[2])
    if k == "bin":
        return "(%s %s %s)" % (_sxs(t[2]), t[1], _sxs(t[3]))
    if k == "logic":
        return "(%s %s %s)" % (_sxs(t[2]), t[1], _sxs(t[3]))
    if k == "un":
        return "%s(%s)" % (t[1], _sxs(t[2]))
    if k == "cast":
        return "(%s as %s)" % (_sxs(t[1]), t[2])
    if k == "index":
        return "%s[%s]" % (_sxs(t[1]), _sxs(t[2]))
    if k == "closure":
        return "|..|{%s}" % t[1].split("::")[-2]
    if k == "tuple":
        return "(%s)" % ", ".join(_sxs(a) for a in t[1])
    if k == "adt":
        return "%s::%s{..}" % (t[1].split("::")[-1], t[2])
    if k == "try":
        return _sxs(t[1]) + "?"
    if k == "match":
        return "match %s {%d arms}" % (_sxs(t[1]), len(t[2]))
    return str(t)


# ---- structured statements --------------------------------------------------------

def for_loop_parts(m):
    """if `m` is a desugared `for pat in iter { body }` return (iter_expr, pat, body_expr)"""
    if m.get("k") != "Match" or m.get("source") != "ForLoopDesugar":
        return None
    sc = m["scrut"]
    if sc.get("k") != "Call" or not canon(callee_of(sc)).endswith("into_iter"):
        return None
    it = sc["args"][0]
    arm = m["arms"][0]
    lp = arm["body"]
    if lp.get("k") != "Loop":
        return None
    inner = None
    for n in exprs(lp["body"], "Match"):
        if n.get("source") == "ForLoopDesugar":
            inner = n
            break
    if inner is None:
        return None
    for a in inner["arms"]:
        p = a["pat"]
        if p.get("k") == "Variant" and p.get("variant") == "Some":
            return (it, p["fields"][0]["pat"], a["body"])
    return None


def iflet_sites(body):
    """(pattern, scrutinee, then node) for every `if let P = e { then }` / `while let P = e { then }` and every
    `let P = e else { diverge }; rest..` (then = the rest of the enclosing block) of a raw body"""
    out = []
    for n in walk(body):
        if n.get("k") == "If" and n["cond"].get("k") == "Let":
            out.append((n["cond"]["pat"], n["cond"]["expr"], n["then"]))
        if n.get("k") == "Block":
            sts = n.get("stmts", [])
            for i, st in enumerate(sts):
                if st.get("k") == "Let" and "else" in st and "init" in st:
                    rest = {"k": "Block", "ty": n.get("ty", "()"), "span": n.get("span"), "stmts": sts[i + 1:]}
                    if "expr" in n:
                        rest["expr"] = n["expr"]
                    out.append((st["pat"], st["init"], rest))
    return out


def while_parts(lp):
    """(condition, body block) of a raw `Loop` node that has the `while` shape loop { if c { body } else { break } }"""
    if lp.get("k") != "Loop":
        return None
    b = strip(lp["body"])
    while b.get("k") == "Block" and not b.get("stmts") and "expr" in b:
        b = strip(b["expr"])
    if b.get("k") == "If" and "else" in b and b["cond"].get("k") != "Let":
        els = strip(b["else"])
        brk = els.get("k") == "Break" or (els.get("k") == "Block" and len(els.get("stmts", [])) == 1 and "expr" not in els
                                          and strip(els["stmts"][0].get("expr", {})).get("k") == "Break") \
            or (els.get("k") == "Block" and not els.get("stmts") and strip(els.get("expr", {})).get("k") == "Break")
        if brk:
            return b["cond"], b["then"]
    return None


def pat_names(p):
    out = []
    for n in walk(p):
        if n.get("k") == "Bind":
            out.append(n["name"])
    return out


def stmts(e, lets=None):
    """flatten an expression used in statement position into a list of simplified statements:
    ('let', name, is_mut, sx) | ('for', [names], sx_iter, [stmts], span) | ('assign', sx_l, sx_r, span)
    | ('assignop', op, sx_l, sx_r, span) | ('if', sx_cond, [then], [else], span) | ('loop', [stmts], span)
    | ('return', sx|None, span) | ('break',) | ('continue',) | ('match', sx_scrut, [(pat, [stmts])], span)
    | ('expr', sx, span)"""
    lets = lets if lets is not None else {}
    k = e["k"]
    sp = span_str(e["span"]) if "span" in e else "?"
    if k == "Block":
        out = []
        for st in e.get("stmts", []):
            if st["k"] == "Let":
                p = st["pat"]
                if p.get("k") == "Bind" and "sub" not in p and "init" in st:
                    mut = is_mut_binding(p)
                    if not mut and "else" not in st and not lets.get("__noinline__") and _inlinable(st["init"]):
                        lets[p["name"]] = st["init"]
                    out.append(("let", p["name"], mut, sx(st["init"], lets), span_str(st["span"])))
                else:
                    init = sx(st["init"], lets) if "init" in st else None
                    if "init" in st and "else" not in st and _inlinable(st["init"]) and (not lets.get("__noinline__") or _is_place(st["init"])):
                        # (with inlining switched off, a destructured *place* - `let Self { a, b } = self` - is still
                        # only a renaming of its fields)
                        d = {}
                        if destructure(p, st["init"], d):
                            lets.update(d)
                    if "else" in st and "init" in st:
                        vp = _variant_pat(p)
                        els = st["else"][0] if isinstance(st["else"], list) and len(st["else"]) == 1 else st["else"] if isinstance(st["else"], dict) else None
                        if vp and vp[0] in ("Ok", "Some") and vp[1] not in (None, "()") and els is not None:
                            other = {"k": "Variant", "variant": "Err" if vp[0] == "Ok" else "None", "fields": [{"f": 0, "pat": {"k": "Wild"}}] if vp[0] == "Ok" else []}
                            t = try_like(st["init"], p, None, other, els, lets)
                            if t is not None:
                                q = p
                                while q.get("k") == "Deref":
                                    q = q["sub"]
                                out.append(("let", vp[1], is_mut_binding(q["fields"][0]["pat"]), t, span_str(st["span"])))
                                continue
                    out.append(("letpat", pat_names(p), init, span_str(st["span"]), p))
                    if "else" in st:
                        for x in (st["else"] if isinstance(st["else"], list) else [st["else"]]):
                            out.append(("letelse", stmts(x, lets)))
            else:
                out.extend(stmts(st["expr"], lets))
        if "expr" in e:
            out.extend(stmts(e["expr"], lets))
        out = _counting_loops(out)
        out = _expand_and_then(out, lets)
        return out if lets.get("__noinline__") else _forward_single_use(out)
    if k == "Match":
        if str(e.get("source", "")).startswith("TryDesugar"):
            return [("expr", sx(e, lets), sp)]
        fl = for_loop_parts(e)
        if fl:
            it, pat, body = fl
            return [("for", pat_names(pat), sx(it, lets), stmts(body, lets), sp)]
        t = match_as_try(e, lets)
        if t is not None:
            return [("expr", t, sp)]
        arms = []
        for a in e["arms"]:
            arms.append((a["pat"], stmts(a["body"], lets), sx(a["guard"], lets) if "guard" in a else None))
        return [("match", sx(e["scrut"], lets), arms, sp)]
    if k == "If" and e["cond"]["k"] == "Let":
        t = match_as_try(e, lets)
        if t is not None:
            return [("expr", t, sp)]
    if k == "If":
        return [("if", sx(e["cond"], lets) if e["cond"]["k"] != "Let" else ("iflet", sx(e["cond"]["expr"], lets), tuple(pat_names(e["cond"]["pat"])), _pat_desc(e["cond"]["pat"])),
                 stmts(e["then"], lets), stmts(e["else"], lets) if "else" in e else [], sp)]
    if k == "Loop":
        body = stmts(e["body"], lets)
        # `loop { let P = e else { break }; rest.. }` is `while let P = e { rest.. }`
        if len(body) >= 2 and body[0][0] == "letpat" and body[0][2] is not None and body[1][0] == "letelse" and len(body[1][1]) == 1 and body[1][1][0][0] == "break" \
                and (len(body) < 3 or body[2][0] != "letelse"):
            pat = body[0][4]
            body = [("if", ("iflet", body[0][2], tuple(body[0][1]), _pat_desc(pat)), body[2:], [body[1][1][0]], body[0][3])]
        # `loop { if c { break; } rest.. }` is `while !c { rest.. }`, which desugars to loop { if !c { rest.. } else { break } }
        if len(body) >= 1 and body[0][0] == "if" and isinstance(body[0][1], tuple) and body[0][1][0] != "iflet" and len(body[0][2]) == 1 \
                and body[0][2][0][0] == "break" and not body[0][3] and len(body) > 1:
            c = body[0][1]
            c = c[2] if (c[0] == "un" and c[1] == "Not") else ("un", "Not", c)
            body = [("if", c, body[1:], [("break", body[0][2][0][1])], body[0][4])]
        return [("loop", body, sp)]
    if k == "Assign":
        return [("assign", sx(e["lhs"], lets), sx(e["rhs"], lets), sp)]
    if k == "AssignOp":
        return [("assignop", e["op"], sx(e["lhs"], lets), sx(e["rhs"], lets), sp)]
    if k == "Return":
        return [("return", sx(e["value"], lets) if "value" in e else None, sp)]
    if k == "Break":
        return [("break", sp)]
    if k == "Continue":
        return [("continue", sp)]
    return [("expr", sx(e, lets), sp)]


BODIES = {}      # the THIR bodies of the tree being analysed (registered by facts.load): closure bodies for the normalisers


def _expand_and_then(out, lets, depth=3):
    """a function that ends in `R.and_then(|pat| { body })` is the function that ends in `let pat = R?; body` (for a Result- or
    Option-returning function): the combinator chain is unrolled into statements so that provenance rules see one form"""
    if depth <= 0 or not out or out[-1][0] != "expr":
        return out
    x = out[-1][1]
    if not (isinstance(x, tuple) and x and x[0] == "call" and x[1].split("::")[-1] == "and_then" and x[1].startswith(("core::result::Result", "core::option::Option"))
            and len(x[2]) == 2 and x[2][1][0] == "closure"):
        return out
    cb = BODIES.get(x[2][1][1]) if hasattr(BODIES, "get") else None
    if cb is None or len(cb["params"]) != 2 or not cb["params"][1].get("pat"):
        return out
    p = cb["params"][1]["pat"]
    while p.get("k") == "Deref":
        p = p["sub"]
    sp = out[-1][-1] if isinstance(out[-1][-1], str) else "?"
    init = ("try", x[2][0])
    if p.get("k") == "Bind" and "sub" not in p:
        head = [("let", p["name"], is_mut_binding(p), init, sp)]
    elif p.get("k") in ("Leaf", "Tuple") and all((fp.get("pat") or {}).get("k") in ("Bind", "Wild") for fp in p.get("fields", [])):
        head = [("letpat", pat_names(p), init, sp, p)]
    else:
        return out
    body = stmts(cb["body"], lets)
    return out[:-1] + head + _expand_and_then(body, lets, depth - 1)


def _outer_continue(stl):
    for st in stl:
        if st[0] == "continue":
            return True
        if st[0] == "if" and (_outer_continue(st[2]) or _outer_continue(st[3])):
            return True
        if st[0] == "match" and any(_outer_continue(bd) for _p, bd, _g in st[2]):
            return True
        if st[0] == "letelse" and _outer_continue(st[1]):
            return True
    return False


def _assigned(stl, short):
    return [st for st in stmt_walk(stl) if st[0] in ("assign", "assignop") and (st[1] if st[0] == "assign" else st[2])[:2] == ("var", short)]


def _counting_loops(out):
    """`while v > 0 { body; v -= 1 }`  ->  for _ in 0..v { body };   `let mut v = lo; while v < hi { body; v += 1 }`  ->
    for v in lo..hi { body }  - when the counter is stepped only by the last statement of the body and nothing continues
    past it.  (A loop with a strictly monotone counter and a fixed bound is a bounded loop.)"""
    res = []
    for st in out:
        done = False
        if st[0] == "loop" and len(st[1]) == 1 and st[1][0][0] == "if" and len(st[1][0][3]) == 1 and st[1][0][3][0][0] == "break":
            cond, body = st[1][0][1], st[1][0][2]
            if isinstance(cond, tuple) and cond[0] == "bin" and body and body[-1][0] == "assignop" and body[-1][3] == ("lit", 1) and body[-1][2][0] == "var":
                v = body[-1][2][1]
                step = body[-1][1]
                clean = len(_assigned(body, v)) == 1 and not _outer_continue(body)
                rng = None
                if clean and step == "SubAssign" and ((cond[1] == "Gt" and cond[2][:2] == ("var", v) and cond[3] == ("lit", 0))
                                                      or (cond[1] == "Ne" and cond[2][:2] == ("var", v) and cond[3] == ("lit", 0))
                                                      or (cond[1] == "Lt" and cond[3][:2] == ("var", v) and cond[2] == ("lit", 0))):
                    rng = (["_"], ("lit", 0), cond[2] if cond[1] != "Lt" else cond[3])
                elif clean and step == "AddAssign" and cond[1] in ("Lt", "Le") and cond[2][:2] == ("var", v) and not any(isinstance(x, tuple) and x[:2] == ("var", v) for x in sx_walk(cond[3])) \
                        and res and res[-1][0] == "let" and res[-1][2] and res[-1][1].split("#")[0] == v:
                    lo = res.pop()[3]
                    hi = cond[3] if cond[1] == "Lt" else ("bin", "Add", cond[3], ("lit", 1))
                    rng = ([body[-1][2][2] if len(body[-1][2]) > 2 else v], lo, hi)
                if rng:
                    it = ("adt", "core::ops::Range", "Range", (("start", rng[1]), ("end", rng[2])))
                    res.append(("for", rng[0], it, body[:-1], st[2]))
                    done = True
            # `let mut it = X; while let Some(p) = it.next() { body }` is `for p in X { body }` when `it` is used nowhere else
            if not done and isinstance(cond, tuple) and cond[0] == "iflet" and cond[3] == "Some" and cond[1][0] == "call" and cond[1][1].endswith("::next") and "Iterator" in cond[1][1] \
                    and len(cond[1][2]) == 1 and cond[1][2][0][0] == "var" and res and res[-1][0] == "let" and res[-1][2] \
                    and res[-1][1].split("#")[0] == cond[1][2][0][1] and _count_var(body, cond[1][2][0][2]) == 0 and not _outer_continue([]):
                src = res.pop()[3]
                res.append(("for", list(cond[2]), src, body, st[2]))
                done = True
        if not done:
            res.append(st)
    return res


def _count_var(t, name):
    if isinstance(t, tuple):
        if len(t) == 3 and t[0] == "var" and t[2] == name:
            return 1
        return sum(_count_var(x, name) for x in t)
    if isinstance(t, list):
        return sum(_count_var(x, name) for x in t)
    return 0


def _subst_var(t, name, val):
    if isinstance(t, tuple):
        if len(t) == 3 and t[0] == "var" and t[2] == name:
            return val
        return tuple(_subst_var(x, name, val) for x in t)
    return t


def _forward_single_use(out):
    """`let r = f(&mut a); match r {..}`: an immutable binding that could not be inlined (its initialiser has an effect)
    and is used exactly once, in the head of the very next statement, is forwarded to that use"""
    i = 0
    while i < len(out) - 1:
        s, nxt = out[i], out[i + 1]
        if s[0] == "let" and not s[2] and nxt[0] in ("let", "expr", "return", "match", "if", "assign", "assignop", "for"):
            name = s[1]
            heads = stmt_exprs(nxt)
            if sum(_count_var(h, name) for h in heads) == 1 and _count_var(out[i + 1:], name) == 1 \
                    and not (nxt[0] == "if" and isinstance(nxt[1], tuple) and nxt[1] and nxt[1][0] == "iflet" and False):
                lst = list(nxt)
                for j, x in enumerate(lst):
                    if isinstance(x, tuple) and any(x is h for h in heads):
                        lst[j] = _subst_var(x, name, s[3])
                out[i + 1] = tuple(lst)
                del out[i]
                continue
        i += 1
    return out


def _is_place(e):
    e = strip(e)
    while e.get("k") == "Field":
        e = strip(e["lhs"])
    return e.get("k") in ("Var", "Upvar")


def _inlinable(init):
    """only side-effect free, branch-free initialisers are inlined at their uses"""
    for n in walk(init):
        if n.get("k") in ("Match", "If", "Loop", "Block", "Assign", "AssignOp", "Return", "Break", "Let"):
            return False
        if n.get("k") == "Borrow" and n.get("mut"):
            return False
    return True


def _pat_desc(p):
    k = p.get("k")
    if k == "Variant":
        return p["variant"]
    if k == "Deref":
        return _pat_desc(p["sub"])
    return k


def stmt_walk(sts):
    """all statements, depth first"""
    for s in sts:
        yield s
        if s[0] == "for":
            yield from stmt_walk(s[3])
        elif s[0] == "if":
            yield from stmt_walk(s[2])
            yield from stmt_walk(s[3])
        elif s[0] == "loop":
            yield from stmt_walk(s[1])
        elif s[0] == "match":
            for _p, body, _g in s[2]:
                yield from stmt_walk(body)
        elif s[0] == "letelse":
            yield from stmt_walk(s[1])


def stmt_exprs(s):
    """sx expressions directly contained in a statement"""
    k = s[0]
    if k == "let":
        return [s[3]]
    if k == "letpat":
        return [s[2]] if s[2] else []
    if k == "for":
        return [s[2]]
    if k == "assign":
        return [s[1], s[2]]
    if k == "assignop":
        return [s[2], s[3]]
    if k == "if":
        return [s[1]]
    if k == "return":
        return [s[1]] if s[1] else []
    if k == "match":
        return [s[1]]
    if k == "expr":
        return [s[1]]
    return []


def fn_stmts(facts, name):
    b = facts.thir.get(name)
    if b is None:
        return None, None
    lets = {}
    return stmts(b["body"], lets), lets


def local_callees(facts, sts):
    """names of crate-local functions (bodies present in the THIR facts) called anywhere in the statements"""
    by_canon = {canon(n): n for n in facts.thir}
    out = []
    for st in stmt_walk(sts):
        for e in stmt_exprs(st):
            for x in sx_walk(e):
                if isinstance(x, tuple) and x and x[0] == "call" and x[1] in by_canon and by_canon[x[1]] not in out:
                    out.append(by_canon[x[1]])
    return out


def fn_stmts_deep(facts, name, depth=2, only=None):
    """[(fn name, statements)] of `name` and of the crate-local helpers it calls (transitively, bounded); `only` filters helpers"""
    seen, todo, out = {name}, [(name, depth)], []
    while todo:
        n, d = todo.pop(0)
        sts, _ = fn_stmts(facts, n)
        if sts is None:
            continue
        out.append((n, sts))
        if d > 0:
            for c in local_callees(facts, sts):
                if c not in seen and (only is None or only(c)):
                    seen.add(c)
                    todo.append((c, d - 1))
    return out


def negate(c):
    return c[2] if (isinstance(c, tuple) and c[0] == "un" and c[1] == "Not") else ("un", "Not", c)


def guarded_blocks(sts):
    """[(condition sx, statements)] for the top-level shapes `if c { A } else { B }` -> (c, A), (!c, B) and
    `if c { return; } rest..` -> (!c, rest): the statements that run exactly when the condition holds"""
    out = []
    for k, st in enumerate(sts):
        if st[0] == "if" and isinstance(st[1], tuple) and st[1][0] != "iflet":
            exits = len(st[2]) >= 1 and st[2][-1][0] == "return" and not st[3]
            if exits and len(st[2]) == 1:
                out.append((negate(st[1]), sts[k + 1:]))
            else:
                out.append((st[1], st[2]))
                if st[3]:
                    out.append((negate(st[1]), st[3]))
    return out


def let_values(sts):
    """{short name: sx} of the immutable plain lets of a statement list (top level), for rules that run without
    let-inlining but still want to look through a hoisted pure local"""
    return {s[1].split("#")[0]: s[3] for s in sts if s[0] == "let" and not s[2]}


def look_through(x, env, depth=4):
    """replace a variable bound by an immutable let (see let_values) by its value, repeatedly"""
    while depth > 0 and isinstance(x, tuple) and x and x[0] == "var" and x[1] in env:
        x = env[x[1]]
        depth -= 1
    return x


# ---- polynomial normal form for index arithmetic -----------------------------------------------

def poly(e, atom):
    """normalise an sx arithmetic expression over + - * (unsigned, no overflow assumed) to
    {monomial(tuple of atom names): coefficient}.  `atom(x)` names a sub-expression that is to be treated
    as an indeterminate (or returns None).  Unknown sub-expressions become their own atoms."""
    a = atom(e)
    if a is not None:
        return {(a,): 1}
    if e[0] == "lit" and isinstance(e[1], int) and not isinstance(e[1], bool):
        return {(): e[1]} if e[1] else {}
    if e[0] == "cast":
        return poly(e[1], atom)
    if e[0] == "bin" and e[1] in ("Add", "Sub", "Mul"):
        p, q = poly(e[2], atom), poly(e[3], atom)
        if e[1] == "Mul":
            out = {}
            for m1, c1 in p.items():
                for m2, c2 in q.items():
                    m = tuple(sorted(m1 + m2))
                    out[m] = out.get(m, 0) + c1 * c2
        else:
            out = dict(p)
            sgn = 1 if e[1] == "Add" else -1
            for m, c in q.items():
                out[m] = out.get(m, 0) + sgn * c
        return {m: c for m, c in out.items() if c}
    return {("?" + sx_show(e, 80),): 1}


# ---- one-level inlining of small pure crate-local helpers -----------------------------------------

def inline_pure_helper(facts, e, depth=2):
    """if `e` is a call to a crate-local function whose body is a pure expression (after let-inlining), return the
    body with parameters substituted by the arguments (recursively, bounded); otherwise return e"""
    if depth <= 0 or not isinstance(e, tuple) or e[0] != "call":
        return e
    body = None
    for n, b in facts.thir.items():
        if canon(n) == e[1]:
            body = b
            break
    if body is None or len(body["params"]) != len(e[2]):
        return e
    pnames = []
    for p in body["params"]:
        pat = p.get("pat")
        if not pat or pat.get("k") != "Bind" or "sub" in pat:
            return e
        pnames.append(pat["name"])
    bx = sx(body["body"], {})
    if any(isinstance(x, tuple) and x and x[0] in ("opaque", "match", "if", "try", "closure") for x in sx_walk(bx)):
        return e
    mapping = dict(zip(pnames, e[2]))

    def subst(t):
        if not isinstance(t, tuple):
            return t
        if t and t[0] == "var" and len(t) > 2 and t[2] in mapping:
            return mapping[t[2]]
        return tuple(subst(x) if isinstance(x, tuple) else x for x in t)
    return inline_pure_helper(facts, subst(bx), depth - 1)


def subst_sx(t, mapping):
    """replace variables (by unique name) in an sx tree"""
    if not isinstance(t, tuple):
        return t
    if len(t) == 3 and t[0] == "var" and t[2] in mapping:
        return mapping[t[2]]
    return tuple(subst_sx(x, mapping) if isinstance(x, tuple) else x for x in t)


def closure_body_sx(facts, cdef):
    """(parameter unique names, body sx) of a closure"""
    cb = facts.thir.get(cdef)
    if cb is None:
        return None
    names = []
    for p in cb["params"][1:]:
        pat = p.get("pat") or {}
        while pat.get("k") == "Deref":
            pat = pat["sub"]
        if pat.get("k") != "Bind" or "sub" in pat:
            return None
        names.append(pat["name"])
    body = sx(cb["body"], let_env(cb["body"]))
    if body[0] == "opaque":
        # a block of (destructuring) lets followed by an expression
        sts = stmts(cb["body"], {})
        if sts and sts[-1][0] == "expr" and all(st[0] in ("let", "letpat") for st in sts[:-1]):
            body = sts[-1][1]
    return names, body


def beta(facts, t):
    """beta-reduce applications of closure literals: Fn::call(|p| body, (arg,)) -> body[p := arg]"""
    def red(n):
        if n[0] == "call" and n[1].split("::")[-1] in ("call", "call_mut", "call_once") and "ops::function::Fn" in n[1] + "ops::function::Fn" \
                and len(n[2]) == 2 and n[2][0][0] == "closure" and n[2][1][0] == "tuple":
            cb = closure_body_sx(facts, n[2][0][1])
            if cb and len(cb[0]) == len(n[2][1][1]):
                return subst_sx(cb[1], dict(zip(cb[0], n[2][1][1])))
        return n
    return map_sx(t, red)


def map_sx(t, fn):
    """rebuild an sx tree bottom-up applying fn to every node"""
    if not isinstance(t, tuple):
        return t
    out = tuple(map_sx(x, fn) if isinstance(x, tuple) else x for x in t)
    return fn(out) if out and isinstance(out[0], str) else out
