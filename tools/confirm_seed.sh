#!/bin/bash
# tools/confirm_seed.sh <ID>: independently confirm a sub-agent's seeded change in its worktree /tmp/seed/<ID>
# (1) patch matches the worktree diff, (2) existing suite passes with the change, (3) demo fails with it, (4) demo passes without it
ID=$1; B=${2:-/tmp/seed}; W=$B/$ID; O=$B/$ID.out; L=$B/$ID.confirm
export CARGO_TARGET_DIR=$W/target CARGO_NET_OFFLINE=true
cd $W || exit 2
{
echo "== $ID $(date -u +%FT%TZ)"
git checkout -q -- src 2>/dev/null
git apply --check $O/patch.diff && echo "patch applies: yes" || { echo "patch applies: NO"; exit 1; }
cp $O/seed_demo.rs tests/seed_demo.rs
echo "-- unchanged tree: demo"
cargo test --offline --test seed_demo 2>&1 | grep -E "^test result|error(\[|:)" | head -3
git apply $O/patch.diff
echo "-- with change: build + existing suite (demo moved away)"
mv tests/seed_demo.rs $B/$ID.demo.rs
cargo build --offline 2>&1 | grep -E "^error|warning: unused" | head -3
cargo test --workspace --no-fail-fast --offline 2>&1 | grep -E "^test result|^error" | head -4
mv $B/$ID.demo.rs tests/seed_demo.rs
echo "-- with change: demo"
cargo test --offline --test seed_demo 2>&1 | grep -E "^test result|error(\[|:)" | head -3
echo "== done"
} > $L 2>&1
