#!/usr/bin/env python3
"""tools/dump.py <def-substring>: structured statement dump of matching bodies"""
import sys, os
sys.path.insert(0, os.path.dirname(os.path.dirname(os.path.abspath(__file__))))
from rules import facts, thirlib as T
f = facts.load()
W = int(os.environ.get("W", "220"))
def dump(sts, ind=0):
    for s in sts:
        pad = '  ' * ind
        if s[0] == 'for': print(pad, 'for', s[1], 'in', T.sx_show(s[2], W), '@', s[4]); dump(s[3], ind + 1)
        elif s[0] == 'if': print(pad, 'if', T.sx_show(s[1], W), '@', s[4]); dump(s[2], ind + 1); (s[3] and (print(pad, 'else'), dump(s[3], ind + 1)))
        elif s[0] == 'loop': print(pad, 'loop @', s[2]); dump(s[1], ind + 1)
        elif s[0] == 'match':
            print(pad, 'match', T.sx_show(s[1], W), '@', s[3])
            for p, b, g in s[2]: print(pad, ' arm', T._pat_desc(p), T.pat_names(p)); dump(b, ind + 2)
        elif s[0] == 'let': print(pad, 'let', 'mut' if s[2] else '', s[1], '=', T.sx_show(s[3], W))
        elif s[0] == 'letpat': print(pad, 'letpat', s[1], '=', T.sx_show(s[2], W) if s[2] else None)
        elif s[0] == 'letelse': print(pad, 'letelse'); dump(s[1], ind + 1)
        else: print(pad, s[0], *[T.sx_show(x, W) if isinstance(x, tuple) else x for x in s[1:]])
for name in f.thir:
    if sys.argv[1] in name:
        print('=====', name)
        dump(T.stmts(f.thir[name]['body'], {"__noinline__": True} if os.environ.get("NOINLINE") else {}))
