#!/usr/bin/env python3
"""(re)generate MANIFEST.json from rules/props.py"""
import json, os, sys
V = os.path.dirname(os.path.dirname(os.path.abspath(__file__)))
sys.path.insert(0, V)
from rules import props
ids = [json.loads(l)["id"] for l in open(os.path.join(V, "properties.jsonl"))]
checks = []
na = []
for pid in ids:
    sp = props.PROPS.get(pid)
    if sp is None:
        na.append({"property_id": pid, "reason": props.NOT_APPLICABLE.get(pid, "no static rule built yet for this property (under construction)")})
        continue
    checks.append({
        "property_id": pid,
        "quick_cmd": "./check %s quick" % pid,
        "thorough_cmd": "./check %s thorough" % pid,
        "evidence_file": "evidence/%s.json" % pid,
        "replay_cmd_template": "./check %s --replay {path}" % pid,
        "engine": sp.get("engine", "dmx-facts"),
        "level_claimed": {"category": sp["level"], "text": sp.get("level_text", sp["explanation"]), "design_ref": sp.get("design_ref", "DESIGN.md §4 " + pid)},
        "level_note": sp.get("level_note", "; ".join(sp.get("trusted_base", []) + sp.get("assumptions", []))),
        "technique": sp.get("technique", "static analysis over rustc THIR/MIR facts"),
    })
man = {
    "version": 1,
    "setup_cmd": "cd engine/dmx-facts && CARGO_NET_OFFLINE=true cargo build --release --offline",
    "hooks": {
        "guard": "datamatrix_verif",
        "enable": "none needed: the checks are static analyses of /repo's working tree (rustc driver under `cargo +nightly check --lib`, LLVM IR from `cargo +nightly build --lib`); no instrumentation is compiled into the crate",
        "baseline_off_cmd": "cd /repo && cargo test --workspace --no-fail-fast --offline",
        "source_commits": [],
        "add_only": True,
    },
    "engines": [
        {"name": "dmx-facts", "path": "engine/dmx-facts", "serves_properties": [c["property_id"] for c in checks],
         "kind_free_text": "rustc_private driver (nightly) dumping THIR, MIR, evaluated constants and ADT definitions of the datamatrix crate as JSON; rules in Python (rules/*.py)"},
        {"name": "panic-residue", "path": "rules/residue.py", "serves_properties": [p for p in ("C05", "C11", "C15") if p in props.PROPS],
         "kind_free_text": "LLVM-IR residue analysis: which panic sites the optimiser could not prove dead (opt-level=3, overflow checks + debug assertions on), attributed through core::panic::Location constants and compared with a reviewed ledger"},
    ],
    "checks": checks,
    "not_applicable": na,
    "notes": "Static-analysis family only. Every check rebuilds its fact file from /repo's working tree (content-hash cache under .cache/). Genuine defects of the pinned tree were repaired by `fix:` commits in /repo and are listed as fixed in known_findings.jsonl.",
}
json.dump(man, open(os.path.join(V, "MANIFEST.json"), "w"), indent=1)
print("MANIFEST.json: %d checks, %d not_applicable" % (len(checks), len(na)))
